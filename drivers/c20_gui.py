"""C20 driver: the visualizer backend through Flask's test client (ONE app object for the whole run) compared with direct
library calls; tables for the Coq side.  usage: c20_gui.py <out.json> <tier> <seed>"""
import contextlib
import io
import json
import os
import random
import re
import sys

import numpy as np

sys.path.insert(0, __file__.rsplit('/', 1)[0])
import dump_codes as dc  # noqa: E402


def main():
    out, tier, seed = sys.argv[1], sys.argv[2], int(sys.argv[3])
    rng = random.Random(seed)
    import panqec
    import panqec.gui._gui as G
    from panqec.error_models import PauliErrorModel
    gui = G.GUI()
    client = gui.app.test_client()
    res = {'tables': {}, 'code_data': [], 'decoder_names': [], 'deformation_names': [], 'decode': [], 'new_errors': [], 'menu': {}}
    # tables (pure data)
    cfg = json.load(open(os.path.join(os.path.dirname(panqec.__file__), 'codes', 'gui-config.json')))
    colormap = G.codes['Toric 2D'](2, 2).colormap

    def complete_stab(e):
        try:
            return bool(e['object']) and all(e['color'][a] in colormap for a in ('activated', 'deactivated')) and 'opacity' in e and 'params' in e \
                and all(k in e['opacity'] for k in ('activated', 'deactivated'))
        except Exception:
            return False

    def complete_qubit(e):
        try:
            return bool(e['object']) and all(e['color'][p] in colormap for p in 'IXYZ') and 'opacity' in e and 'params' in e
        except Exception:
            return False
    res['tables']['stab'] = {cls: {pic: {ty: complete_stab(e) for ty, e in tys.items()} for pic, tys in v.get('stabilizers', {}).items()} for cls, v in cfg.items()}
    res['tables']['qubit'] = {cls: {pic: complete_qubit(e) for pic, e in v.get('qubits', {}).items()} for cls, v in cfg.items()}
    res['tables']['gui_codes'] = [[name, k.__name__, int(k.dimension)] for name, k in G.codes.items()]
    res['tables']['gui_decoders'] = [[name, k.__name__, k.allowed_codes] for name, k in G.decoders.items()]
    js = open(os.path.join(os.path.dirname(G.__file__), 'js', 'main.js')).read()
    m = re.search(r'\.add\(params, "L", \{([^}]*)\}', js, re.S)
    res['menu']['L'] = sorted(set(int(x) for x in re.findall(r'(\d+)\s*:', m.group(1)))) if m else None
    res['menu']['rotated_toggle'] = bool(re.search(r'\.add\(params, "rotated"\)', js))
    res['menu']['coprime_toggle'] = bool(re.search(r'\.add\(params, "coprime"\)', js))
    res['menu']['coprime_rule'] = bool(re.search(r'if \(params\.coprime\) codeSize\.Lx \+= 1', js))
    r = client.post('/code-names', json={'dimension': 2})
    res['menu']['code_names_2d'] = r.get_json(force=True) if r.status_code == 200 else r.status_code
    r = client.post('/code-names', json={'dimension': 3})
    res['menu']['code_names_3d'] = r.get_json(force=True) if r.status_code == 200 else r.status_code
    # requests
    Ls = [1, 2, 3] if tier == 'quick' else [1, 2, 3, 4, 5, 6]
    reqs = []
    for name, klass in G.codes.items():
        cls = klass.__name__
        dim = klass.dimension
        for L in Ls:
            for coprime in (False, True):
                size = ((L + 1, L) if coprime else (L, L)) if dim == 2 else ((L + 1, L, L) if coprime else (L, L, L))
                if not dc.supported(cls, size):
                    continue
                if dim == 3 and L > (2 if tier == 'quick' else 4) and cls in ('Color3DCode', 'HollowRhombicCode', 'RhombicToricCode'):
                    continue
                for dn in ['None'] + list(klass.deformation_names):
                    for rot in (False, True):
                        reqs.append((name, cls, size, dn, rot))
    # both ends of the size menu: the largest L offered, with and without the coprime box (2-D codes; the 3-D tables at L = 12
    # have tens of millions of entries)
    Lmax = max(res['menu']['L']) if res['menu']['L'] else 12
    for name, klass in G.codes.items():
        if klass.dimension == 2:
            for size in ((Lmax + 1, Lmax), (Lmax, Lmax)):
                if dc.supported(klass.__name__, size) and (tier == 'thorough' or klass.__name__ in ('Toric2DCode', 'RotatedPlanar2DCode', 'Color666PlanarCode')):
                    reqs.append((name, klass.__name__, size, 'None', False))
    rng.shuffle(reqs)
    # make sure sequences "deformed then None on the same code and size" occur on the one server
    extra = []
    for (name, cls, size, dn, rot) in reqs:
        if dn != 'None' and rng.random() < 0.5:
            extra.append((name, cls, size, dn, rot))
            extra.append((name, cls, size, 'None', rot))
    reqs = reqs + extra
    for (name, cls, size, dn, rot) in reqs:
        body = {'Lx': size[0], 'Ly': size[1], 'code_name': name, 'code_deformation_name': dn, 'rotated_picture': rot}
        if len(size) == 3:
            body['Lz'] = size[2]
        rec = {'menu': name, 'cls': cls, 'size': list(size), 'deformation': dn, 'rotated': rot}
        with contextlib.redirect_stdout(io.StringIO()):
            r = client.post('/code-data', json=body)
        rec['status'] = r.status_code
        if r.status_code == 200:
            d = r.get_json(force=True)
            code = G.codes[name](*size)
            if dn != 'None':
                code.deform(dn)
            probs = []
            if d['H'] != code.stabilizer_matrix.toarray().tolist():
                probs.append('parity-check matrix differs from the library\'s for this (deformed) code')
            if d['logical_x'] != code.logicals_x.tolist() or d['logical_z'] != code.logicals_z.tolist():
                probs.append('logical operators differ from the library\'s')
            if len(d['qubits']) != code.n or len(d['stabilizers']) != code.n_stabilizers:
                probs.append('%d qubit and %d stabilizer descriptions for n=%d, m=%d' % (len(d['qubits']), len(d['stabilizers']), code.n, code.n_stabilizers))
            else:
                norm = lambda o: json.loads(json.dumps(o))
                for i, (q, loc) in enumerate(zip(d['qubits'], code.qubit_coordinates)):
                    lib = norm(code.qubit_representation(loc, rot))
                    if q != lib or not q.get('object') or set(q.get('color', {})) != set('IXYZ') or 'location' not in q \
                            or any(not str(v).startswith('0x') for v in q['color'].values()) or 'opacity' not in q or 'params' not in q:
                        probs.append('qubit %d description incomplete or not the library\'s for qubit index %d: %s' % (i, i, json.dumps(q)[:160]))
                        break
                for i, (s_, loc) in enumerate(zip(d['stabilizers'], code.stabilizer_coordinates)):
                    lib = norm(code.stabilizer_representation(loc, rot))
                    if s_ != lib or not s_.get('object') or s_.get('type') != code.stabilizer_type(loc) or 'location' not in s_ \
                            or set(s_.get('color', {})) != {'activated', 'deactivated'} or any(not str(v).startswith('0x') for v in s_['color'].values()) \
                            or 'opacity' not in s_ or 'params' not in s_:
                        probs.append('stabilizer %d description incomplete or not the library\'s for stabilizer index %d: %s' % (i, i, json.dumps(s_)[:160]))
                        break
            rec['problems'] = probs
            rec['types'] = sorted(set(s_.get('type') for s_ in d['stabilizers']))
        res['code_data'].append(rec)
    for name, klass in G.codes.items():
        r = client.post('/decoder-names', json={'code_name': name})
        res['decoder_names'].append({'menu': name, 'cls': klass.__name__, 'status': r.status_code, 'names': r.get_json(force=True) if r.status_code == 200 else None})
        r = client.post('/deformation-names', json={'code_name': name})
        res['deformation_names'].append({'menu': name, 'status': r.status_code, 'names': r.get_json(force=True) if r.status_code == 200 else None,
                                         'library': list(klass.deformation_names)})
    # decode / new-errors with every offered decoder, noise options, noise deformation independent of code deformation
    import numpy.random as npr
    real_rng = npr.default_rng
    dsizes = {2: (3, 3), 3: (2, 2, 2)}
    for name, klass in G.codes.items():
        cls = klass.__name__
        size = dsizes[klass.dimension]
        if not dc.supported(cls, size):
            size = (2, 2) if klass.dimension == 2 else (2, 2, 3)
            if not dc.supported(cls, size):
                continue
        offered = [d_ for d_, k in G.decoders.items() if k.allowed_codes is None or cls in k.allowed_codes]
        for dec_name in offered:
            if dec_name == 'MBP' and not (klass.dimension == 2 and cls in ('Toric2DCode', 'Planar2DCode', 'RotatedPlanar2DCode')):
                continue      # MBP (pure-Python message passing) only on the small 2-D lattices
            combos = [('None', 'None')] + ([('None', klass.deformation_names[0]), (klass.deformation_names[0], 'None')] if klass.deformation_names else [])
            if dec_name == 'MBP':
                combos = combos * 5      # several syndromes: few of them are still unconverged after 1-2 iterations
            for (cdef, ndef) in combos:
                if dec_name in ('Matching', 'SweepMatch', 'RotatedSweepMatch', 'Union-Find', 'XCube Matching') and cdef != 'None':
                    continue
                em_name = rng.choice(list(G.noise_directions))
                code = klass(*size)
                if cdef != 'None':
                    code.deform(cdef)
                e = np.zeros(2 * code.n, dtype='uint8')
                for q in rng.sample(range(code.n), min(3 if dec_name == 'MBP' else 2, code.n)):
                    e[q + rng.choice([0, code.n])] = 1
                syn = [int(b) for b in code.measure_syndrome(e)]
                # slider values other than the library defaults, so that a dropped option shows
                bp_iter = rng.choice([1, 2]) if dec_name == 'MBP' else rng.choice([1, 3, 10])
                alpha, beta = rng.choice([(0.4, 0), (0.75, 0), (0.5, 0.1)])
                p_dec = rng.choice([0.05, 0.1, 0.2])          # the Probability slider: decode at several rates,
                p_new = rng.choice([0, 0, 0.1, 0.25, 1])       # new errors also at both ends of the slider
                body = {'Lx': size[0], 'Ly': size[1], 'code_name': name, 'code_deformation_name': cdef, 'syndrome': syn, 'p': p_dec,
                        'noise_deformation_name': ndef, 'max_bp_iter': bp_iter, 'alpha': alpha, 'beta': beta, 'decoder': dec_name, 'error_model': em_name}
                if len(size) == 3:
                    body['Lz'] = size[2]
                rec = {'menu': name, 'cls': cls, 'size': list(size), 'decoder': dec_name, 'code_deformation': cdef, 'noise_deformation': ndef, 'error_model': em_name,
                       'max_bp_iter': bp_iter, 'alpha': alpha, 'beta': beta, 'syndrome': syn, 'p_decode': p_dec, 'p_new_errors': p_new}
                try:
                    with contextlib.redirect_stdout(io.StringIO()):
                        npr.default_rng = lambda *a, **k: real_rng(1234)
                        np.random.default_rng = npr.default_rng
                        r = client.post('/decode', json=body)
                        rec['status'] = r.status_code
                        em = PauliErrorModel(*G.noise_directions[em_name], None if ndef == 'None' else ndef)
                        kw = {}
                        if dec_name == 'BP-OSD':
                            kw = {'max_bp_iter': bp_iter, 'osd_order': 0}
                        if dec_name == 'MBP':
                            kw = {'max_bp_iter': bp_iter, 'alpha': alpha, 'beta': beta}
                        lib = G.decoders[dec_name](code, em, p_dec, **kw).decode(np.array(syn))
                        if r.status_code == 200:
                            d = r.get_json(force=True)
                            rec['equal'] = (d['x'] == np.asarray(lib[:code.n]).tolist() and d['z'] == np.asarray(lib[code.n:]).tolist()) \
                                or dec_name in ('SweepMatch', 'RotatedSweepMatch')
                        if dec_name in ('BP-OSD', 'MBP') and r.status_code == 200:
                            # the next request differs ONLY in the belief-propagation sliders: it must be answered with the new values
                            bp2 = {1: 20, 2: 20, 3: 1, 10: 1}[bp_iter]
                            al2, be2 = (0.75, 0.1) if (alpha, beta) == (0.4, 0) else (0.4, 0)
                            rr_ = client.post('/decode', json=dict(body, max_bp_iter=bp2, alpha=al2, beta=be2))
                            kw2 = {'max_bp_iter': bp2, 'osd_order': 0} if dec_name == 'BP-OSD' else {'max_bp_iter': bp2, 'alpha': al2, 'beta': be2}
                            lib2 = G.decoders[dec_name](code, em, p_dec, **kw2).decode(np.array(syn))
                            if rr_.status_code != 200:
                                rec['equal'] = False
                                rec['second_request'] = 'status %d' % rr_.status_code
                            else:
                                d2_ = rr_.get_json(force=True)
                                if not (d2_['x'] == np.asarray(lib2[:code.n]).tolist() and d2_['z'] == np.asarray(lib2[code.n:]).tolist()):
                                    rec['equal'] = False
                                    rec['second_request'] = {'max_bp_iter': bp2, 'alpha': al2, 'beta': be2}
                        r2 = client.post('/new-errors', json=dict(body, p=p_new))
                        rec['status_new'] = r2.status_code
                        lib_err = em.generate(code, p_new, rng=real_rng(1234))
                        if r2.status_code == 200:
                            rec['equal_new'] = r2.get_json(force=True) == np.asarray(lib_err).tolist()
                except Exception as ex:
                    rec['exception'] = '%s: %s' % (type(ex).__name__, ex)
                finally:
                    npr.default_rng = real_rng
                    np.random.default_rng = real_rng
                res['decode'].append(rec)
    # the clean lattice (all-zero syndrome): every offered decoder, MBP on the 3-D codes too, every noise option.  Some decoders
    # return a non-trivial operator for it (MBP under pure noise); whatever the library decoder returns is what /decode must return.
    for name, klass in G.codes.items():
        cls = klass.__name__
        size = dsizes[klass.dimension]
        if not dc.supported(cls, size):
            size = (2, 2) if klass.dimension == 2 else (2, 2, 3)
            if not dc.supported(cls, size):
                continue
        offered = [d_ for d_, k in G.decoders.items() if k.allowed_codes is None or cls in k.allowed_codes]
        for dec_name in offered:
            for em_name in G.noise_directions:
                code = klass(*size)
                syn = [0] * code.stabilizer_matrix.shape[0]
                bp_iter, alpha, beta, p_dec = 1, 0.4, 0, 0.1
                body = {'Lx': size[0], 'Ly': size[1], 'code_name': name, 'code_deformation_name': 'None', 'syndrome': syn, 'p': p_dec,
                        'noise_deformation_name': 'None', 'max_bp_iter': bp_iter, 'alpha': alpha, 'beta': beta, 'decoder': dec_name, 'error_model': em_name}
                if len(size) == 3:
                    body['Lz'] = size[2]
                rec = {'menu': name, 'cls': cls, 'size': list(size), 'decoder': dec_name, 'code_deformation': 'None', 'noise_deformation': 'None', 'error_model': em_name,
                       'max_bp_iter': bp_iter, 'alpha': alpha, 'beta': beta, 'syndrome': syn, 'p_decode': p_dec, 'clean_lattice': True}
                try:
                    with contextlib.redirect_stdout(io.StringIO()):
                        npr.default_rng = lambda *a, **k: real_rng(1234)
                        np.random.default_rng = npr.default_rng
                        r = client.post('/decode', json=body)
                        rec['status'] = r.status_code
                        em = PauliErrorModel(*G.noise_directions[em_name], None)
                        kw = {}
                        if dec_name == 'BP-OSD':
                            kw = {'max_bp_iter': bp_iter, 'osd_order': 0}
                        if dec_name == 'MBP':
                            kw = {'max_bp_iter': bp_iter, 'alpha': alpha, 'beta': beta}
                        lib = G.decoders[dec_name](code, em, p_dec, **kw).decode(np.array(syn))
                        if r.status_code == 200:
                            d = r.get_json(force=True)
                            rec['equal'] = (d['x'] == np.asarray(lib[:code.n]).tolist() and d['z'] == np.asarray(lib[code.n:]).tolist())
                            rec['library_weight'] = int(np.count_nonzero(np.asarray(lib)))
                except Exception as ex:
                    rec['exception'] = '%s: %s' % (type(ex).__name__, ex)
                finally:
                    npr.default_rng = real_rng
                    np.random.default_rng = real_rng
                res['decode'].append(rec)
    json.dump(res, open(out, 'w'))
    print(len(res['code_data']), 'code-data requests', len(res['decode']), 'decode/new-errors requests')


if __name__ == '__main__':
    main()
