"""C19 driver: `panqec generate-input` through click's CliRunner (ONE process for all invocations, sequences share state),
files read back. usage: c19_geninput.py <out.json> <tier> <seed>"""
import contextlib
import glob
import io
import json
import os
import random
import sys
import tempfile

from click.testing import CliRunner


def main():
    out, tier, seed = sys.argv[1], sys.argv[2], int(sys.argv[3])
    rng = random.Random(seed)
    from panqec.cli import cli, read_range_input
    from panqec.simulation import read_input_json
    res = {'ranges': [], 'invocations': []}
    # (1) range specs on a decimal grid
    specs = ['0:0.6:0.005', '0:0.07:0.005', '0:0.3:0.05', '0:0.3:0.1', '0:0.7:0.1', '0.1:0.4:0.1', '0.01:0.02:0.001', '0:0.5', '0.2:0.21',
             '0.1,0.2,0.3', '0.25', '1e-2', '0.05:0.05:0.01', '0:1:0.25', '0.1:0.35:0.05', '0.02:0.2:0.02']
    nrand = 120 if tier == 'quick' else 1500
    for _ in range(nrand):
        k = rng.choice([1, 2, 3])
        scale = 10 ** k
        st = rng.randint(1, 20)
        a = rng.randint(0, 50)
        m = rng.randint(0, 40)
        b = a + m * st
        fmt = lambda v: ('%.*f' % (k, v / scale)).rstrip('0').rstrip('.') if rng.random() < 0.5 else '%.*f' % (k, v / scale)
        specs.append('%s:%s:%s' % (fmt(a), fmt(b), fmt(st)))
        if rng.random() < 0.15:   # off-grid: max not reachable
            specs.append('%s:%s:%s' % (fmt(a), fmt(b + rng.randint(1, st) - (1 if st > 1 else 0)), fmt(st)))
    for sp in specs:
        try:
            vals = [float(v) for v in read_range_input(sp)]
            res['ranges'].append({'spec': sp, 'vals': vals})
        except Exception as ex:
            res['ranges'].append({'spec': sp, 'error': '%s: %s' % (type(ex).__name__, ex)})
    # (2) CLI invocations, in sequences that share (bias, eta) with and without a noise deformation
    runner = CliRunner()
    ninv = 40 if tier == 'quick' else 300
    codes2 = [('Toric2DCode', 'MatchingDecoder', ['XZZX', 'XY']), ('Planar2DCode', 'MatchingDecoder', ['XZZX']),
              ('RotatedPlanar2DCode', 'BeliefPropagationOSDDecoder', ['XZZX', 'XY']), ('Toric2DCode', 'UnionFindDecoder', []),
              ('Color666PlanarCode', 'BeliefPropagationOSDDecoder', []),
              # every registered decoder class appears once (the command adds decoder-specific parameters for some of them)
              ('Toric2DCode', 'MemoryBeliefPropagationDecoder', ['XZZX'])]
    codes3 = [('Toric3DCode', 'SweepMatchDecoder', ['XZZX']), ('Planar3DCode', 'BeliefPropagationOSDDecoder', ['XZZX']),
              ('XCubeCode', 'BeliefPropagationOSDDecoder', ['XZZX']), ('RotatedPlanar3DCode', 'RotatedSweepMatchDecoder', ['XZZX']),
              # a deformation name with lower-case letters and a blank
              ('RhombicPlanarCode', 'BeliefPropagationOSDDecoder', ['Checkerboard XZZX']),
              ('XCubeCode', 'XCubeMatchingDecoder', ['XZZX'])]
    prev = None
    # every (code class, deformation name) pair once, before the random sequences
    forced = [(c_, d_, defs_, nm_, three_) for grp, three_ in ((codes2, False), (codes3, True)) for (c_, d_, defs_) in grp for nm_ in (defs_ or [None])]
    ninv += len(forced)
    with tempfile.TemporaryDirectory() as tmp:
        for i in range(ninv):
            if i < len(forced):
                code, dec, defs, nm, three = forced[i]
                a = {'code': code, 'decoder': dec, '_defs': defs, 'sizes': '2x2x2' if three else '2x2,3x3', 'bias': rng.choice('XYZ'),
                     'eta': rng.choice(['0.5', '3,inf', '10', '1,1.5', '0.25,0.5,0.75', '0,1']), 'prob': rng.choice(['0.1', '0.05,0.15']), 'deformation': nm,
                     'method': 'direct', 'label': None}
            elif prev is not None and rng.random() < 0.45:
                a = dict(prev)
                a['deformation'] = None if prev['deformation'] else (rng.choice(prev['_defs']) if prev['_defs'] else None)
                if rng.random() < 0.3:
                    a['prob'] = rng.choice(['0.1', '0:0.3:0.1', '0.05,0.15'])
            else:
                three = rng.random() < 0.4
                code, dec, defs = rng.choice(codes3 if three else codes2)
                sizes = rng.sample(['2x2x2', '3x3x3', '2x3x2', '3x2x2', '2x2x3'] if three else ['2x2', '3x3', '2x3', '3x2', '4x4', '3', '2'], rng.randint(1, 3))
                etas = rng.sample(['0.5', '1', '3', '10', '30', '100', 'inf', '2.5', '1.5', '0.25', '0.75', '2', '10.5', '0'], rng.randint(1, 5))
                a = {'code': code, 'decoder': dec, '_defs': defs, 'sizes': ','.join(sizes), 'bias': rng.choice('XYZ'), 'eta': ','.join(etas),
                     'prob': rng.choice(['0.1', '0:0.3:0.1', '0.05,0.15', '0:0.07:0.005', '0.01:0.05:0.01', '0.2:0.5:0.15']),
                     'deformation': rng.choice(defs) if defs and rng.random() < 0.5 else None,
                     'method': rng.choice(['direct', 'direct', 'splitting']), 'label': rng.choice([None, 'exp', 'run_a'])}
            prev = a
            d = os.path.join(tmp, 'inv%d' % i)
            args = ['generate-input', '-d', d, '--code_class', a['code'], '--decoder_class', a['decoder'], '-s', a['sizes'],
                    '--bias', a['bias'], '--eta', a['eta'], '--prob', a['prob'], '-m', a['method']]
            if a['deformation']:
                args += ['--deformation_name', a['deformation']]
            if a['label']:
                args += ['-l', a['label']]
            r = runner.invoke(cli, args)
            rec = {'args': {k: v for k, v in a.items() if not k.startswith('_')}, 'exit': r.exit_code,
                   'exception': repr(r.exception) if r.exception else None, 'files': []}
            for f in sorted(glob.glob(os.path.join(d, 'inputs', '*'))):
                data = json.load(open(f))
                fr = {'name': os.path.basename(f), 'json': data}
                try:
                    with contextlib.redirect_stdout(io.StringIO()):
                        bs = read_input_json(f, os.path.join(d, 'out.json'))
                    if a['method'] == 'direct':
                        fr['sims'] = [[s.code.id, s.code.params, s.error_model.params, s.decoder.id, s.error_rate] for s in bs._simulations]
                    else:
                        # a splitting simulation covers all error rates of one (lattice, noise, decoder): one entry per rate it holds,
                        # in the order of the specification when it holds exactly those rates
                        fr['sims'] = []
                        spec_rates = [float(x) for x in data.get('ranges', {}).get('error_rate', [])]
                        for s in bs._simulations:
                            held = sorted(float(x) for x in s.error_rates)
                            order = spec_rates if sorted(spec_rates) == held else held
                            ids = set(d_.id for d_ in s.decoders)
                            did = ids.pop() if len(ids) == 1 and len(s.decoders) == len(held) else 'decoders %s for %d rates' % ([d_.id for d_ in s.decoders], len(held))
                            fr['sims'] += [[s.code.id, s.code.params, s.error_model.params, did, r_] for r_ in order]
                            if type(s).__name__ != 'SplittingSimulation':
                                fr['read_error'] = 'method splitting read back as %s' % type(s).__name__
                except Exception as ex:
                    fr['read_error'] = '%s: %s' % (type(ex).__name__, ex)
                rec['files'].append(fr)
            res['invocations'].append(rec)
    json.dump(res, open(out, 'w'), default=lambda o: o.tolist() if hasattr(o, 'tolist') else str(o))
    print(len(res['ranges']), 'ranges', len(res['invocations']), 'invocations')


if __name__ == '__main__':
    main()
