"""C14 driver: what run-parallel would launch, captured by replacing multiprocessing.Process.
usage: c14_parallel.py <out.json> <tier> <seed>"""
import contextlib
import io
import json
import multiprocessing
import os
import random
import sys
import tempfile

import panqec.cli as cli


def launched(n_inputs, n_nodes, n_cores, trials, jobs=None, delete_existing=False, missing=None):
    tasks = []
    missing = missing if missing is not None else []

    class FakeProc:
        def __init__(self, target=None, args=(), kwargs=None):
            tasks.append(args)

        def start(self):
            pass

        def join(self):
            pass
    err = None
    with tempfile.TemporaryDirectory() as d:
        os.makedirs(os.path.join(d, 'inputs'))
        # real specifications in the three forms read_input_json accepts: one ranges dict, a list of ranges dicts, explicit runs
        rg = {'label': 'c14', 'code': {'name': 'Toric2DCode', 'parameters': [{'L_x': 2, 'L_y': 2}, {'L_x': 3, 'L_y': 3}]},
              'error_model': {'name': 'PauliErrorModel', 'parameters': {'r_x': 0.25, 'r_y': 0.25, 'r_z': 0.5}},
              'decoder': {'name': 'MatchingDecoder', 'parameters': {}}, 'error_rate': [0.1, 0.2]}
        run = {'label': 'c14', 'code': {'name': 'Toric2DCode', 'parameters': {'L_x': 2, 'L_y': 2}},
               'error_model': {'name': 'PauliErrorModel', 'parameters': {'r_x': 0.25, 'r_y': 0.25, 'r_z': 0.5}},
               'decoder': {'name': 'MatchingDecoder', 'parameters': {}}, 'error_rate': 0.1}
        forms = [{'ranges': rg}, {'ranges': [rg, dict(rg, error_rate=[0.3])]}, {'runs': [run, dict(run, error_rate=0.2)]}]
        for i in range(n_inputs):
            json.dump(forms[i % 3], open(os.path.join(d, 'inputs', 'in_%04d.json' % i), 'w'))
        old = (multiprocessing.Process, multiprocessing.cpu_count, cli.glob)
        multiprocessing.Process, multiprocessing.cpu_count = FakeProc, (lambda: 4096)
        cli.glob = lambda pat: sorted(old[2](pat))
        try:
            with contextlib.redirect_stdout(io.StringIO()):
                for job in (jobs or range(1, n_nodes + 1)):
                    before = len(tasks)
                    cli.run_parallel.callback(d, trials, n_nodes, job, n_cores, delete_existing, True)
                    if delete_existing:
                        # the launched processes of this node write their result files; the next node starts afterwards
                        for a in tasks[before:]:
                            open(a[1], 'w').write('[]')
                if delete_existing:
                    missing.extend(sorted(os.path.basename(a[1]) for a in tasks if not os.path.exists(a[1])))
        except BaseException as ex:
            err = '%s: %s' % (type(ex).__name__, ex)
        finally:
            multiprocessing.Process, multiprocessing.cpu_count, cli.glob = old
    out = []
    for a in tasks:
        out.append([int(os.path.basename(a[0])[3:7]), os.path.basename(a[1]), int(a[2])])
    return out, err


def main():
    out, tier, seed = sys.argv[1], sys.argv[2], int(sys.argv[3])
    rng = random.Random(seed)
    cfgs = []
    maxI, maxN, maxC = (4, 3, 5) if tier == 'quick' else (6, 4, 6)
    for I in range(1, maxI + 1):
        for N in range(1, maxN + 1):
            for C in range(1, maxC + 1):
                M = N * C
                if M < I:
                    continue
                tl = M // I + M % I
                for T in sorted(set([tl, tl + 1, tl + 2, 2 * tl - 1, 2 * tl, 3 * tl + 1, 10, 17, 60, 100, 1000])):
                    if T >= tl:
                        cfgs.append((I, N, C, T))
    for _ in range(150 if tier == 'quick' else 1500):
        N = rng.choice([1, 2, 3, 8, 16, 40])
        C = rng.choice([1, 2, 4, 12, 24, 48])
        I = rng.randint(1, N * C)
        tl = (N * C) // I + (N * C) % I
        T = rng.choice([tl, tl + rng.randint(0, 50), rng.randint(tl, 100000)])
        cfgs.append((I, N, C, T))
    res = []
    for (I, N, C, T) in cfgs:
        tasks, err = launched(I, N, C, T)
        rec = {'I': I, 'N': N, 'C': C, 'T': T, 'tasks': tasks, 'error': err}
        if N >= 2 and N * C <= 64 and (I + N + C + T) % 3 == 0:
            # the same configuration with --delete-existing, node after node on one results directory
            miss = []
            tasks2, err2 = launched(I, N, C, T, delete_existing=True, missing=miss)
            rec['delete_existing'] = {'missing': miss, 'error': err2, 'same_tasks': [t[1:] for t in tasks2] == [t[1:] for t in tasks]}
        res.append(rec)
    json.dump(res, open(out, 'w'))
    print(len(res), 'configurations')


if __name__ == '__main__':
    main()
