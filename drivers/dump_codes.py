"""Layer-I dump: run the real panqec code classes (working tree) and write one JSON per
(class, size, deformation, axis) with everything the Coq checkers need.

usage: dump_codes.py <outdir> <tier> [--only Class1,Class2] [--jobs N]
"""
import itertools
import json
import os
import sys
from multiprocessing import Pool

import numpy as np


# --------------------------------------------------------------------------------------------
# supported families (DESIGN.md §4)
def supported(cls, size):
    if cls in ('Toric2DCode', 'Toric3DCode', 'XCubeCode', 'Planar2DCode', 'RotatedPlanar2DCode',
               'Planar3DCode', 'RotatedPlanar3DCode', 'HollowPlanar3DCode'):
        return all(L >= 2 for L in size)
    if cls == 'RhombicPlanarCode':
        return size[0] >= 2 and size[1] >= 2 and size[2] >= 1
    if cls == 'HollowRhombicCode':
        return size[0] >= 2 and size[1] >= 2 and size[2] >= 3
    if cls in ('RhombicToricCode', 'Color3DCode'):
        return all(L >= 2 and L % 2 == 0 for L in size)
    if cls == 'RotatedToric3DCode':
        return size[0] >= 2 and size[1] >= 2 and size[2] >= 1 and not (size[0] % 2 == 1 and size[1] % 2 == 1)
    if cls in ('Color488Code', 'Color666ToricCode'):
        return size[0] == size[1] and size[0] >= 1
    if cls == 'Color666PlanarCode':
        return size[0] >= 1 and size[1] >= 1
    raise KeyError(cls)


CLASSES_2D = ['Toric2DCode', 'Planar2DCode', 'RotatedPlanar2DCode', 'Color666PlanarCode',
              'Color666ToricCode', 'Color488Code']
CLASSES_3D = ['Toric3DCode', 'Planar3DCode', 'RotatedPlanar3DCode', 'HollowPlanar3DCode',
              'RhombicToricCode', 'RhombicPlanarCode', 'HollowRhombicCode', 'RotatedToric3DCode',
              'XCubeCode', 'Color3DCode']
AXES = {  # explicit deformation axes accepted by get_deformation, None = default
    'Toric2DCode': [None, 'x', 'y'], 'Planar2DCode': [None, 'x', 'y'],
    'RotatedPlanar2DCode': [None, 'x', 'y'],
    'Toric3DCode': [None, 'x', 'y', 'z'], 'Planar3DCode': [None, 'x', 'y', 'z'],
    'RotatedPlanar3DCode': [None, 'x', 'y', 'z'], 'RotatedToric3DCode': [None, 'x', 'y', 'z'],
    'XCubeCode': [None, 'x', 'y', 'z'],
}


def size_grid(cls, tier):
    out = []
    if cls in CLASSES_2D:
        B = {'quick': 4, 'thorough': 7}[tier]
        lo = 1
        for s in itertools.product(range(lo, B + 1), repeat=2):
            out.append(s)
        if tier == 'quick':
            out += [(5, 5), (2, 5), (5, 3), (6, 6), (6, 4)]
        else:
            out += [(8, 8), (9, 4), (4, 10), (10, 10)]
        if cls == 'Color666PlanarCode':
            # only L_x is used by this class: one representative per L_x (plus a few L_y)
            out = [s for s in out if s[1] in (1, s[0], 3)]
    else:
        if tier == 'quick':
            B = 3
            for s in itertools.product(range(1, B + 1), repeat=3):
                out.append(s)
            out += list(itertools.permutations((2, 3, 4)))
            out += [(4, 4, 4), (2, 2, 4), (4, 2, 2), (2, 4, 2), (4, 4, 2), (2, 4, 4), (4, 2, 4),
                    (2, 2, 5), (3, 2, 5),
                    # each axis reaching 5 with the other two different (hole / boundary ranges written with the wrong axis)
                    (2, 5, 3), (5, 2, 3), (3, 5, 4)]
        else:
            B = 4
            for s in itertools.product(range(1, B + 1), repeat=3):
                out.append(s)
            out += list(itertools.permutations((2, 3, 5))) + list(itertools.permutations((3, 4, 5)))
            out += [(5, 5, 5), (6, 6, 6), (6, 4, 2), (2, 4, 6), (4, 6, 2), (6, 2, 4), (2, 2, 6),
                    (5, 2, 2), (2, 5, 3)]
    seen = set()
    res = []
    for s in out:
        if s in seen or not supported(cls, s):
            continue
        seen.add(s)
        res.append(s)
    return res


# sizes beyond the common grid, dumped for C01 only (--extra): HollowRhombicCode lattices whose hole is large enough to
# matter (known finding D17 lives there)
EXTRA = {'c01': {'HollowRhombicCode': {'quick': [(3, 5, 3), (4, 5, 4), (3, 6, 6), (4, 6, 6)],
                                       'thorough': [(3, 5, 3), (4, 5, 3), (4, 5, 4), (5, 5, 4), (3, 6, 4), (3, 6, 6), (4, 6, 6), (5, 4, 6), (6, 6, 4),
                                                    (6, 4, 6), (3, 7, 7), (5, 6, 6)]},
                 'HollowPlanar3DCode': {'quick': [(3, 5, 3), (4, 5, 4)], 'thorough': [(3, 5, 3), (4, 5, 4), (5, 5, 4), (4, 6, 5), (6, 6, 4)]}},
         # C17: long thin lattices, where a membrane may be lighter than the listed string/sheet (known finding D18 lives there)
         'c17': {'HollowPlanar3DCode': {'quick': [(9, 3, 3), (6, 3, 2), (7, 4, 2)], 'thorough': [(9, 3, 3), (6, 3, 2), (7, 3, 2), (7, 4, 2), (10, 3, 3), (9, 3, 4)]},
                 'Planar3DCode': {'quick': [(7, 2, 2)], 'thorough': [(7, 2, 2), (9, 3, 3)]},
                 'RotatedPlanar3DCode': {'quick': [(7, 2, 2)], 'thorough': [(7, 2, 2), (9, 3, 3)]},
                 'Toric3DCode': {'quick': [(7, 2, 2)], 'thorough': [(7, 2, 2), (8, 3, 3)]},
                 'XCubeCode': {'quick': [(6, 2, 2)], 'thorough': [(6, 2, 2), (7, 3, 2)]},
                 'RhombicPlanarCode': {'quick': [(6, 2, 2)], 'thorough': [(6, 2, 2), (7, 3, 2)]},
                 # one odd and one long even dimension: the listed logical Z is a membrane of Y operators there
                 'RotatedToric3DCode': {'quick': [(3, 8, 2), (8, 3, 2)], 'thorough': [(3, 8, 2), (8, 3, 2), (3, 10, 3), (10, 3, 2), (5, 12, 2)]}}}


def instances(tier, only=None, extra=False):
    import panqec.codes as pc
    res = []
    for cls in CLASSES_2D + CLASSES_3D:
        if only and cls not in only:
            continue
        klass = getattr(pc, cls)
        sizes = size_grid(cls, tier)
        if extra:
            sizes = sizes + [s_ for s_ in EXTRA.get(extra, {}).get(cls, {}).get(tier, []) if s_ not in sizes and supported(cls, s_)]
        for size in sizes:
            res.append((cls, size, None, None))
            for name in klass.deformation_names:
                for ax in AXES.get(cls, [None]):
                    res.append((cls, size, name, ax))
    return res


# --------------------------------------------------------------------------------------------
def split_row(idx, n):
    idx = sorted(int(i) for i in idx)
    return [i for i in idx if i < n], [i - n for i in idx if i >= n]


def dense_row(v, n):
    v = np.asarray(v)
    bad = [int(x) for x in v if int(x) not in (0, 1)]
    nz = np.nonzero(v)[0]
    r = split_row(nz, n)
    return {'x': r[0], 'z': r[1], 'nonbinary': len(bad)}


def op_to_list(op, qindex):
    """coordinate dict -> list of [qubit index or -1, coord, pauli] in dict order"""
    return [[qindex.get(tuple(loc), -1), list(loc), p] for loc, p in op.items()]


def _jd(o):
    if isinstance(o, np.integer):
        return int(o)
    if isinstance(o, np.bool_):
        return bool(o)
    if isinstance(o, np.ndarray):
        return o.tolist()
    return str(o)


def dump_instance(args):
    cls, size, dname, axis, outdir = args
    import panqec.codes as pc
    klass = getattr(pc, cls)
    tag = '%s_%s_%s_%s' % (cls, 'x'.join(map(str, size)), (dname or 'none').replace(' ', '-'), axis or 'def')
    rec = {'cls': cls, 'size': list(size), 'deformation': dname, 'axis': axis, 'tag': tag}
    try:
        code = klass(*size)
        kwargs = {}
        if dname is not None:
            if axis is not None:
                kwargs['deformation_axis'] = axis
            code.deform(dname, **kwargs)
        n = code.n
        rec['n'] = int(n)
        rec['dimension'] = int(code.dimension)
        rec['id'] = code.id
        rec['label'] = code.label
        rec['params'] = {k: (int(v) if v is not None else None) for k, v in code.params.items()}
        _cv = lambda c: int(c) if float(c).is_integer() else float(c)      # whole numbers as ints, anything else as it is
        qc = [tuple(_cv(c) for c in q) for q in code.qubit_coordinates]
        sc = [tuple(_cv(c) for c in s) for s in code.stabilizer_coordinates]
        rec['qubits'] = [list(q) for q in qc]
        rec['stab_coords'] = [list(s) for s in sc]
        qindex = {q: i for i, q in enumerate(qc)}
        rec['qubit_index_ok'] = all(code.qubit_index[q] == i for q, i in qindex.items()) and len(code.qubit_index) == len(qc)
        rec['stab_index_ok'] = all(code.stabilizer_index[s] == i for i, s in enumerate(sc)) and len(code.stabilizer_index) == len(sc)
        rec['stab_ops'] = [op_to_list(code.get_stabilizer(s), qindex) for s in sc]
        rec['stab_types'] = [code.stabilizer_type(s) for s in sc]
        rec['qubit_axes'] = [code.qubit_axis(q) for q in qc]
        H = code.stabilizer_matrix
        Hc = H.tocsr()
        rows = []
        for i in range(Hc.shape[0]):
            idx = Hc.indices[Hc.indptr[i]:Hc.indptr[i + 1]]
            dat = Hc.data[Hc.indptr[i]:Hc.indptr[i + 1]]
            idx = [int(j) for j, d in zip(idx, dat) if int(d) != 0]
            r = split_row(idx, n)
            rows.append({'x': r[0], 'z': r[1], 'nonbinary': int(sum(1 for d in dat if int(d) not in (0, 1)))})
        rec['H'] = rows
        rec['H_shape'] = [int(Hc.shape[0]), int(Hc.shape[1])]
        rec['lx'] = [dense_row(r, n) for r in code.logicals_x]
        rec['lz'] = [dense_row(r, n) for r in code.logicals_z]
        rec['lx_ops'] = [op_to_list(o, qindex) for o in code.get_logicals_x()]
        rec['lz_ops'] = [op_to_list(o, qindex) for o in code.get_logicals_z()]
        rec['k'] = int(code.k)
        rec['d'] = int(code.d)
        rec['x_indices'] = [bool(b) for b in code.x_indices]
        rec['z_indices'] = [bool(b) for b in code.z_indices]
        rec['is_css'] = bool(code.is_css)
        if rec['is_css']:
            def half_rows(M):
                M = M.tocsr()
                return [sorted(int(j) for j in M.indices[M.indptr[i]:M.indptr[i + 1]]) for i in range(M.shape[0])]
            rec['Hx'] = half_rows(code.Hx)
            rec['Hz'] = half_rows(code.Hz)
            rec['Hx_shape'] = [int(code.Hx.shape[0]), int(code.Hx.shape[1])]
            rec['Hz_shape'] = [int(code.Hz.shape[0]), int(code.Hz.shape[1])]
        if dname is not None:
            import inspect
            sig = inspect.signature(klass.get_deformation)
            dflt = sig.parameters['deformation_axis'].default if 'deformation_axis' in sig.parameters else None
            rec['axis_effective'] = axis or dflt
            rec['deform_dicts'] = []
            for q in qc:
                d = code.get_deformation(q, dname, **kwargs)
                rec['deform_dicts'].append([d.get('X'), d.get('Y'), d.get('Z'), len(d)])
        # same instance obtained from an object whose cached properties were all read BEFORE deform
        if dname is not None:
            c2 = klass(*size)
            for prop in ('qubit_index', 'stabilizer_index', 'stabilizer_matrix', 'logicals_x', 'logicals_z', 'k', 'd',
                         'x_indices', 'z_indices', 'is_css', 'Hx', 'Hz', 'stabilizer_types'):
                try:
                    getattr(c2, prop)
                except ValueError:
                    pass
            # ... and whose query methods were all USED before deform (dense 1-D, dense 2-D and sparse arguments)
            probe = np.zeros(2 * n, dtype='uint8')
            probe[::3] = 1
            from scipy.sparse import csr_matrix as _csr2
            for arg in (probe, probe.reshape(1, -1), _csr2(probe.reshape(1, -1))):
                for meth in ('measure_syndrome', 'in_codespace', 'logical_errors', 'is_logical_error', 'is_success'):
                    try:
                        getattr(c2, meth)(arg)
                    except Exception:
                        pass
            c2.deform(dname, **kwargs)
            diff = []
            for arg, form in ((probe, 'dense 1-D'), (probe.reshape(1, -1), 'dense 2-D'), (_csr2(probe.reshape(1, -1)), 'csr')):
                for meth in ('measure_syndrome', 'in_codespace', 'logical_errors', 'is_success'):
                    try:
                        a_, b_ = getattr(c2, meth)(arg), getattr(code, meth)(arg)
                        if not np.array_equal(np.asarray(a_).ravel(), np.asarray(b_).ravel()):
                            diff.append('%s(%s)' % (meth, form))
                    except Exception as ex_:
                        diff.append('%s(%s) raised %s' % (meth, form, type(ex_).__name__))
            H2 = c2.stabilizer_matrix.tocsr()
            if (H2 != Hc).nnz != 0 or H2.shape != Hc.shape:
                diff.append('stabilizer_matrix')
            if not np.array_equal(c2.logicals_x, code.logicals_x):
                diff.append('logicals_x')
            if not np.array_equal(c2.logicals_z, code.logicals_z):
                diff.append('logicals_z')
            if [bool(b) for b in c2.x_indices] != rec['x_indices']:
                diff.append('x_indices')
            if [bool(b) for b in c2.z_indices] != rec['z_indices']:
                diff.append('z_indices')
            if bool(c2.is_css) != rec['is_css']:
                diff.append('is_css')
            if int(c2.d) != rec['d'] or int(c2.k) != rec['k']:
                diff.append('d/k')
            if rec['is_css'] and bool(c2.is_css):
                if (c2.Hx != code.Hx).nnz != 0 or (c2.Hz != code.Hz).nnz != 0:
                    diff.append('Hx/Hz')
            rec['used_then_deformed_diff'] = diff
        # measure_syndrome on each single-qubit X and Z (ties bs_prod/measure_syndrome to H)
        # kept small: only for n <= 40
        if n <= 40:
            syn = []
            for j in range(2 * n):
                e = np.zeros(2 * n, dtype='uint8')
                e[j] = 1
                syn.append([int(i) for i in np.nonzero(code.measure_syndrome(e))[0]])
            rec['unit_syndromes'] = syn
        # coordinate-dict <-> BSF round trips through the implementation's to_bsf / from_bsf (C02)
        if n <= 120:
            import random as _random
            rr = _random.Random(tag)
            rts = []
            for t in range(4):
                supp = rr.sample(range(n), rr.randint(1, min(n, 5)))
                op = {qc[q]: rr.choice('XYZ') for q in supp}
                v = code.to_bsf(dict(op))
                vv = np.asarray(v.toarray()).ravel() if hasattr(v, 'toarray') else np.asarray(v).ravel()
                back = code.from_bsf(np.array(vv))
                rts.append({'op': op_to_list(op, qindex), 'bsf': dense_row(vv, n),
                            'back': [[list(loc), pp] for loc, pp in back.items()]})
                # the same vector in the other shapes from_bsf accepts: dense (1, 2n), csr row, list; recorded when the answer differs
                from scipy.sparse import csr_matrix as _csr
                for form, arg in (('dense(1,2n)', np.array(vv).reshape(1, -1)), ('csr', _csr(np.array(vv).reshape(1, -1))),
                                  ('int64', np.array(vv, dtype='int64'))):
                    try:
                        b2 = code.from_bsf(arg)
                        b2l = [[list(loc), pp] for loc, pp in b2.items()]
                    except Exception as ex_:
                        b2, b2l = None, [[[0] * len(qc[0]), 'EXC %s' % type(ex_).__name__]]
                    if b2 != back:
                        rts.append({'row': 'form:' + form, 'form': form, 'bsf': dense_row(vv, n), 'back': b2l})
            for i in rr.sample(range(Hc.shape[0]), min(Hc.shape[0], 3)):
                back = code.from_bsf(Hc[i])
                rts.append({'row': i, 'bsf': rows[i], 'back': [[list(loc), pp] for loc, pp in back.items()]})
            # a sparse row with explicitly STORED zeros (sum of two overlapping rows reduced mod 2 in place, as bsparse-style code does)
            if Hc.shape[0] >= 2:
                for t in range(2):
                    i, j = rr.sample(range(Hc.shape[0]), 2)
                    r_ = (Hc[i] + Hc[j]).tocsr()
                    r_.data %= 2
                    dense = np.asarray(r_.toarray()).ravel() % 2
                    back = code.from_bsf(r_)
                    rts.append({'row': [i, j], 'stored_zeros': int((r_.data == 0).sum()), 'bsf': dense_row(dense, n),
                                'back': [[list(loc), pp] for loc, pp in back.items()]})
            rec['roundtrips'] = rts
        rec['ok'] = True
    except Exception as ex:  # construction failure is itself an observation
        import traceback
        rec['ok'] = False
        rec['error'] = '%s: %s' % (type(ex).__name__, ex)
        rec['trace'] = traceback.format_exc()[-1500:]
    with open(os.path.join(outdir, tag + '.json'), 'w') as f:
        json.dump(rec, f, default=_jd)
    return tag, rec['ok'], rec.get('n', 0)


def cross_class(task):
    size, classes, outdir = task
    import hashlib
    import panqec.codes as pc
    out = []

    def summary(code):
        H = code.stabilizer_matrix.tocsr()
        H.sort_indices()
        h = hashlib.sha1(H.indptr.tobytes() + H.indices.tobytes() + (H.data % 2).astype('uint8').tobytes()).hexdigest()
        lg = hashlib.sha1(np.asarray(code.logicals_x).astype('uint8').tobytes() + np.asarray(code.logicals_z).astype('uint8').tobytes()).hexdigest()
        return {'n': int(code.n), 'k': int(code.k), 'd': int(code.d), 'H': h, 'logicals': lg}
    alone = {}
    for order in (list(classes), list(reversed(classes))):
        for pos, cls in enumerate(order):
            try:
                got = summary(getattr(pc, cls)(*size))
            except Exception as ex:
                got = {'exception': '%s: %s' % (type(ex).__name__, ex)}
            if cls not in alone:
                # reference: a fresh process is not available here, so the reference is the stand-alone dump (n, k, d) and, for the
                # tables, the first time the class is built in this process
                tag = '%s_%s_none_def' % (cls, 'x'.join(map(str, size)))
                try:
                    rec = json.load(open(os.path.join(outdir, tag + '.json')))
                    ref = {'n': rec.get('n'), 'k': rec.get('k'), 'd': rec.get('d')} if rec.get('ok') else None
                except Exception:
                    ref = None
                alone[cls] = (ref, got)
            ref, first = alone[cls]
            bad = []
            if ref is not None and 'exception' not in got:
                bad += [f for f in ('n', 'k', 'd') if got[f] != ref[f]]
            if 'exception' in got and ref is not None:
                bad.append('exception')
            if 'exception' not in got and 'exception' not in first:
                bad += [f for f in ('H', 'logicals') if got[f] != first[f]]
            if bad:
                out.append({'cls': cls, 'size': list(size), 'history': order[:pos + 1], 'differs': sorted(set(bad)),
                            'got': {k_: got.get(k_) for k_ in ('n', 'k', 'd', 'exception')}, 'alone': ref})
    return out


def main():
    outdir, tier = sys.argv[1], sys.argv[2]
    only = None
    jobs = 16
    extra = False
    a = sys.argv[3:]
    while a:
        if a[0] == '--only':
            only = set(a[1].split(','))
            a = a[2:]
        elif a[0] == '--jobs':
            jobs = int(a[1])
            a = a[2:]
        elif a[0] == '--extra':
            extra = a[1]
            a = a[2:]
        else:
            raise SystemExit('bad arg ' + a[0])
    os.makedirs(outdir, exist_ok=True)
    inst = instances(tier, only, extra)
    with Pool(jobs) as pool:
        res = pool.map(dump_instance, [i + (outdir,) for i in inst], chunksize=4)
    # history across CLASSES: every undeformed instance once more, all classes of one size built one after the other in ONE
    # process (two orders); n, k, d and the tables must be what the stand-alone dump recorded
    groups = {}
    for (cls, size, name, ax) in inst:
        if name is None:
            groups.setdefault(tuple(size), []).append(cls)
    ctasks = [(size, classes, outdir) for size, classes in sorted(groups.items()) if len(classes) >= 2]
    with Pool(min(jobs, 8), maxtasksperchild=1) as pool:
        cross = [d_ for ds_ in pool.map(cross_class, ctasks) for d_ in ds_]
    with open(os.path.join(outdir, 'CROSS.json'), 'w') as f:
        json.dump(cross, f)
    with open(os.path.join(outdir, 'INDEX.json'), 'w') as f:
        json.dump([{'tag': t, 'ok': ok, 'n': n} for t, ok, n in res], f)
    print('dumped %d instances, %d failed' % (len(res), sum(1 for r in res if not r[1])))


if __name__ == '__main__':
    main()
