"""C13 driver: random input specifications -> read_input_dict -> canonical simulations; registries; round trip.
usage: c13_specs.py <out.json> <tier> <seed>"""
import contextlib
import io
import json
import os
import random
import sys
import tempfile

import numpy as np

DEC_TABLE = {
    'MatchingDecoder': (['Toric2DCode', 'Planar2DCode', 'RotatedPlanar2DCode'], [{}, {'error_type': 'X'}, {'error_type': 'Z'}]),
    'UnionFindDecoder': (['Toric2DCode'], [{}]),
    'BeliefPropagationOSDDecoder': (None, [{}, {'max_bp_iter': 5}, {'max_bp_iter': 7, 'osd_order': 0}, {'osd_order': 3, 'bp_method': 'product_sum'},
                                           {'channel_update': True, 'max_bp_iter': 9}, {'osd_order': 0, 'channel_update': False}]),
    'SweepMatchDecoder': (['Toric3DCode', 'Planar3DCode'], [{}]),
    'RotatedSweepMatchDecoder': (['RotatedPlanar3DCode'], [{}]),
}
CODES_2D = ['Toric2DCode', 'Planar2DCode', 'RotatedPlanar2DCode', 'Color666PlanarCode', 'Color666ToricCode', 'Color488Code']


def canon(sim):
    return {'code': [sim.code.id, sim.code.params], 'noise': [sim.error_model.id, sim.error_model.params],
            'decoder': [sim.decoder.id, sim.decoder.params], 'rate': sim.error_rate,
            'decoder_bound_to_code': sim.decoder.code is sim.code, 'decoder_bound_to_noise': sim.decoder.error_model is sim.error_model,
            'decoder_rate': sim.decoder.error_rate}


def rand_axis(rng, pool, lo=1, hi=5):
    k = rng.randint(lo, min(hi, len(pool)))
    return rng.sample(pool, k)


class OracleFailure(Exception):
    pass


def make_ranges(rng):
    try:
        return _make_ranges(rng)
    except OracleFailure:
        raise
    except Exception as ex:
        raise OracleFailure('a requested parameter set cannot be built directly: %s: %s' % (type(ex).__name__, ex))


def _make_ranges(rng):
    from panqec.config import CODES
    dec = rng.choice(list(DEC_TABLE))
    allowed, dparams = DEC_TABLE[dec]
    cname = rng.choice(allowed if allowed else list(CODES))
    three = cname not in CODES_2D
    sizes = [(2, 2), (3, 3), (2, 3), (4, 4), (3, 2), (4, 2)] if not three else [(2, 2, 2), (2, 3, 2), (3, 2, 2), (2, 2, 3), (2, 2, 4), (2, 3, 3)]
    if cname in ('RhombicToricCode', 'Color3DCode'):
        sizes = [(2, 2, 2), (2, 2, 4), (4, 2, 2), (2, 4, 2)]
    if cname == 'HollowRhombicCode':
        sizes = [(2, 2, 3), (2, 3, 3), (3, 2, 3), (2, 2, 4)]
    if cname in ('Color488Code', 'Color666ToricCode'):
        sizes = [(1, 1), (2, 2), (3, 3)]
    csel = rand_axis(rng, sizes)
    form = rng.choice(['dict', 'list', 'mixed'])
    cparams = []
    for s in csel:
        f = form if form != 'mixed' else rng.choice(['dict', 'list'])
        if f == 'dict':
            d = {'L_x': s[0], 'L_y': s[1]}
            if three:
                d['L_z'] = s[2]
            # keyword forms a user may write: keys in any order, trailing sizes left to their defaults
            r = rng.random()
            if r < 0.25:
                ks = list(d)
                rng.shuffle(ks)
                d = {k: d[k] for k in ks}
            elif r < 0.45:
                del d[rng.choice(['L_y', 'L_z'] if three else ['L_y'])]
            cparams.append(d)
        else:
            # list form, sometimes without the last size (left to its default: L_z = L_x)
            cparams.append(list(s) if not (three and rng.random() < 0.3) else list(s[:2]))
    if three and cname not in ('RhombicToricCode', 'Color3DCode', 'HollowRhombicCode') and rng.random() < 0.35:
        # a lattice given by two sizes NEXT TO the lattices an implementation might confuse it with: (2,3) means 2x3x2
        cparams = [[2, 3], [2, 3, 3], {'L_x': 2, 'L_y': 3, 'L_z': 2}][:rng.randint(2, 3)] + cparams
    # a size left to its default may coincide with another requested lattice: keep one request per distinct lattice
    import panqec.codes as pc
    seen_sizes, uniq = set(), []
    for c in cparams:
        k_ = tuple((getattr(pc, cname)(**c) if isinstance(c, dict) else getattr(pc, cname)(*c)).size)
        if k_ not in seen_sizes:
            seen_sizes.add(k_)
            uniq.append(c)
    cparams = uniq
    from panqec.codes import __dict__ as _c  # noqa
    import panqec.codes as pc
    dnames = getattr(pc, cname).deformation_names
    npool = [{'r_x': 1, 'r_y': 0, 'r_z': 0}, {'r_x': 0, 'r_y': 0, 'r_z': 1}, {'r_x': 0.25, 'r_y': 0.25, 'r_z': 0.5},
             {'r_x': 0.125, 'r_y': 0.5, 'r_z': 0.375}, [0.5, 0.25, 0.25], [0.0, 1.0, 0.0],
             # decimal fractions whose float sum is not exactly 1
             {'r_x': 0.6, 'r_y': 0.3, 'r_z': 0.1}, [0.7, 0.2, 0.1],
             # typed to six decimals: the sum is 0.999999
             {'r_x': 0.333333, 'r_y': 0.333333, 'r_z': 0.333333}, [0.00495, 0.00495, 0.990099]]
    if dnames:
        npool.append({'r_x': 0.25, 'r_y': 0.25, 'r_z': 0.5, 'deformation_name': dnames[0]})
        npool.append({'r_x': 0, 'r_y': 0, 'r_z': 1, 'deformation_name': dnames[-1]})
    nsel = rand_axis(rng, npool, 1, 4)
    dsel = rand_axis(rng, dparams, 1, 4)
    rates = rand_axis(rng, [0.01, 0.05, 0.1, 0.125, 0.2, 0.25, 0.3, 0.5], 1, 5)
    ranges = {'label': 'spec', 'code': {'name': cname, 'parameters': cparams if (len(cparams) > 1 or rng.random() < 0.5) else cparams[0]},
              'error_model': {'name': 'PauliErrorModel', 'parameters': nsel if (len(nsel) > 1 or rng.random() < 0.5) else nsel[0]},
              'decoder': {'name': dec, 'parameters': dsel if (len(dsel) > 1 or rng.random() < 0.4) else dsel[0]},
              'error_rate': rates}
    if rng.random() < 0.15 and 'parameters' in ranges['decoder'] and ranges['decoder']['parameters'] in ({}, [{}]):
        del ranges['decoder']['parameters']
    from panqec.config import ERROR_MODELS, DECODERS
    kl = CODES[cname]
    ccanon = [[kl.__name__, (kl(**c) if isinstance(c, dict) else kl(*c)).params] for c in cparams]
    pm = ERROR_MODELS['PauliErrorModel']
    ncanon = [['PauliErrorModel', (pm(**x) if isinstance(x, dict) else pm(*x)).params] for x in nsel]
    c0 = kl(**cparams[0]) if isinstance(cparams[0], dict) else kl(*cparams[0])
    dcanon = [[dec, DECODERS[dec](c0, pm(1, 0, 0), 0.1, **d).params] for d in dsel]
    axes = {'code': ccanon, 'noise': ncanon, 'decoder': dcanon, 'rate': rates}
    # a lone list-form parameter set given directly would be read as a range of scalars: wrap it
    if isinstance(ranges['code']['parameters'], list) and ranges['code']['parameters'] and not isinstance(ranges['code']['parameters'][0], (list, dict)):
        ranges['code']['parameters'] = [ranges['code']['parameters']]
    if isinstance(ranges['error_model']['parameters'], list) and not isinstance(ranges['error_model']['parameters'][0], (list, dict)):
        ranges['error_model']['parameters'] = [ranges['error_model']['parameters']]
    return ranges, axes


def main():
    out, tier, seed = sys.argv[1], sys.argv[2], int(sys.argv[3])
    rng = random.Random(seed)
    from panqec.config import CODES, DECODERS, ERROR_MODELS
    from panqec.simulation import read_input_dict
    from panqec.simulation._batch_simulation import expand_input_ranges, get_runs
    res = {'registry': [[k, v.__name__, kind] for kind, d in (('CODES', CODES), ('DECODERS', DECODERS), ('ERROR_MODELS', ERROR_MODELS))
                        for k, v in d.items()], 'specs': [], 'roundtrips': []}
    nspec = 60 if tier == 'quick' else 400
    with tempfile.TemporaryDirectory() as tmp:
        for i in range(nspec):
            kind = rng.choice(['ranges', 'ranges', 'list', 'runs'])
            parts = []
            try:
                if kind == 'ranges':
                    r, ax = make_ranges(rng)
                    spec = {'ranges': r}
                    parts = [ax]
                elif kind == 'list':
                    spec = {'ranges': []}
                    for _ in range(rng.randint(1, 3)):
                        r, ax = make_ranges(rng)
                        spec['ranges'].append(r)
                        parts.append(ax)
                else:
                    r, ax = make_ranges(rng)
                    runs = expand_input_ranges(json.loads(json.dumps(r)))
                    rng.shuffle(runs)
                    runs = runs[:rng.randint(1, min(6, len(runs)))]
                    spec = {'runs': runs}
                    parts = None
            except OracleFailure as ex:
                res['specs'].append({'kind': kind, 'spec': {}, 'axes': None, 'error': str(ex)})
                continue
            rec = {'kind': kind, 'spec': json.loads(json.dumps(spec)), 'axes': parts}
            try:
                with contextlib.redirect_stdout(io.StringIO()):
                    bs = read_input_dict(json.loads(json.dumps(spec)), os.path.join(tmp, 'o%d.json' % i), verbose=False)
                    rec['sims'] = [canon(s) for s in bs._simulations]
                    # echo: the noise direction of every simulation is, number for number, one of the REQUESTED directions
                    req = set()

                    def walk(o):
                        if isinstance(o, dict):
                            if 'r_x' in o and 'r_y' in o and 'r_z' in o:
                                req.add((float(o['r_x']), float(o['r_y']), float(o['r_z'])))
                            for v in o.values():
                                walk(v)
                        elif isinstance(o, list):
                            if len(o) == 3 and all(isinstance(v, (int, float)) and not isinstance(v, bool) for v in o):
                                req.add(tuple(float(v) for v in o))
                            for v in o:
                                walk(v)
                    walk(spec)
                    rec['echo_bad'] = [[si_, [float(s.error_model.params[k_]) for k_ in ('r_x', 'r_y', 'r_z')]]
                                       for si_, s in enumerate(bs._simulations)
                                       if tuple(float(s.error_model.params[k_]) for k_ in ('r_x', 'r_y', 'r_z')) not in req][:3]
                    rec['requested_directions'] = sorted(req)
                    rec['n_get_runs'] = len(get_runs(json.loads(json.dumps(spec)))) if kind != 'list' else None
                    if kind == 'ranges':
                        rec['expanded'] = expand_input_ranges(json.loads(json.dumps(spec['ranges'])))
                    # round trip from the inputs each simulation records (what a results file holds)
                    for s in bs._simulations[:3]:
                        inp = json.loads(json.dumps(s.get_results_to_save()['inputs'], default=lambda o: o.tolist() if hasattr(o, 'tolist') else int(o)))
                        c2 = CODES[inp['code']['name']](**inp['code']['parameters'])
                        e2 = ERROR_MODELS[inp['error_model']['name']](**inp['error_model']['parameters'])
                        d2 = DECODERS[inp['decoder']['name']](c2, e2, inp['error_rate'], **inp['decoder']['parameters'])
                        res['roundtrips'].append({'orig': canon(s), 'recorded': inp,
                                                  'rebuilt': {'code': [c2.id, c2.params], 'noise': [e2.id, e2.params],
                                                              'decoder': [d2.id, d2.params], 'rate': inp['error_rate'],
                                                              'n': int(c2.n), 'k': int(c2.k), 'd': int(c2.d)}})
            except Exception as ex:
                import traceback
                rec['error'] = '%s: %s' % (type(ex).__name__, ex)
                rec['trace'] = traceback.format_exc()[-800:]
            res['specs'].append(rec)
    json.dump(res, open(out, 'w'), default=lambda o: o.tolist() if hasattr(o, 'tolist') else str(o))
    print(len(res['specs']), 'specs', sum(1 for s in res['specs'] if 'error' in s), 'errors', len(res['roundtrips']), 'roundtrips')


if __name__ == '__main__':
    main()
