"""C02 driver: randomly generated user-defined StabilizerCode subclasses (coordinate API), dumped in the same
format as library codes, plus a malformed stream (operator keys outside the qubit set).
usage: c02_usercodes.py <outdir> <count> <seed>"""
import json
import os
import random
import sys

import numpy as np

sys.path.insert(0, __file__.rsplit('/', 1)[0])
import dump_codes as dc  # noqa: E402


def make_class(rng, dim, nq, ns, foreign=False):
    from panqec.codes import StabilizerCode
    pts = set()
    while len(pts) < nq + ns:
        pts.add(tuple(rng.randint(-3, 6 if dim > 1 else 60) for _ in range(dim)))
    pts = list(pts)
    rng.shuffle(pts)
    qubits, stabs = pts[:nq], pts[nq:]
    ops = {}
    for s in stabs:
        supp = rng.sample(qubits, rng.randint(1, min(nq, 6)))
        kind = rng.choice(['X', 'Z', 'mixed', 'mixed'])
        ops[s] = {q: (kind if kind != 'mixed' else rng.choice('XYZ')) for q in supp}
    if foreign:
        s = rng.choice(stabs)
        far = tuple(1000 + rng.randint(0, 3) for _ in range(dim))
        ops[s][far] = rng.choice('XYZ')
    k = rng.randint(1, 2)
    lx = [{q: rng.choice('XYZ') for q in rng.sample(qubits, rng.randint(1, min(nq, 4)))} for _ in range(k)]
    lz = [{q: rng.choice('XYZ') for q in rng.sample(qubits, rng.randint(1, min(nq, 4)))} for _ in range(k)]

    class UserCode(StabilizerCode):
        dimension = 2
        label = 'user code'

        def get_qubit_coordinates(self):
            return list(qubits)

        def get_stabilizer_coordinates(self):
            return list(stabs)

        def qubit_axis(self, location):
            return 'x'

        def stabilizer_type(self, location):
            return 'vertex'

        def get_stabilizer(self, location):
            return dict(ops[location])

        def get_logicals_x(self):
            return [dict(o) for o in lx]

        def get_logicals_z(self):
            return [dict(o) for o in lz]
    return UserCode, qubits, stabs, ops


def main():
    outdir, count, seed = sys.argv[1], int(sys.argv[2]), int(sys.argv[3])
    os.makedirs(outdir, exist_ok=True)
    rng = random.Random(seed)
    index = []
    import panqec.codes as pc
    for i in range(count):
        foreign = (i % 5 == 4)
        dim = rng.randint(1, 4)
        nq = rng.randint(1, 14)
        ns = rng.randint(1, 10)
        klass, qubits, stabs, ops = make_class(rng, dim, nq, ns, foreign)
        name = 'UserCode%d' % i
        setattr(pc, name, klass)
        tag, ok, n = dc.dump_instance((name, (2, 2), None, None, outdir))
        rec = json.load(open(os.path.join(outdir, tag + '.json')))
        rec['user'] = True
        rec['foreign_key'] = foreign
        if foreign:
            # what the coordinate API was given, so the model can be run on the same input
            rec['given_qubits'] = [list(q) for q in qubits]
            rec['given_stabs'] = [list(s) for s in stabs]
            rec['given_ops'] = [[[list(q), p] for q, p in ops[s].items()] for s in stabs]
        json.dump(rec, open(os.path.join(outdir, tag + '.json'), 'w'))
        index.append({'tag': tag, 'ok': ok, 'n': n, 'foreign': foreign})
    json.dump(index, open(os.path.join(outdir, 'INDEX.json'), 'w'))
    print('user codes', len(index), 'failed', sum(1 for i in index if not i['ok']))


if __name__ == '__main__':
    main()
