"""C02 driver: randomly generated user-defined StabilizerCode subclasses (coordinate API), dumped in the same
format as library codes, plus a malformed stream (operator keys outside the qubit set).
usage: c02_usercodes.py <outdir> <count> <seed>"""
import json
import os
import random
import sys

import numpy as np

sys.path.insert(0, __file__.rsplit('/', 1)[0])
import dump_codes as dc  # noqa: E402


def make_class(rng, dim, nq, ns, foreign=False, half=False):
    from panqec.codes import StabilizerCode
    pts = set()
    while len(pts) < nq + ns:
        pts.add(tuple(rng.randint(-3, 6 if dim > 1 else 60) for _ in range(dim)))
    pts = list(pts)
    if half:
        # the edge-midpoint convention: coordinates in units of one half (0.5, 1.0, 1.5, ...), as floats
        pts = [tuple(c / 2 for c in p_) for p_ in pts]
    rng.shuffle(pts)
    qubits, stabs = pts[:nq], pts[nq:]
    ops = {}
    for s in stabs:
        supp = rng.sample(qubits, rng.randint(1, min(nq, 6)))
        kind = rng.choice(['X', 'Z', 'mixed', 'mixed'])
        ops[s] = {q: (kind if kind != 'mixed' else rng.choice('XYZ')) for q in supp}
    if foreign:
        s = rng.choice(stabs)
        far = tuple(1000 + rng.randint(0, 3) for _ in range(dim))
        ops[s][far] = rng.choice('XYZ')
    k = rng.randint(1, 2)
    lx = [{q: rng.choice('XYZ') for q in rng.sample(qubits, rng.randint(1, min(nq, 4)))} for _ in range(k)]
    lz = [{q: rng.choice('XYZ') for q in rng.sample(qubits, rng.randint(1, min(nq, 4)))} for _ in range(k)]

    class UserCode(StabilizerCode):
        dimension = 2
        label = 'user code'

        def get_qubit_coordinates(self):
            return list(qubits)

        def get_stabilizer_coordinates(self):
            return list(stabs)

        def qubit_axis(self, location):
            return 'x'

        def stabilizer_type(self, location):
            return 'vertex'

        def get_stabilizer(self, location):
            return dict(ops[location])

        def get_logicals_x(self):
            return [dict(o) for o in lx]

        def get_logicals_z(self):
            return [dict(o) for o in lz]
    return UserCode, qubits, stabs, ops


def main():
    outdir, count, seed = sys.argv[1], int(sys.argv[2]), int(sys.argv[3])
    os.makedirs(outdir, exist_ok=True)
    rng = random.Random(seed)
    index = []
    import panqec.codes as pc
    for i in range(count):
        foreign = (i % 5 == 4)
        dim = rng.randint(1, 4)
        nq = rng.randint(1, 14)
        ns = rng.randint(1, 10)
        half = (i % 4 == 2) and not foreign
        klass, qubits, stabs, ops = make_class(rng, dim, nq, ns, foreign, half)
        name = 'UserCode%d' % i
        setattr(pc, name, klass)
        tag, ok, n = dc.dump_instance((name, (2, 2), None, None, outdir))
        rec = json.load(open(os.path.join(outdir, tag + '.json')))
        rec['user'] = True
        rec['foreign_key'] = foreign
        if half and rec.get('ok'):
            # back to integers for the literal printers: every coordinate the library reported, times two (exact for half-integers;
            # a library that rounded or truncated the coordinates shows up as collisions or as operators on the wrong qubits)
            def dbl(c):
                return [int(round(2 * v)) if abs(2 * v - round(2 * v)) < 1e-9 else 2 * v for v in c]
            rec['half_integer_coordinates'] = True
            rec['qubits'] = [dbl(c) for c in rec['qubits']]
            rec['stab_coords'] = [dbl(c) for c in rec['stab_coords']]
            for fld in ('stab_ops', 'lx_ops', 'lz_ops'):
                rec[fld] = [[[qi, dbl(c), p_] for qi, c, p_ in op] for op in rec.get(fld, [])]
            for rt in rec.get('roundtrips', []):
                if 'op' in rt:
                    rt['op'] = [[qi, dbl(c), p_] for qi, c, p_ in rt['op']]
                rt['back'] = [[dbl(c), p_] for c, p_ in rt['back']]
            # what was GIVEN to the coordinate API, doubled the same way: the library must report exactly these
            rec['given_qubits_x2'] = [dbl(q) for q in qubits]
            rec['given_stabs_x2'] = [dbl(s_) for s_ in stabs]
        if foreign:
            # what the coordinate API was given, so the model can be run on the same input
            rec['given_qubits'] = [list(q) for q in qubits]
            rec['given_stabs'] = [list(s) for s in stabs]
            rec['given_ops'] = [[[list(q), p] for q, p in ops[s].items()] for s in stabs]
        json.dump(rec, open(os.path.join(outdir, tag + '.json'), 'w'))
        index.append({'tag': tag, 'ok': ok, 'n': n, 'foreign': foreign})
    json.dump(index, open(os.path.join(outdir, 'INDEX.json'), 'w'))
    print('user codes', len(index), 'failed', sum(1 for i in index if not i['ok']))


if __name__ == '__main__':
    main()
