"""C16 driver: planted finite-size-scaling data -> panqec.Analysis -> reported threshold.
usage: c16_threshold.py <out.json> <tier> <seed>"""
import contextlib
import gzip
import io
import json
import os
import random
import sys
import tempfile

import numpy as np


def ansatz(p, d, pth, nu, A, B, C):
    x = (p - pth) * d ** nu
    return A + B * x + C * x * x


def make_inputs(L, p):
    from panqec.codes import Toric2DCode
    from panqec.error_models import PauliErrorModel
    from panqec.decoders import MatchingDecoder
    from panqec.simulation import DirectSimulation
    code = Toric2DCode(L, L)
    em = PauliErrorModel(1 / 3, 1 / 3, 1 / 3)
    sim = DirectSimulation(code, em, MatchingDecoder(code, em, p), p, verbose=False)
    return json.loads(json.dumps(sim._inputs, default=lambda o: int(o) if hasattr(o, '__int__') else str(o)))


def entry(inputs, f, n_trials, rng, share=0.0):
    n_fail = int(round(f * n_trials))
    succ = [False] * n_fail + [True] * (n_trials - n_fail)
    rng.shuffle(succ)
    eff = [[0, 0, 0, 0] if s else [1, 0, 0, 0] for s in succ]
    # a share of the failures (different from data point to data point) are trials that ended OUTSIDE the code space:
    # they are failures all the same (success = False) and count in n_fail
    cs = [True if s else (rng.random() >= share) for s in succ]
    return {'inputs': inputs, 'results': {'effective_error': eff, 'success': succ, 'codespace': cs, 'n_runs': n_trials, 'wall_time': 1.0}}, n_fail


def main():
    out, tier, seed = sys.argv[1], sys.argv[2], int(sys.argv[3])
    rng = random.Random(seed)
    from panqec.analysis import Analysis, fit_function, rescale_prob
    res = {'plants': [], 'fit_function': []}
    # fit_function / rescale_prob against the closed form on dyadic inputs
    for _ in range(40):
        p, d = rng.randrange(1, 64) / 256, rng.choice([3, 4, 5, 8, 9, 16])
        pth, nu, A, B, C = rng.randrange(1, 64) / 256, rng.choice([0.5, 1.0, 2.0]), rng.randrange(0, 8) / 16, rng.randrange(-8, 9) / 4, rng.randrange(-8, 9) / 4
        res['fit_function'].append({'args': [p, d, pth, nu, A, B, C], 'value': float(fit_function((p, d), pth, nu, A, B, C)),
                                    'rescaled': float(rescale_prob((np.array([p]), np.array([d])), pth, nu, A, B, C)[0]),
                                    'expected': ansatz(p, d, pth, nu, A, B, C), 'expected_x': (p - pth) * d ** nu})
    nplant = 4 if tier == 'quick' else 30
    dsets = [[5, 9, 13], [4, 6, 8], [3, 5, 7], [6, 10, 14], [9, 13, 17, 21], [4, 8, 12]]
    for pi in range(nplant + 4):
        pth = rng.choice([0.06, 0.08, 0.1, 0.12, 0.15])
        nu = rng.choice([0.8, 1.0, 1.2])
        A = rng.choice([0.3, 0.35, 0.4])
        B = rng.choice([1.0, 1.25, 1.5])
        C = rng.choice([0.5, 1.0, 1.5])
        ds = dsets[pi % len(dsets)]
        nr = rng.choice([7, 9, 11])
        width = 0.1 / max(ds) ** nu
        lo = rng.choice([-1.0, -0.4, -0.6])      # symmetric and asymmetric windows around the threshold
        rates = [round(pth + width * (lo + (1.0 - lo) * i / (nr - 1)), 6) for i in range(nr)]
        n_trials = 8000
        zero_point = pi == nplant
        if pi == nplant + 1:
            # a shallow curve with moderate statistics: some bootstrap refits may not converge
            pth, nu, A, B, C, ds = 0.10, 0.6, 0.3, 0.5, 0.5, [6, 8, 10]
            rates = [round(0.08 + 0.04 * i / 6, 6) for i in range(7)]
            n_trials = 5000
        if pi >= nplant + 2:
            # the scan range was guessed before the threshold was known: only ONE scanned rate lies below (above) the threshold
            pth, nu, A, B, C, ds = 0.10, 1.0, 0.3, 1.0, 0.5, [5, 7, 9]
            rel = (0.98, 1.22) if pi == nplant + 2 else (0.78, 1.02)
            rates = [round(pth * (rel[0] + (rel[1] - rel[0]) * i / 8), 6) for i in range(9)]
        if zero_point:
            # a data point with NO observed failure that still lies on the ansatz: the parabola touches zero (A = B^2/4C) at
            # x = -B/2C, reached at the largest distance and the lowest rate
            pth, nu, A, B, C, ds = 0.15, 0.5, 0.2, 2.0, 5.0, [4, 9, 16]
            rates = [round(0.10 + 0.0125 * i, 6) for i in range(9)]
        entries = []
        ok = True
        for di, d in enumerate(ds):
            for p in rates:
                f = ansatz(p, d, pth, nu, A, B, C)
                if not (0.005 < f < 0.95) and not (zero_point and -1e-9 < f < 0.95):
                    ok = False
                entries.append((make_inputs(d, p), f, [0.1, 0.35, 0.6, 0.2][di % 4]))
        if not ok:
            continue
        plant = {'p_th': pth, 'nu': nu, 'A': A, 'B': B, 'C': C, 'distances': ds, 'rates': rates, 'n_trials': n_trials, 'orders': [],
                 'shallow': pi == nplant + 1, 'edge': pi >= nplant + 2}
        for oi, order in enumerate(['sorted', 'shuffled_files', 'paths_list', 'paths_list_reversed']):
            with tempfile.TemporaryDirectory() as tmp:
                es = [entry(inp, f, n_trials, random.Random(seed * 1000 + pi), sh)[0] for inp, f, sh in entries]
                if order != 'sorted':
                    rng.shuffle(es)
                nfiles = rng.choice([1, 3, len(ds)]) if order in ('sorted', 'shuffled_files') else len(ds)
                files = []
                for fi in range(nfiles):
                    if order.startswith('paths_list'):
                        # one file per distance, each in its own directory / or standalone files
                        chunk = [e for e in es if e['inputs']['code']['parameters']['L_x'] == ds[fi]]
                    else:
                        chunk = es[fi::nfiles]
                    pth_f = os.path.join(tmp, 'res_%d.json.gz' % fi)
                    with gzip.open(pth_f, 'wb') as g:
                        g.write(json.dumps(chunk).encode())
                    files.append(pth_f)
                arg = tmp if order in ('sorted', 'shuffled_files') else (files if order == 'paths_list' else list(reversed(files)))
                rec = {'order': order, 'n_files': nfiles}
                try:
                    with contextlib.redirect_stdout(io.StringIO()), np.errstate(all='ignore'):
                        an = Analysis(arg)
                        an.calculate_thresholds()
                    th = an.thresholds
                    rec['n_rows'] = int(len(th))
                    if len(th) >= 1:
                        row = th.iloc[0]
                        for k in ('p_th_fss', 'p_th_fss_left', 'p_th_fss_right', 'p_th_fss_se', 'fit_status', 'p_left', 'p_right'):
                            v = row[k] if k in row else None
                            rec[k] = (None if v is None else (str(v) if k == 'fit_status' else float(v)))
                        rec['fss_params'] = [float(v) for v in row['fss_params']]
                        rec['n_points'] = int(len(an.get_results()))
                except Exception as ex:
                    import traceback
                    rec['error'] = '%s: %s' % (type(ex).__name__, ex)
                    rec['trace'] = traceback.format_exc()[-1000:]
                plant['orders'].append(rec)
        res['plants'].append(plant)
    json.dump(res, open(out, 'w'))
    print(len(res['plants']), 'planted parameter sets')


if __name__ == '__main__':
    main()
