"""C03 driver: bs_prod in every accepted representation, converters, weights.
usage: c03_bsprod.py <out.json> <tier> <seed>"""
import itertools
import json
import random
import sys

import numpy as np
from scipy.sparse import csr_matrix

from panqec import bpauli
from panqec import bsparse

REPS = ['list', 'uint8', 'int8', 'int64', 'uint64', 'csr', 'csr0']


def conv(v, rep, two_d):
    """v: list of 0/1 of length 2n (one operator) or list of such (stack)"""
    a = np.array(v)
    if a.ndim == 1 and two_d:
        a = a.reshape(1, -1)
    if rep == 'list':
        return a.tolist()
    if rep == 'csr':
        if a.ndim == 1:
            a = a.reshape(1, -1)
        return csr_matrix(a.astype('uint8'))
    if rep == 'csr0':
        # the same matrix with explicitly STORED zeros (left behind by `m.data %= 2` after an addition)
        if a.ndim == 1:
            a = a.reshape(1, -1)
        a = a.astype('uint8')
        b = np.zeros_like(a)
        b[:, ::2] = 1
        m = (csr_matrix(b) + csr_matrix((a + b) % 2)).tocsr()      # = a + 2b
        m.data %= 2
        return m
    return a.astype(rep)


def flat(x):
    return [int(v) for v in np.asarray(x).ravel()]


def bits_of(v, n2):
    return [(v >> i) & 1 for i in range(n2)]


def main():
    out, tier, seed = sys.argv[1], sys.argv[2], int(sys.argv[3])
    rng = random.Random(seed)
    res = {'pairs': [], 'stacks': [], 'conv': [], 'errors': []}
    # A. all pairs on n <= 3
    allcombos = [(ra, rb, da, db) for ra in REPS for rb in REPS for da in (False, True) for db in (False, True)]
    ci = 0
    for n in (1, 2, 3):
        for va in range(4 ** n):
            for vb in range(4 ** n):
                a, b = bits_of(va, 2 * n), bits_of(vb, 2 * n)
                if tier == 'thorough' or n <= 2:
                    combos = allcombos if (n <= 1 or tier == 'thorough') else [allcombos[(ci * 7 + j * 37) % len(allcombos)] for j in range(12)]
                else:
                    combos = [allcombos[(ci * 5 + j * 29) % len(allcombos)] for j in range(4)]
                ci += 1
                vals = {}
                for (ra, rb, da, db) in combos:
                    try:
                        r = flat(bpauli.bs_prod(conv(a, ra, da), conv(b, rb, db)))
                    except Exception as ex:
                        r = 'EXC %s: %s' % (type(ex).__name__, ex)
                    vals.setdefault(json.dumps(r), []).append('%s%s x %s%s' % (ra, '2d' if da else '1d', rb, '2d' if db else '1d'))
                res['pairs'].append({'n': n, 'a': va, 'b': vb, 'vals': vals, 'ncombos': len(combos)})
    # B. stacks
    sizes = [(5, 3, 4), (40, 2, 5), (300, 4, 2), (600, 3, 3), (600, 2, 6), (64, 6, 2), (130, 5, 5)]
    if tier == 'thorough':
        sizes = sizes * 4 + [(600, 8, 9), (257, 7, 3), (1000, 3, 4)]
    dens = [0.02, 0.5, 0.98, 1.0]
    stack_reps = [('uint8', 'uint8'), ('int64', 'int64'), ('csr', 'csr'), ('csr', 'uint8'), ('uint8', 'csr'), ('list', 'list'),
                  ('int8', 'uint8'), ('list', 'csr'), ('uint64', 'uint8')]
    k = 0
    for (n, ra_, rb_) in sizes:
        for d in dens:
            A = [[1 if rng.random() < d else 0 for _ in range(2 * n)] for _ in range(ra_)]
            B = [[1 if rng.random() < (d if k % 2 else 1 - d * 0.3) else 0 for _ in range(2 * n)] for _ in range(rb_)]
            for (r1, r2) in stack_reps:
                k += 1
                if tier == 'quick' and (k % 3) and n > 100:
                    continue
                for (X, Y, tag) in ((A, B, 'ab'), (B, A, 'ba'), (A, B[0], 'a-vec'), (A[0], B, 'vec-b')):
                    try:
                        r = np.asarray(bpauli.bs_prod(conv(X, r1, False), conv(Y, r2, False)))
                        shape = list(r.shape)
                        val = flat(r)
                    except Exception as ex:
                        shape, val = None, 'EXC %s: %s' % (type(ex).__name__, ex)
                    res['stacks'].append({'n': n, 'A': [[i for i, v in enumerate(row) if v] for row in (X if isinstance(X[0], list) else [X])],
                                          'B': [[i for i, v in enumerate(row) if v] for row in (Y if isinstance(Y[0], list) else [Y])],
                                          'reps': [r1, r2], 'kind': tag, 'shape': shape, 'val': val, 'density': d})
    # C. converters
    strings = [''.join(p) for p in itertools.product('IXYZ', repeat=3)]
    strings += [''.join(p) for p in itertools.product('IXYZ', repeat=1)] + ['']
    lens = [2, 5, 16, 31, 32, 33, 34, 40, 64, 65, 70] + ([100, 128, 129, 200] if tier == 'thorough' else [])
    for L in lens:
        for _ in range(3 if tier == 'quick' else 8):
            w = rng.choice([0.1, 0.5, 0.9])
            strings.append(''.join(rng.choice('XYZ') if rng.random() < w else 'I' for _ in range(L)))
        strings.append('X' + 'I' * (L - 1))
        strings.append('I' * (L - 1) + 'Z')
        strings.append('Y' * L)
    for s in strings:
        rec = {'s': s}
        n = len(s)
        try:
            if n > 0:
                v1 = bpauli.pauli_string_to_bvector(s)
                v2 = bpauli.pauli_to_bsf(s)
                rec['v1'] = flat(v1)
                rec['v2'] = flat(v2)
                v = np.array(rec['v1'], dtype='uint8')
                rec['back1'] = bpauli.bvector_to_pauli_string(v)
                rec['back2'] = bpauli.bsf_to_pauli(v)
                rec['back2_2d'] = bpauli.bsf_to_pauli(v.reshape(1, -1))
                rec['back3'] = bpauli.bsf_to_pauli(csr_matrix(v.reshape(1, -1)))
                # a csr row with unsorted indices (as produced by bsparse.insert_mod2)
                row = bsparse.zero_row(2 * n)
                idx = [i for i, b in enumerate(rec['v1']) if b]
                rng.shuffle(idx)
                for i in idx:
                    bsparse.insert_mod2(i, row)
                rec['back4'] = bpauli.bsf_to_pauli(row)
                rec['int'] = str(bpauli.bvector_to_int(v))
                rec['from_int'] = flat(bpauli.int_to_bvector(int(rec['int']), n))
                rec['ints_rt'] = [flat(x) for x in bpauli.ints_to_bvectors(bpauli.bvectors_to_ints([v, v[::-1].copy()]), n)]
                rec['rev'] = flat(v[::-1])
                rec['wt_dense'] = int(bpauli.bsf_wt(v))
                rec['wt_csr'] = int(bpauli.bsf_wt(csr_matrix(v.reshape(1, -1))))
                rec['wt_unsorted'] = int(bpauli.bsf_wt(row)) if idx else 0
        except Exception as ex:
            rec['error'] = '%s: %s' % (type(ex).__name__, ex)
        res['conv'].append(rec)
    json.dump(res, open(out, 'w'))
    print(len(res['pairs']), 'pairs', len(res['stacks']), 'stacks', len(res['conv']), 'conversions')


if __name__ == '__main__':
    main()
