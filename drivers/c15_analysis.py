"""C15 driver: a fixed multiset of trial records per (code, noise, decoder, error rate) key, split at random over
result containers (plain json, gz, zip, merged lists, repeated runs, nested dirs, lists of paths), analysed by panqec.Analysis.
usage: c15_analysis.py <out.json> <tier> <seed>"""
import contextlib
import gzip
import io
import json
import os
import random
import sys
import tempfile
import zipfile

import numpy as np


def make_inputs():
    from panqec.codes import Toric2DCode, Planar2DCode, Toric3DCode, RotatedPlanar2DCode
    from panqec.error_models import PauliErrorModel
    from panqec.decoders import BeliefPropagationOSDDecoder, MatchingDecoder
    from panqec.simulation import DirectSimulation
    keys = []
    for code in (Toric2DCode(3, 3), Planar2DCode(2, 3), Toric3DCode(2, 2, 2), Toric2DCode(4, 4)):
        for em in (PauliErrorModel(1 / 3, 1 / 3, 1 / 3), PauliErrorModel(0, 0, 1)):
            for p in (0.05, 0.1):
                dec = BeliefPropagationOSDDecoder(code, em, p)
                sim = DirectSimulation(code, em, dec, p, verbose=False)
                inp = json.loads(json.dumps(sim._inputs, default=lambda o: int(o) if hasattr(o, '__int__') else str(o)))
                keys.append((inp, int(code.k)))
    return keys


def write_container(rng, d, name, entries, kind):
    """entries: list of {'inputs','results'} dicts"""
    data = entries if (len(entries) != 1 or rng.random() < 0.5) else entries[0]
    if kind == 'json':
        p = os.path.join(d, name + '.json')
        json.dump(data, open(p, 'w'))
    elif kind == 'gz':
        p = os.path.join(d, name + '.json.gz')
        with gzip.open(p, 'wb') as g:
            g.write(json.dumps(data).encode())
    else:
        p = os.path.join(d, name + '.zip')
        with zipfile.ZipFile(p, 'w') as z:
            if rng.random() < 0.5:
                z.writestr('results/' + name + '_inner.json', json.dumps(data))
            else:
                z.writestr(name + '_inner.json.gz', gzip.compress(json.dumps(data).encode()))
    return p


def main():
    out, tier, seed = sys.argv[1], sys.argv[2], int(sys.argv[3])
    rng = random.Random(seed)
    from panqec.analysis import Analysis, count_fails
    keys = make_inputs()
    res = []
    nsets = 14 if tier == 'quick' else 120
    for si in range(nsets):
        sel = rng.sample(keys, rng.randint(1, 4))
        pool = []
        for inp, k in sel:
            nt = rng.choice([1, 2, 7, 29, 57, 100, 100, 143])
            pf = rng.choice([0.0, 0.07, 0.14, 0.29, 0.5, 0.93])
            pcs = 0.85
            if si % 5 == 2:
                # large groups: counts beyond the range of 8-bit (and, thorough tier, 16-bit) integers, also among out-of-codespace trials
                nt = rng.choice([700, 1500]) if tier == 'quick' else rng.choice([700, 1500, 70000 if si % 25 == 2 else 3000])
                pf = rng.choice([0.5, 0.93])
                pcs = 0.5
            trials = []
            for _ in range(nt):
                cs = rng.random() < pcs
                eff = [1 if rng.random() < pf else 0 for _ in range(2 * k)]
                succ = cs and not any(eff)
                if rng.random() < 0.03:
                    succ = not succ     # arbitrary patterns: the analysis must count what is recorded
                trials.append({'eff': eff, 'succ': bool(succ), 'cs': bool(cs)})
            pool.append({'inputs': inp, 'k': k, 'trials': trials})
        for pi in range(3 if tier == 'quick' else 5):
            with tempfile.TemporaryDirectory() as tmp:
                # split each key's trials into 1..4 chunks (empty chunks are not written), scatter over containers
                chunks = []
                for kidx, pe in enumerate(pool):
                    tr = pe['trials'][:]
                    if pi > 0:
                        rng.shuffle(tr)
                    ncut = rng.randint(1, min(4, len(tr)))
                    cuts = sorted(rng.sample(range(1, len(tr)), ncut - 1)) if len(tr) > 1 else []
                    prev = 0
                    for c in cuts + [len(tr)]:
                        part = tr[prev:c]
                        prev = c
                        if part:
                            inp_ = json.loads(json.dumps(pe['inputs']))
                            if rng.random() < 0.3:
                                # the same rate with float noise in the last place (0.1 + 0.2 vs 0.3): still the same data point
                                inp_['error_rate'] = float(np.nextafter(inp_['error_rate'], 1.0))
                            chunks.append({'inputs': inp_,
                                           'results': {'effective_error': [t['eff'] for t in part], 'success': [t['succ'] for t in part],
                                                       'codespace': [t['cs'] for t in part], 'n_runs': len(part), 'wall_time': 0.5}})
                rng.shuffle(chunks)
                ncont = rng.randint(1, min(5, len(chunks)))
                conts = [[] for _ in range(ncont)]
                for i, ch in enumerate(chunks):
                    conts[i % ncont if i < ncont else rng.randrange(ncont)].append(ch)
                dirs = [os.path.join(tmp, 'a'), os.path.join(tmp, 'a', 'sub'), os.path.join(tmp, 'b'), os.path.join(tmp, 'b', '.cluster', 'results')]
                for dd in dirs:
                    os.makedirs(dd, exist_ok=True)
                paths = []
                kinds = []
                mode = rng.choice(['root', 'paths', 'paths_rev', 'dirs', 'merged'])
                for ci, cont in enumerate(conts):
                    kind = rng.choice(['json', 'gz', 'zip'] if mode != 'merged' else ['json', 'gz'])
                    kinds.append(kind)
                    # file names with extra dots (a rate or a bias ratio in the name), as users and scripts write them
                    nm_ = rng.choice(['res%d', 'results_p0.05_%d', 'results_eta-0.5.run%d'])
                    paths.append(write_container(rng, rng.choice(dirs), nm_ % ci, cont, kind))
                if mode == 'merged':
                    # the files are first merged by the command-line tool (files holding a list AND files holding a single record)
                    from panqec.cli import merge_results
                    merged = os.path.join(tmp, 'merged', 'merged-results.json.gz')
                    os.makedirs(os.path.dirname(merged))
                    with contextlib.redirect_stdout(io.StringIO()):
                        merge_results.callback(result_files=tuple(paths), output_file=merged)
                    arg = merged
                elif mode == 'root':
                    arg = tmp
                elif mode == 'paths':
                    arg = list(paths)
                elif mode == 'paths_rev':
                    arg = list(reversed(paths))
                else:
                    arg = [os.path.join(tmp, 'a'), os.path.join(tmp, 'b')]
                def analyse(arg_, pool_now, extra=None):
                    rec = {'set': si, 'partition': pi, 'mode': mode, 'kinds': kinds, 'n_containers': ncont, 'n_chunks': len(chunks),
                           'pool': [{'key': json.dumps(pe['inputs'], sort_keys=True), 'k': pe['k'], 'trials': pe['trials']} for pe in pool_now], 'rows': []}
                    if extra:
                        rec.update(extra)
                    try:
                        with contextlib.redirect_stdout(io.StringIO()):
                            an = Analysis(arg_)
                        df = an.get_results()
                        for _, row in df.iterrows():
                            key = {'code': {'name': row['code'], 'parameters': row['code_params'], 'n': int(row['n']), 'k': int(row['k']), 'd': int(row['d'])},
                                   'error_model': {'name': row['error_model'], 'parameters': row['error_model_params']},
                                   'decoder': {'name': row['decoder'], 'parameters': row['decoder_params']},
                                   'error_rate': float(row['error_rate']), 'method': {'name': row['method'], 'parameters': row['method_params']}}
                            eff = np.asarray(row['effective_error'])
                            csp = np.asarray(row['codespace'])
                            rec['rows'].append({
                                'key': json.dumps(key, sort_keys=True), 'k': int(row['k']),
                                'n_trials': int(row['n_trials']), 'n_fail': int(row['n_fail']), 'p_est': float(row['p_est']), 'p_se': float(row['p_se']),
                                'p_word_est': float(row['p_word_est']), 'p_word_se': float(row['p_word_se']),
                                'sq_est': np.asarray(row['single_qubit_p_est']).tolist(), 'sq_se': np.asarray(row['single_qubit_p_se']).tolist(),
                                'n_cs': int(csp.sum()), 'n_fail_X': int(count_fails(eff, csp, 'X')), 'n_fail_Z': int(count_fails(eff, csp, 'Z')),
                                'len_success': int(len(row['success'])), 'len_eff': int(len(eff))})
                    except Exception as ex:
                        import traceback
                        rec['error'] = '%s: %s' % (type(ex).__name__, ex)
                        rec['trace'] = traceback.format_exc()[-1200:]
                    return rec
                res.append(analyse(arg, pool))
                # history: a results file GROWS (a continued run, a re-merge onto the same name) and the same path is analysed again
                # in the same process: the second analysis must see the new content
                grow = [pth_ for pth_, kd_ in zip(paths, kinds) if kd_ in ('json', 'gz')]
                if grow and mode != 'merged' and pi == 0:
                    gp = grow[0]
                    raw = json.loads(gzip.open(gp, 'rb').read().decode()) if gp.endswith('.gz') else json.load(open(gp))
                    lst = raw if isinstance(raw, list) else [raw]
                    dup = json.loads(json.dumps(lst[0]))
                    lst2 = lst + [dup]
                    if gp.endswith('.gz'):
                        with gzip.open(gp, 'wb') as g_:
                            g_.write(json.dumps(lst2).encode())
                    else:
                        json.dump(lst2, open(gp, 'w'))
                    os.utime(gp, None)
                    kinp = json.dumps({k_: dup['inputs'][k_] for k_ in dup['inputs'] if k_ != 'error_rate'}, sort_keys=True)
                    pool2 = []
                    for pe in pool:
                        same = (json.dumps({k_: pe['inputs'][k_] for k_ in pe['inputs'] if k_ != 'error_rate'}, sort_keys=True) == kinp
                                and abs(pe['inputs']['error_rate'] - dup['inputs']['error_rate']) < 1e-9)
                        extra_tr = [{'eff': e_, 'succ': bool(s_), 'cs': bool(c_)} for e_, s_, c_ in
                                    zip(dup['results']['effective_error'], dup['results']['success'], dup['results']['codespace'])] if same else []
                        pool2.append(dict(pe, trials=pe['trials'] + extra_tr))
                    res.append(analyse(arg, pool2, {'history': 'the file %s grew by one record and the same path was analysed again in the same process'
                                                    % os.path.basename(gp)}))
    json.dump(res, open(out, 'w'))
    print(len(res), 'analyses', sum(1 for r in res if 'error' in r), 'errors')


if __name__ == '__main__':
    main()
