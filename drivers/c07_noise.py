"""C07 / C18 driver: the Pauli noise model run with dyadic parameters (exact float arithmetic) and a scripted
generator.  usage: c07_noise.py <out.json> <tier> <seed>"""
import io
import contextlib
import itertools
import json
import math
import random
import sys
from fractions import Fraction

import numpy as np

sys.path.insert(0, __file__.rsplit('/', 1)[0])
import dump_codes as dc  # noqa: E402


class Scripted:
    """stands in for numpy's Generator: .random() returns the scripted variates in order"""
    def __init__(self, us):
        self.us = list(us)
        self.calls = 0

    def random(self, *a, **k):
        if a or k:
            raise RuntimeError('unexpected arguments to rng.random: %r %r' % (a, k))
        u = self.us[self.calls]
        self.calls += 1
        return u

    def __getattr__(self, name):
        raise RuntimeError('the noise model used rng.%s (only rng.random() is modelled)' % name)


def fr(x):
    f = Fraction(float(x))
    return [f.numerator, f.denominator]


def main():
    out, tier, seed = sys.argv[1], sys.argv[2], int(sys.argv[3])
    import panqec.codes as pc
    from panqec.error_models import PauliErrorModel
    from panqec.decoders import BeliefPropagationOSDDecoder
    rng = random.Random(seed)
    res = {'dists': [], 'samples': [], 'weights': [], 'bp': [], 'probs': [], 'logs': []}
    dirs = [(8, 0, 0), (0, 8, 0), (0, 0, 8), (4, 4, 0), (0, 4, 4), (4, 0, 4), (1, 2, 5), (2, 3, 3), (6, 1, 1), (3, 3, 2), (1, 1, 6)]
    rates = [0, 1, 4, 8, 15, 16]          # /16
    if tier == 'thorough':
        dirs += [(a, b, 8 - a - b) for a in range(9) for b in range(9 - a)]
        dirs = sorted(set(dirs))
        rates = list(range(17))
    sizes2 = [(2, 2), (2, 3), (3, 2)] if tier == 'quick' else [(2, 2), (2, 3), (3, 2), (3, 3), (4, 2), (3, 4)]
    sizes3 = [(2, 2, 2), (2, 3, 2), (3, 2, 2)] if tier == 'quick' else [(2, 2, 2), (2, 3, 2), (3, 2, 2), (2, 2, 3), (3, 3, 2)]
    for cls in dc.CLASSES_2D + dc.CLASSES_3D:
        klass = getattr(pc, cls)
        choices = [(None, None)] + [(nm, ax) for nm in klass.deformation_names for ax in dc.AXES.get(cls, [None])]
        sizes = [s for s in (sizes2 if cls in dc.CLASSES_2D else sizes3 + [(2, 2, 4), (4, 4, 2)]) if dc.supported(cls, s)][:3]
        # one direction from each symmetry class (a shortcut valid for one class of deformations or directions must not hide)
        strata = [[(0, 8, 0), (2, 4, 2), (1, 6, 1), (3, 2, 3)],          # r_x = r_z != r_y
                  [(4, 4, 0), (3, 3, 2), (1, 1, 6), (2, 2, 4)],          # r_x = r_y != r_z
                  [(8, 0, 0), (6, 1, 1), (2, 3, 3), (0, 4, 4)],          # r_y = r_z != r_x
                  [(1, 2, 5), (5, 2, 1), (4, 0, 4), (0, 0, 8), (3, 1, 4)]]
        zero_dir = rng.choice([(0, 4, 4), (4, 0, 4), (4, 4, 0), (0, 2, 6), (6, 0, 2)])     # a zero component, given as int 0 below
        dsel = [rng.choice(st) for st in strata] + [zero_dir] + rng.sample(dirs, 1 if tier == 'quick' else 9)
        dsel = list(dict.fromkeys(dsel))
        rsel = sorted(set([16] + rng.sample(rates, 3 if tier == 'quick' else 6)))      # the upper end of the range always
        # ONE model object per (direction, deformation) used on all sizes; ONE code object per size used by all models
        codes = {s: klass(*s) for s in sizes}
        for (a, b, c) in dsel:
            rx, ry, rz = a / 8, b / 8, c / 8
            if (a, b, c) == zero_dir or rng.random() < 0.5:
                # whole numbers written as Python ints, as a user would: PauliErrorModel(0, 0.5, 0.5), error_rate=1
                rx, ry, rz = [int(v) if float(v).is_integer() else v for v in (rx, ry, rz)]
            for (nm, ax) in choices:
                kw = {'deformation_axis': ax} if ax else {}
                em = PauliErrorModel(rx, ry, rz, deformation_name=nm, deformation_kwargs=kw)
                for s in sizes:
                    code = codes[s]
                    n = code.n
                    dicts = []
                    for q in code.qubit_coordinates:
                        if nm is None:
                            dicts.append('XYZ')
                        else:
                            d = code.get_deformation(q, nm, **kw)
                            dicts.append(d['X'] + d['Y'] + d['Z'])
                    for pk in rsel:
                        p = pk / 16
                        if float(p).is_integer() and isinstance(rx, int):
                            p = int(p)
                        pi, px, py, pz = em.probability_distribution(code, p)
                        rec = {'cls': cls, 'size': list(s), 'name': nm, 'axis': ax, 'dir': [a, b, c], 'p16': pk, 'n': n,
                               'dicts': dicts,
                               'impl': [[fr(pi[i]), fr(px[i]), fr(py[i]), fr(pz[i])] for i in range(n)]}
                        res['dists'].append(rec)
                        # sampling with scripted variates: boundaries of the cumulative distribution, 0, just below 1, random dyadics
                        for rep in range(2):
                            us = []
                            for i in range(n):
                                cum = [float(pi[i]), float(pi[i] + px[i]), float(pi[i] + px[i] + py[i])]
                                kind = rng.randrange(6)
                                if kind == 0:
                                    u = cum[rng.randrange(3)]
                                elif kind == 1:
                                    u = max(0.0, cum[rng.randrange(3)] - 2.0 ** -20)
                                elif kind == 2:
                                    u = 0.0
                                elif kind == 3:
                                    u = 1.0 - 2.0 ** -30
                                else:
                                    u = rng.randrange(2 ** 12) / 2 ** 12
                                us.append(min(u, 1.0 - 2.0 ** -30))
                            sr = Scripted(us)
                            try:
                                e = em.generate(code, p, rng=sr)
                                e = np.asarray(e)
                                pauli = ''.join('IXZY'[int(e[i]) + 2 * int(e[n + i])] for i in range(n))
                                ok_shape = (e.shape == (2 * n,)) and set(np.unique(e)) <= {0, 1}
                                err = None
                            except Exception as ex:
                                pauli, ok_shape, err = None, False, '%s: %s' % (type(ex).__name__, ex)
                            res['samples'].append({'cls': cls, 'size': list(s), 'name': nm, 'axis': ax, 'dir': [a, b, c], 'p16': pk,
                                                   'us': [fr(u) for u in us], 'pauli': pauli, 'ok_shape': ok_shape, 'calls': sr.calls,
                                                   'dists': rec['impl'], 'error': err})
                        # matching weights and BP priors (floats: compared with tolerance)
                        if 0 < pk < 16:
                            wx, wz = em.get_weights(code, p)
                            res['weights'].append({'cls': cls, 'size': list(s), 'name': nm, 'axis': ax, 'dir': [a, b, c], 'p16': pk,
                                                   'wx': [float(v) for v in wx], 'wz': [float(v) for v in wz], 'dists': rec['impl']})
                            if pk == rsel[-1] or pk == [r for r in rsel if 0 < r < 16][-1]:
                                # history: the same (model object, code object, rate) asked again after sampling and after the weights
                                # were computed once - the distribution and the weights must be what they were
                                e_ = np.zeros(2 * n, dtype='uint8')
                                e_[0], e_[n + (1 % n)], e_[n - 1], e_[2 * n - 1] = 1, 1, 1, 1
                                em.error_probability(e_, code, p)
                                with np.errstate(all='ignore'):
                                    em.error_probability(e_, code, p, log_output=True)
                                wx, wz = em.get_weights(code, p)
                                res['weights'].append({'cls': cls, 'size': list(s), 'name': nm, 'axis': ax, 'dir': [a, b, c], 'p16': pk,
                                                       'wx': [float(v) for v in wx], 'wz': [float(v) for v in wz], 'dists': rec['impl'], 'again': True})
                                pi, px, py, pz = em.probability_distribution(code, p)
                                res['dists'].append(dict(rec, again=True, impl=[[fr(pi[i]), fr(px[i]), fr(py[i]), fr(pz[i])] for i in range(n)]))
                # BP-OSD decoder priors, on the smallest size
                s0 = sizes[0]
                code = codes[s0]
                if 0 < rsel[0] < 16 or True:
                    pk = next((r for r in rsel if 0 < r < 16), 4)
                    p = pk / 16
                    for cu in (False, True):
                        try:
                            dec = BeliefPropagationOSDDecoder(code, em, p, max_bp_iter=5, osd_order=0, channel_update=cu)
                            pi, px, py, pz = em.probability_distribution(code, p)
                            n = code.n
                            rec = {'cls': cls, 'size': list(s0), 'name': nm, 'axis': ax, 'dir': [a, b, c], 'p16': pk, 'channel_update': cu,
                                   'dists': [[fr(pi[i]), fr(px[i]), fr(py[i]), fr(pz[i])] for i in range(n)]}
                            corr_int = np.array([rng.randrange(2) for _ in range(n)], dtype=int)
                            corr_u8 = corr_int.astype('uint8')
                            corr_b = corr_int.astype(bool)
                            rec['corr'] = [int(v) for v in corr_int]
                            with np.errstate(all='ignore'):
                                for dname, d in (('zx', 'z->x'), ('xz', 'x->z')):
                                    for cname, cc in (('int', corr_int), ('uint8', corr_u8), ('bool', corr_b)):
                                        rec['upd_%s_%s' % (dname, cname)] = [float(v) for v in dec.update_probabilities(cc, px, py, pz, direction=d)]
                            # channel probabilities actually handed to ldpc by decode()
                            e = np.zeros(2 * n, dtype='uint8')
                            syn = code.measure_syndrome(e)
                            with contextlib.redirect_stdout(io.StringIO()):
                                dec.decode(syn)
                            if code.is_css:
                                rec['css'] = True
                                rec['chan_x'] = [float(v) for v in dec.x_decoder.channel_probs]
                                rec['chan_z'] = [float(v) for v in dec.z_decoder.channel_probs]
                            else:
                                rec['css'] = False
                                rec['chan'] = [float(v) for v in dec.decoder.channel_probs]
                            res['bp'].append(rec)
                        except Exception as ex:
                            res['bp'].append({'cls': cls, 'size': list(s0), 'name': nm, 'axis': ax, 'dir': [a, b, c], 'p16': pk,
                                              'channel_update': cu, 'error': '%s: %s' % (type(ex).__name__, ex)})
    # C18: error_probability on ALL errors of tiny codes, exact; log form
    tiny = [('RotatedPlanar2DCode', (2, 2)), ('Planar2DCode', (2, 2)), ('Color666PlanarCode', (1, 1)),
            ('RhombicPlanarCode', (2, 2, 1))]        # 5 qubits, a deformation that depends on the POSITION of a qubit
    if tier == 'thorough':
        tiny += [('RotatedPlanar2DCode', (2, 3)), ('Toric2DCode', (2, 2)), ('Color488Code', (1, 1))]
    for cls, s in tiny:
        klass = getattr(pc, cls)
        code = klass(*s)
        n = code.n
        if n > 7:       # 4^8 values per case make literals the proof assistant cannot read in reasonable time
            continue
        choices = [(None, None)] + [(nm, ax) for nm in klass.deformation_names for ax in dc.AXES.get(cls, [None])]
        for (a, b, c) in ([(1, 2, 5), (0, 4, 4), (8, 0, 0), (2, 4, 2)] + rng.sample(dirs, 2)):
            for (nm, ax) in choices:
                kw = {'deformation_axis': ax} if ax else {}
                em = PauliErrorModel(a / 8, b / 8, c / 8, deformation_name=nm, deformation_kwargs=kw)
                for pk in (4, 16, 1):
                    p = pk / 16
                    pi, px, py, pz = em.probability_distribution(code, p)
                    vals = []
                    tot = Fraction(0)
                    logs_bad = None
                    lim = 4 ** n if (n <= 5 or tier == 'thorough') else 0
                    for v in range(lim):
                        e = np.array([(v >> i) & 1 for i in range(2 * n)], dtype='uint8')
                        pr = em.error_probability(e, code, p)
                        f = Fraction(float(pr))
                        tot += f
                        vals.append([f.numerator, f.denominator])
                        if v % 37 == 0 or v < 8:
                            with np.errstate(all='ignore'):
                                lg = float(em.error_probability(e, code, p, log_output=True))
                            exp = -math.inf if f == 0 else math.log(f)
                            if not ((lg == exp) or (math.isfinite(lg) and math.isfinite(exp) and abs(lg - exp) <= 1e-9 * max(1.0, abs(exp)))):
                                logs_bad = {'error_bits': v, 'log': lg, 'expected': exp}
                    ddicts = []
                    for q_ in code.qubit_coordinates:
                        if nm is None:
                            ddicts.append('XYZ')
                        else:
                            d_ = code.get_deformation(q_, nm, **kw)
                            ddicts.append(d_['X'] + d_['Y'] + d_['Z'])
                    res['probs'].append({'cls': cls, 'size': list(s), 'name': nm, 'axis': ax, 'dir': [a, b, c], 'p16': pk, 'n': n, 'dicts': ddicts,
                                         'dists': [[fr(pi[i]), fr(px[i]), fr(py[i]), fr(pz[i])] for i in range(n)],
                                         'vals': vals, 'total': [tot.numerator, tot.denominator], 'log_bad': logs_bad})
    # random errors on larger codes: product form and log form (float tolerance)
    for cls, s in [('Toric2DCode', (4, 3)), ('Planar3DCode', (2, 3, 2)), ('XCubeCode', (2, 2, 3)), ('Color488Code', (2, 2)),
                   ('Color488Code', (1, 1)), ('Color666ToricCode', (1, 1)), ('RhombicToricCode', (2, 2, 2)), ('RhombicPlanarCode', (2, 2, 2)),
                   # hundreds of qubits: the probability underflows double precision, its logarithm does not
                   ('Toric2DCode', (18, 18)), ('Toric3DCode', (7, 7, 7))]:
        klass = getattr(pc, cls)
        code = klass(*s)
        n = code.n
        choices = [(None, None)] + [(nm, ax) for nm in klass.deformation_names for ax in dc.AXES.get(cls, [None])]
        for (nm, ax) in choices:
            kw = {'deformation_axis': ax} if ax else {}
            a, b, c = rng.choice([d_ for d_ in dirs if d_[0] != d_[2]])       # r_x != r_z: a relabelling of X and Z is visible
            em = PauliErrorModel(a / 8, b / 8, c / 8, deformation_name=nm, deformation_kwargs=kw)
            p = rng.choice([1, 3, 8, 13]) / 16 if code.n < 300 else 0.5
            # the STATED channel (not read from the implementation): direction, rate, deformation dictionary of each qubit
            base_ = {'X': p * a / 8, 'Y': p * b / 8, 'Z': p * c / 8}
            ddl = [code.get_deformation(q_, nm, **kw) if nm else {'X': 'X', 'Y': 'Y', 'Z': 'Z'} for q_ in code.qubit_coordinates]
            pi = [1 - p] * n
            px, py, pz = [base_[d_['X']] for d_ in ddl], [base_[d_['Y']] for d_ in ddl], [base_[d_['Z']] for d_ in ddl]
            for _ in range(6):
                e = np.array([rng.randrange(2) for _ in range(2 * n)], dtype='uint8')
                if rng.random() < 0.5:
                    e[rng.sample(range(2 * n), n)] = 0
                pr = float(em.error_probability(e, code, p))
                with np.errstate(all='ignore'):
                    lg = float(em.error_probability(e, code, p, log_output=True))
                exp = Fraction(1)
                exp_log = 0.0
                for i in range(n):
                    x, z = int(e[i]), int(e[n + i])
                    f_ = float((pi, px, pz, py)[x + 2 * z][i])
                    exp *= Fraction(f_)
                    exp_log = -math.inf if (f_ == 0 or exp_log == -math.inf) else exp_log + math.log(f_)
                res['logs'].append({'cls': cls, 'size': list(s), 'name': nm, 'axis': ax, 'dir': [a, b, c], 'p': p,
                                    'x': [int(i) for i in np.nonzero(e[:n])[0]], 'z': [int(i) for i in np.nonzero(e[n:])[0]],
                                    'prob': pr, 'log': lg, 'expected': float(exp), 'expected_log': exp_log})
    # Metropolis step of the splitting method: the acceptance probability it draws with and the log-probability it returns,
    # against the STATED channel.  np.random.choice is wrapped only to READ what the step drew (index, Pauli, accept probability).
    res['metro'] = []
    try:
        from panqec.simulation import SplittingSimulation
    except Exception:
        SplittingSimulation = None

    class _Zero:
        label = 'zero'
        params = {}
        id = 'ZeroDecoder'

        def __init__(self, n):
            self.n = n

        def decode(self, syndrome, **kw):
            return np.zeros(2 * self.n, dtype='uint8')

    mixed = [d_ for d_ in dirs if sum(1 for t in d_ if t) >= 2]
    for cls, s in ([('Toric2DCode', (3, 3)), ('Planar2DCode', (3, 4)), ('Toric3DCode', (2, 2, 3)), ('RhombicPlanarCode', (2, 2, 2)), ('Color666ToricCode', (1, 1))]
                   if SplittingSimulation is not None else []):
        klass = getattr(pc, cls)
        code = klass(*s)
        n = code.n
        choices = [(None, None)] + [(nm, ax) for nm in klass.deformation_names for ax in dc.AXES.get(cls, [None])]
        for (nm, ax) in choices:
            kw = {'deformation_axis': ax} if ax else {}
            a, b, c = rng.choice(mixed)
            em = PauliErrorModel(a / 8, b / 8, c / 8, deformation_name=nm, deformation_kwargs=kw)
            p = rng.choice([1, 3, 8, 13]) / 16
            base_ = {'I': 1 - p, 'X': p * a / 8, 'Y': p * b / 8, 'Z': p * c / 8}
            ddl = [dict(code.get_deformation(q_, nm, **kw), I='I') if nm else {'I': 'I', 'X': 'X', 'Y': 'Y', 'Z': 'Z'} for q_ in code.qubit_coordinates]

            def stated_log(e):
                t = 0.0
                for i in range(n):
                    f_ = base_[ddl[i]['IXZY'[int(e[i]) + 2 * int(e[n + i])]]]
                    if f_ == 0:
                        return -math.inf
                    t += math.log(f_)
                return t
            sim = SplittingSimulation(code, em, [_Zero(n)], [p], 1, verbose=False)
            for rep_i in range(8 if tier == 'quick' else 30):
                # a previous error that is possible under the channel, dense enough that the proposal often lands on an occupied qubit
                prev = np.zeros(2 * n, dtype='uint')
                for i in range(n):
                    poss = [P for P in 'XYZ' if base_[ddl[i][P]] > 0]
                    if rng.random() < 0.6:
                        P = rng.choice(poss)
                        prev[i], prev[n + i] = int(P in 'XY'), int(P in 'ZY')
                drawn = []
                orig = np.random.choice

                def rec(a_, *args, **kws):
                    r = orig(a_, *args, **kws)
                    drawn.append({'p': [float(t) for t in kws['p']] if kws.get('p') is not None else None, 'r': r.item() if hasattr(r, 'item') else r})
                    return r
                np.random.seed(rng.randrange(2 ** 31))
                np.random.choice = rec
                try:
                    with np.errstate(all='ignore'):
                        nxt, lp = sim.get_next_error(sim.decoders[0], p, prev.copy())
                finally:
                    np.random.choice = orig
                nxt = np.asarray(nxt).ravel()
                acc = [d_ for d_ in drawn if d_['p'] is not None and len(d_['p']) == 2]
                rec_ = {'cls': cls, 'size': list(s), 'name': nm, 'axis': ax, 'dir': [a, b, c], 'p': p,
                        'x': [int(i) for i in np.nonzero(prev[:n])[0]], 'z': [int(i) for i in np.nonzero(prev[n:])[0]],
                        'next_x': [int(i) for i in np.nonzero(nxt[:n])[0]], 'next_z': [int(i) for i in np.nonzero(nxt[n:])[0]],
                        'logp': float(lp), 'logp_expected': stated_log(nxt), 'q': None, 'q_expected': None, 'proposal': None}
                diff = [i for i in range(n) if (nxt[i], nxt[n + i]) != (prev[i], prev[n + i])]
                if len(acc) == 1 and len(drawn) == 3 and isinstance(drawn[0]['r'], int) and drawn[1]['r'] in ('X', 'Y', 'Z'):
                    # the three documented draws: qubit, Pauli, accept/reject with probability q
                    ei, eP = drawn[0]['r'], drawn[1]['r']
                    new = prev.copy()
                    new[ei] ^= int(eP in 'XY')
                    new[n + ei] ^= int(eP in 'ZY')
                    l0, l1 = stated_log(prev), stated_log(new)
                    rec_['q'] = acc[0]['p'][1]
                    rec_['q_expected'] = 0.0 if l1 == -math.inf else math.exp(min(0.0, l1 - l0))
                    rec_['proposal'] = [int(ei), eP]
                rec_['moved'] = diff
                res['metro'].append(rec_)
    json.dump(res, open(out, 'w'))
    print({k: len(v) for k, v in res.items()})


if __name__ == '__main__':
    main()
