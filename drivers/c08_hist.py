"""C08 driver: (1) histories of deform calls / property accesses on ONE object vs fresh objects;
(2) deformed noise model vs undeformed one permuted by the code's deformation dictionaries.
usage: c08_hist.py <out.json> <tier> <seed>"""
import json
import random
import sys

import numpy as np

sys.path.insert(0, __file__.rsplit('/', 1)[0])
import dump_codes as dc  # noqa: E402

ACCESS = ['stabilizer_matrix', 'logicals_x', 'logicals_z', 'd', 'k', 'n', 'qubit_index', 'x_indices',
          'is_css', 'Hx', 'stabilizer_index', 'n_stabilizers', 'stabilizer_types']


def snapshot(code):
    H = code.stabilizer_matrix.tocsr()
    rows = tuple(tuple(sorted(int(j) for j in H.indices[H.indptr[i]:H.indptr[i + 1]])) for i in range(H.shape[0]))
    lx = tuple(tuple(int(v) for v in r) for r in code.logicals_x)
    lz = tuple(tuple(int(v) for v in r) for r in code.logicals_z)
    snap = {'H': rows, 'lx': lx, 'lz': lz, 'd': int(code.d), 'k': int(code.k), 'n': int(code.n),
            'xi': tuple(bool(b) for b in code.x_indices), 'zi': tuple(bool(b) for b in code.z_indices)}
    if code.is_css:
        for nm in ('Hx', 'Hz'):
            M = getattr(code, nm).tocsr()
            snap[nm] = tuple(tuple(sorted(int(j) for j in M.indices[M.indptr[i]:M.indptr[i + 1]])) for i in range(M.shape[0]))
    return snap


def touch(code, prop):
    try:
        getattr(code, prop)
    except ValueError:
        pass  # Hx on a non-CSS (deformed) code raises by design


def main():
    out, tier, seed = sys.argv[1], sys.argv[2], int(sys.argv[3])
    import panqec.codes as pc
    from panqec.error_models import PauliErrorModel
    rng = random.Random(seed)
    res = {'histories': [], 'noise': []}
    sizes2 = [(2, 2), (3, 2), (2, 3), (3, 3)] if tier == 'quick' else [(2, 2), (3, 2), (2, 3), (3, 3), (4, 3), (4, 4), (2, 5)]
    sizes3 = [(2, 2, 2), (2, 3, 2), (3, 2, 2)] if tier == 'quick' else [(2, 2, 2), (2, 3, 2), (3, 2, 2), (2, 2, 3), (3, 3, 3), (2, 4, 2), (4, 2, 2)]
    n_hist = 6 if tier == 'quick' else 16
    for cls in dc.CLASSES_2D + dc.CLASSES_3D:
        klass = getattr(pc, cls)
        if not klass.deformation_names:
            continue
        choices = [(nm, ax) for nm in klass.deformation_names for ax in dc.AXES.get(cls, [None])]
        sizes = [s for s in (sizes2 if cls in dc.CLASSES_2D else sizes3 + [(2, 2, 4), (4, 4, 2), (2, 2, 3)])
                 if dc.supported(cls, s)][:len(sizes2 if cls in dc.CLASSES_2D else sizes3)]
        for size in sizes:
            fresh = {}

            def get_fresh(ch):
                if ch not in fresh:
                    c = klass(*size)
                    if ch is not None:
                        c.deform(ch[0], **({'deformation_axis': ch[1]} if ch[1] else {}))
                    fresh[ch] = snapshot(c)
                return fresh[ch]
            for h in range(n_hist):
                ops = []
                L = rng.randint(1, 5)
                for _ in range(L):
                    if rng.random() < 0.5:
                        ops.append(['deform', rng.randrange(len(choices))])
                    else:
                        ops.append(['access', rng.choice(ACCESS)])
                if h == 0:
                    ops = [['access', 'logicals_x'], ['access', 'd'], ['deform', 0]]
                if h == 1 and len(choices) > 0:
                    ops = [['deform', 0], ['deform', len(choices) - 1]]
                if h == 2:
                    ops = [['deform', 0], ['access', 'stabilizer_matrix'], ['deform', 0]]
                code = klass(*size)
                for kind, arg in ops:
                    if kind == 'deform':
                        nm, ax = choices[arg]
                        code.deform(nm, **({'deformation_axis': ax} if ax else {}))
                    else:
                        touch(code, arg)
                snap = snapshot(code)
                matches = [i for i, ch in enumerate([None] + choices) if get_fresh(ch) == snap]   # 0 = undeformed
                res['histories'].append({'cls': cls, 'size': list(size), 'ops': ops,
                                         'choices': [list(c) for c in choices], 'matches': matches})
            # bpauli.apply_deformation (the Hadamard on flagged qubits, as a function on binary vectors): for deformations that swap
            # X and Z on some qubits and leave the others alone, it must turn the undeformed tables into the deformed ones -
            # whatever way the flags are written (bool / int lists, bool / uint8 / int64 arrays)
            from panqec import bpauli as _bp
            for (nm, ax) in choices:
                kw = {'deformation_axis': ax} if ax else {}
                u, d_ = klass(*size), klass(*size)
                d_.deform(nm, **kw)
                dd = [u.get_deformation(q, nm, **kw) for q in u.qubit_coordinates]
                if not all(x in ({'X': 'X', 'Y': 'Y', 'Z': 'Z'}, {'X': 'Z', 'Y': 'Y', 'Z': 'X'}) for x in dd):
                    continue
                flags = [x['X'] == 'Z' for x in dd]
                Hu, Hd = u.stabilizer_matrix.toarray().astype('uint8'), d_.stabilizer_matrix.toarray().astype('uint8')
                lu, ld = np.asarray(u.logicals_x).astype('uint8')[0], np.asarray(d_.logicals_x).astype('uint8')[0]
                bad = []
                for form, fl in (('list of bool', list(flags)), ('list of int', [int(f) for f in flags]), ('bool array', np.array(flags, dtype=bool)),
                                 ('uint8 array', np.array(flags, dtype='uint8')), ('int64 array', np.array(flags, dtype='int64'))):
                    try:
                        if not np.array_equal(np.asarray(_bp.apply_deformation(fl, Hu)), Hd):
                            bad.append([form, '2-D stabilizer matrix'])
                        if not np.array_equal(np.asarray(_bp.apply_deformation(fl, lu)), ld):
                            bad.append([form, '1-D logical'])
                    except Exception as ex:
                        bad.append([form, 'raised %s: %s' % (type(ex).__name__, ex)])
                res.setdefault('apply_deformation', []).append({'cls': cls, 'size': list(size), 'name': nm, 'axis': ax, 'n_flagged': int(sum(flags)),
                                                                  'bad': bad[:4]})
            # noise side, dyadic parameters (exact float arithmetic)
            c_shared = klass(*size)      # ONE code object queried by all the noise models below (same name and direction, other axis)
            for (nm, ax) in choices:
                for (rx, ry, rz, p) in [(0.125, 0.25, 0.625, 0.25), (0.0, 0.5, 0.5, 0.5), (1.0, 0.0, 0.0, 0.125),
                                        # directions with two equal components (a relabelling that moves Y is visible only then)
                                        (0.25, 0.5, 0.25, 0.25), (0.0, 1.0, 0.0, 0.5), (0.375, 0.375, 0.25, 0.125)]:
                    c = c_shared
                    kw = {'deformation_axis': ax} if ax else {}
                    und = PauliErrorModel(rx, ry, rz).probability_distribution(c, p)
                    dfm = PauliErrorModel(rx, ry, rz, deformation_name=nm, deformation_kwargs=kw).probability_distribution(c, p)
                    bad = []
                    for i, q in enumerate(c.qubit_coordinates):
                        D = c.get_deformation(q, nm, **kw)
                        pu = {'X': und[1][i], 'Y': und[2][i], 'Z': und[3][i]}
                        pd = {'X': dfm[1][i], 'Y': dfm[2][i], 'Z': dfm[3][i]}
                        for s in 'XYZ':
                            if pd[s] != pu[D[s]] or dfm[0][i] != und[0][i]:
                                bad.append([i, s, float(pd[s]), D[s], float(pu[D[s]])])
                    res['noise'].append({'cls': cls, 'size': list(size), 'name': nm, 'axis': ax,
                                         'direction': [rx, ry, rz], 'p': p, 'n': int(c.n), 'bad': bad[:5]})
    json.dump(res, open(out, 'w'))
    print(len(res['histories']), 'histories', len(res['noise']), 'noise cases')


if __name__ == '__main__':
    main()
