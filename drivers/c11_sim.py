"""C11 driver: recorded trials (run_once with a seeded generator), DirectSimulation bookkeeping under interleavings,
reproducibility, calibration against the exact failure probability.  usage: c11_sim.py <out.json> <tier> <seed>"""
import contextlib
import io
import itertools
import json
import math
import random
import sys
from fractions import Fraction

import numpy as np

sys.path.insert(0, __file__.rsplit('/', 1)[0])
import dump_codes as dc  # noqa: E402


def rows(v, n):
    v = np.asarray(v)
    return {'x': [int(i) for i in np.nonzero(v[:n])[0]], 'z': [int(i) for i in np.nonzero(v[n:])[0]]}


def model_channel(code, rx, ry, rz, p, name, kw):
    """per-qubit (pI,pX,pY,pZ) from the property statement, NOT from the implementation"""
    out = []
    base = {'X': p * rx, 'Y': p * ry, 'Z': p * rz}
    for q in code.qubit_coordinates:
        d = code.get_deformation(q, name, **kw) if name else {'X': 'X', 'Y': 'Y', 'Z': 'Z'}
        out.append((1 - p, base[d['X']], base[d['Y']], base[d['Z']]))
    return out


def main():
    out, tier, seed = sys.argv[1], sys.argv[2], int(sys.argv[3])
    import panqec.codes as pc
    from panqec.error_models import PauliErrorModel
    from panqec.decoders import MatchingDecoder, BeliefPropagationOSDDecoder, UnionFindDecoder
    from panqec.simulation import DirectSimulation
    from panqec.simulation._direct_simulation import run_once
    rng = random.Random(seed)
    res = {'records': [], 'book': [], 'repro': [], 'calib': []}
    import os
    os.makedirs(out + '.dump', exist_ok=True)
    setups = [
        ('Toric2DCode', (3, 3), None, None, lambda c, e, p: MatchingDecoder(c, e, p), 'Matching', (1 / 3, 1 / 3, 1 / 3), 0.15),
        ('RotatedPlanar2DCode', (3, 3), None, None, lambda c, e, p: MatchingDecoder(c, e, p, error_type='X'), 'Matching(X only)', (1 / 3, 1 / 3, 1 / 3), 0.3),
        ('Toric2DCode', (3, 3), None, None, lambda c, e, p: MatchingDecoder(c, e, p, error_type='X'), 'Matching(X only)', (1 / 3, 1 / 3, 1 / 3), 0.3),
        ('Planar2DCode', (3, 2), 'XZZX', None, lambda c, e, p: BeliefPropagationOSDDecoder(c, e, p, max_bp_iter=10, osd_order=0), 'BP-OSD', (0.1, 0.1, 0.8), 0.2),
        ('Toric3DCode', (2, 2, 2), None, None, lambda c, e, p: BeliefPropagationOSDDecoder(c, e, p, max_bp_iter=10, osd_order=0), 'BP-OSD', (0.25, 0.25, 0.5), 0.1),
        ('Toric2DCode', (2, 3), None, None, lambda c, e, p: UnionFindDecoder(c, e, p), 'UnionFind', (0.5, 0.0, 0.5), 0.1),
        # both ends of the rate range: every trial fails (X on every qubit is a logical operator here) / no trial fails
        ('RotatedPlanar2DCode', (3, 3), None, None, lambda c, e, p: MatchingDecoder(c, e, p), 'Matching', (1.0, 0.0, 0.0), 1.0),
        ('Planar2DCode', (2, 2), None, None, lambda c, e, p: MatchingDecoder(c, e, p), 'Matching', (1 / 3, 1 / 3, 1 / 3), 0.0),
    ]
    ntr = 40 if tier == 'quick' else 300
    for (cls, size, dn, ax, mk, dname, r, p) in setups:
        code = getattr(pc, cls)(*size)
        kw = {'deformation_axis': ax} if ax else {}
        if dn:
            code.deform(dn, **kw)
        em = PauliErrorModel(*r, deformation_name=dn, deformation_kwargs=kw)
        dec = mk(code, em, p)
        n = code.n
        sd = rng.randrange(10 ** 6)
        g = np.random.default_rng(sd)
        recs = []
        with contextlib.redirect_stdout(io.StringIO()):
            for t in range(ntr):
                s = run_once(code, em, dec, p, rng=g)
                recs.append({'error': rows(s['error'], n), 'correction': rows(np.asarray(s['correction']) % 2, n),
                             'corr_binary': bool(set(np.unique(s['correction'])) <= {0, 1}) and len(s['correction']) == 2 * n,
                             'syndrome': [int(b) for b in np.asarray(s['syndrome']).ravel()],
                             'effective': [int(b) for b in np.asarray(s['effective_error']).ravel()],
                             'codespace': bool(s['codespace']), 'success': bool(s['success'])})
            # the same seed through DirectSimulation, split into run(k) calls
            ks = []
            left = ntr
            while left > 0:
                k = min(left, rng.randint(1, 9))
                ks.append(k)
                left -= k
            sim = DirectSimulation(code, em, mk(code, em, p), p, verbose=False, rng=np.random.default_rng(sd))
            lens = []
            partials = []
            for k in ks:
                sim.run(k)
                rr = sim.results
                lens.append([int(rr['n_runs']), len(rr['effective_error']), len(rr['success']), len(rr['codespace'])])
                g_ = sim.get_results()       # the summary asked for after every run(k) call, not only at the end
                partials.append([int(g_['n_runs']), int(g_['n_fail']), int(g_['n_success']), float(g_['p_est']),
                                 int(sum(1 for s_ in rr['success'] if not s_))])
            gr = sim.get_results()
            sim2 = DirectSimulation(code, em, mk(code, em, p), p, verbose=False, rng=np.random.default_rng(sd))
            sim2.run(ntr)
        tag = '%s_%s_%s_%s' % (cls, 'x'.join(map(str, size)), (dn or 'none'), ax or 'def')
        dc.dump_instance((cls, size, dn, ax, out + '.dump'))
        res['records'].append({'tag': tag, 'cls': cls, 'size': list(size), 'deformation': dn, 'axis': ax, 'decoder': dname, 'seed': sd,
                               'trials': recs})
        same = lambda a, b: [np.asarray(x).tolist() for x in a] == [np.asarray(x).tolist() for x in b]
        res['book'].append({'tag': tag, 'decoder': dname, 'ks': ks, 'lens': lens, 'partials': partials,
                            'n_fail': int(gr['n_fail']), 'n_runs': int(gr['n_runs']), 'n_success': int(gr['n_success']), 'p_est': float(gr['p_est']),
                            'p_se': float(gr['p_se']),
                            'sim_eff': [np.asarray(x).astype(int).tolist() for x in sim.results['effective_error']],
                            'sim_succ': [bool(x) for x in sim.results['success']], 'sim_cs': [bool(x) for x in sim.results['codespace']]})
        res['repro'].append({'tag': tag, 'decoder': dname, 'seed': sd,
                             'equal': same(sim.results['effective_error'], sim2.results['effective_error'])
                             and list(map(bool, sim.results['success'])) == list(map(bool, sim2.results['success']))
                             and list(map(bool, sim.results['codespace'])) == list(map(bool, sim2.results['codespace']))})
        # the same with the legacy generators a seed can be given through (RandomState object; the seeded np.random module)
        for kind in ('RandomState', 'np.random module'):
            def mkrng(kind=kind):
                if kind == 'RandomState':
                    return np.random.RandomState(sd % 2 ** 32)
                np.random.seed(sd % 2 ** 32)
                return np.random
            try:
                with contextlib.redirect_stdout(io.StringIO()):
                    sa = DirectSimulation(code, em, mk(code, em, p), p, verbose=False, rng=mkrng())
                    sa.run(min(ntr, 12))
                    sb = DirectSimulation(code, em, mk(code, em, p), p, verbose=False, rng=mkrng())
                    sb.run(5)
                    sb.run(min(ntr, 12) - 5)
                eq = (same(sa.results['effective_error'], sb.results['effective_error'])
                      and list(map(bool, sa.results['success'])) == list(map(bool, sb.results['success']))
                      and list(map(bool, sa.results['codespace'])) == list(map(bool, sb.results['codespace'])))
                res['repro'].append({'tag': tag, 'decoder': dname + ' / rng given as ' + kind, 'seed': sd, 'equal': eq})
            except Exception as ex:
                res['repro'].append({'tag': tag, 'decoder': dname + ' / rng given as ' + kind, 'seed': sd, 'equal': False,
                                     'error': '%s: %s' % (type(ex).__name__, ex)})
    # calibration: exact failure probability by enumeration of all 4^n errors vs seeded frequency.
    # ONE error-model object per noise setting is reused across several codes (as a batch run does).
    ncal = 3000 if tier == 'quick' else 20000
    cal_sets = [
        ((0.1, 0.1, 0.8), 'XZZX', {}, 0.25, [('RotatedPlanar2DCode', (2, 3)), ('RotatedPlanar2DCode', (3, 2)), ('Planar2DCode', (2, 2))],
         lambda c, e, p: BeliefPropagationOSDDecoder(c, e, p, max_bp_iter=8, osd_order=0), 'BP-OSD'),
        ((1 / 3, 1 / 3, 1 / 3), None, {}, 0.2, [('RotatedPlanar2DCode', (2, 2)), ('Planar2DCode', (2, 2)), ('RotatedPlanar2DCode', (2, 3))],
         lambda c, e, p: MatchingDecoder(c, e, p), 'Matching'),
        # a deformation that is not an X/Z swap (XY: Y<->Z) under noise with r_x = r_z != r_y
        ((0.1, 0.8, 0.1), 'XY', {}, 0.25, [('Planar2DCode', (2, 2)), ('RotatedPlanar2DCode', (2, 3)), ('Toric2DCode', (2, 2))],
         lambda c, e, p: MatchingDecoder(c, e, p), 'Matching'),
        # the same deformation with two different axis values, one after the other on codes with the same label (Z-biased noise on a
        # lattice that is not self-dual, so the two channels give different failure rates)
        ((0.05, 0.05, 0.9), 'XZZX', {'deformation_axis': 'x'}, 0.2, [('RotatedPlanar2DCode', (2, 3))],
         lambda c, e, p: MatchingDecoder(c, e, p), 'Matching'),
        ((0.05, 0.05, 0.9), 'XZZX', {'deformation_axis': 'y'}, 0.2, [('RotatedPlanar2DCode', (2, 3))],
         lambda c, e, p: MatchingDecoder(c, e, p), 'Matching'),
        # whole numbers written as Python ints (direction with int 0, error rate int 1), deformed
        ((0, 0.5, 0.5), 'XZZX', {}, 1, [('Planar2DCode', (2, 2)), ('RotatedPlanar2DCode', (3, 3))],
         lambda c, e, p: MatchingDecoder(c, e, p), 'Matching'),
        # deformations that depend on the POSITION of a qubit, not only on its orientation (rhombic, colour codes)
        ((0.75, 0.0, 0.25), 'Checkerboard XZZX', {}, 0.2, [('RhombicPlanarCode', (2, 2, 1))],
         lambda c, e, p: BeliefPropagationOSDDecoder(c, e, p, max_bp_iter=8, osd_order=0), 'BP-OSD'),
        ((1.0, 0.0, 0.0), 'Checkerboard XZZX', {}, 0.15, [('RhombicPlanarCode', (2, 2, 2))],
         lambda c, e, p: BeliefPropagationOSDDecoder(c, e, p, max_bp_iter=8, osd_order=0), 'BP-OSD'),
        ((0.75, 0.0, 0.25), 'XXZZ', {}, 0.2, [('Color488Code', (1, 1))],
         lambda c, e, p: BeliefPropagationOSDDecoder(c, e, p, max_bp_iter=8, osd_order=0), 'BP-OSD'),
    ]
    if tier == 'thorough':
        cal_sets.append(((0.0, 0.0, 1.0), 'XZZX', {'deformation_axis': 'x'}, 0.3, [('Toric2DCode', (2, 2)), ('RotatedPlanar2DCode', (3, 3))],
                         lambda c, e, p: MatchingDecoder(c, e, p), 'Matching'))
    for (r, dn, kw, p, codes, mk, dname) in cal_sets:
        em = PauliErrorModel(*r, deformation_name=dn, deformation_kwargs=kw)
        for cls, size in codes:
            code = getattr(pc, cls)(*size)
            n = code.n
            dec = mk(code, em, p)
            ch = model_channel(code, r[0], r[1], r[2], p, dn, kw)
            # per qubit: the Paulis (as (x bit, z bit)) the stated channel gives a non-zero probability
            opts = [[((0, 0), c_[0]), ((1, 0), c_[1]), ((1, 1), c_[2]), ((0, 1), c_[3])] for c_ in ch]
            opts = [[o for o in ol if o[1] > 0] for ol in opts]
            total = 1
            for ol in opts:
                total *= len(ol)
            if total > 70000:
                continue
            exact = 0.0
            with contextlib.redirect_stdout(io.StringIO()):
                cache = {}
                for combo in itertools.product(*opts):
                    e = np.zeros(2 * n, dtype='uint8')
                    pr = 1.0
                    for i, ((xb, zb), pq) in enumerate(combo):
                        e[i], e[n + i] = xb, zb
                        pr *= pq
                    syn = code.measure_syndrome(e)
                    key = syn.tobytes()
                    if key not in cache:
                        cache[key] = np.asarray(dec.decode(syn)) % 2
                    tot = (e + cache[key]) % 2
                    if not code.is_success(tot):
                        exact += pr
                sim = DirectSimulation(code, em, mk(code, em, p), p, verbose=False, rng=np.random.default_rng(rng.randrange(10 ** 6)))
                # rare failures need more trials for the same resolving power
                ncal_here = ncal * (4 if exact < 0.1 else 1)
                sim.run(ncal_here)
            g = sim.get_results()
            res['calib'].append({'cls': cls, 'size': list(size), 'deformation': dn, 'direction': list(r), 'p': p, 'decoder': dname,
                                 'exact': exact, 'freq': float(g['p_est']), 'n': ncal_here})
    json.dump(res, open(out, 'w'))
    print({k: len(v) for k, v in res.items()})


if __name__ == '__main__':
    main()
