"""C12 driver: stop/restart chains on the real BatchSimulation with injected KeyboardInterrupts and kills.
usage: c12_resume.py <out.json> <tier> <seed>"""
import gzip
import json
import os
import random
import subprocess
import sys
import tempfile
from multiprocessing.pool import ThreadPool

CHILD = os.path.join(os.path.dirname(os.path.abspath(__file__)), 'c12_child.py')


def read_state(path):
    """what is on disk: list of (key json, lengths, lists) or 'absent' / 'unreadable: ...'"""
    if not os.path.exists(path):
        return 'absent'
    try:
        if path.endswith('.gz'):
            data = json.loads(gzip.open(path, 'rb').read().decode())
        else:
            data = json.load(open(path))
    except Exception as ex:
        return 'unreadable: %s: %s' % (type(ex).__name__, ex)
    out = []
    for e in (data if isinstance(data, list) else [data]):
        r = e['results']
        out.append({'size': e['inputs']['code']['parameters']['L_x'], 'rate': e['inputs']['error_rate'],
                    'dec': str(e['inputs']['decoder']['parameters'].get('error_type')) + ('+weights' if e['inputs']['decoder']['parameters'].get('weights') is not None else ''),
                    'n_runs': r['n_runs'], 'lens': [len(r['effective_error']), len(r['success']), len(r['codespace'])],
                    'eff': r['effective_error'], 'succ': r['success'], 'cs': r['codespace']})
    return out


def run_child(args):
    p = subprocess.run([sys.executable, CHILD, json.dumps(args)], capture_output=True, text=True, timeout=600)
    return p.returncode, p.stderr[-1500:]


def scenario(sc):
    with tempfile.TemporaryDirectory() as tmp:
        out = os.path.join(tmp, 'results.json' + ('.gz' if sc['gz'] else ''))
        steps = []
        for st in sc['steps']:
            a = {'out': out, 'sizes': st['sizes'], 'rates': st['rates'], 'decs': st.get('decs', [{}]), 'target': st['target'],
                 'save_freq': st['save_freq'], 'event': st['event']}
            before = read_state(out)
            rc, err = run_child(a)
            after = read_state(out)
            try:
                executed = int(open(out + '.executed').read())
                os.remove(out + '.executed')
            except Exception:
                executed = None
            leftovers = sorted(f for f in os.listdir(tmp) if f != os.path.basename(out))
            steps.append({'args': {k: v for k, v in a.items() if k != 'out'}, 'rc': rc, 'stderr': err if rc not in (0, 9) else '',
                          'before': before, 'after': after, 'leftovers': leftovers, 'executed': executed})
        return {'gz': sc['gz'], 'steps': steps}


def main():
    out, tier, seed = sys.argv[1], sys.argv[2], int(sys.argv[3])
    rng = random.Random(seed)
    scs = []
    bases = [{'sizes': [2, 3], 'rates': [0.1]},
             # two simulations that differ ONLY in the decoder parameters (high rate: their results differ visibly)
             {'sizes': [3], 'rates': [0.3], 'decs': [{}, {'error_type': 'X'}]},
             # a decoder parameter that is a nested list in the specification (explicit matching weights for the 18 qubits of 3x3)
             {'sizes': [3], 'rates': [0.1, 0.3], 'decs': [{'weights': [[1.0 + 0.25 * (i % 3) for i in range(18)], [1.0] * 18]}]}]
    # systematic: every trial boundary, every byte-offset class of a checkpoint write, both container kinds
    for gz in (False, True):
        for f in (1, 2, 3):
            T = 5
            base = bases[(f + gz) % 3] if f < 3 else bases[rng.randrange(3)]
            for kind, ats in (('kbd_trial', range(1, 2 * T + 1, 1 if tier == 'thorough' else 3)), ('kill_trial', range(1, 2 * T + 1, 3)),
                              ('kbd_save', (1, 2)), ('kill_after_save', (1, 2))):
                for at in ats:
                    scs.append({'gz': gz, 'steps': [dict(base, target=T, save_freq=f, event={'kind': kind, 'at': at}),
                                                   dict(base, target=T + rng.choice([0, 2]), save_freq=rng.choice([1, 2, 3]), event={'kind': 'none'})]})
            for at in (1, 2):
                for b in (0, 1, 40, 200, 100000, -1):
                    scs.append({'gz': gz, 'steps': [dict(base, target=T, save_freq=f, event={'kind': 'kill_write', 'at': at, 'bytes': b}),
                                                   dict(base, target=T, save_freq=f, event={'kind': 'none'})]})
    if tier == 'quick':
        rng.shuffle(scs)
        scs = scs[:70]
    # a kill right before each file-system mutation of a RESUMED run (the results file already exists)
    for gz in (False, True):
        for at in (1, 2, 3, 4):
            scs.append({'gz': gz, 'steps': [dict(bases[0], target=3, save_freq=1, event={'kind': 'none'}),
                                           dict(bases[0], target=6, save_freq=2, event={'kind': 'kill_fs', 'at': at}),
                                           dict(bases[0], target=6, save_freq=2, event={'kind': 'none'})]})
    # stop at a trial boundary and restart IN THE SAME PROCESS (save frequency above 1: trials since the last checkpoint are lost and redone)
    for gz in (False, True):
        for at in (3, 6, 8):
            scs.append({'gz': gz, 'steps': [dict(bases[0], target=4, save_freq=3, event={'kind': 'none'}),
                                           dict(bases[0], target=10, save_freq=3, event={'kind': 'kbd_trial', 'at': at, 'resume_in_process': True})]})
    # smallest targets: a run of ONE trial must leave its trial on disk, and a later run must resume from it
    for gz in (False, True):
        for f in (1, 3):
            scs.append({'gz': gz, 'steps': [dict(bases[0], target=1, save_freq=f, event={'kind': 'none'}),
                                           dict(bases[0], target=rng.choice([1, 2, 3]), save_freq=f, event={'kind': 'none'})]})
    # growing specifications and chains
    for _ in range(10 if tier == 'quick' else 60):
        gz = rng.random() < 0.5
        T1 = rng.randint(1, 6)
        sizes0 = rng.choice([[2], [2, 3], [2, 3]])
        rates0 = rng.choice([[0.1], [0.1], [0.1, 0.3]])
        # decoder axis: one or two parameter sets of the SAME decoder class (records differ only in the decoder parameters)
        decs0 = rng.choice([[{}], [{}], [{}, {'error_type': 'X'}], [{'error_type': 'Z'}, {}]])
        steps = [dict(sizes=sizes0, rates=rates0, decs=decs0, target=T1, save_freq=rng.choice([1, 2, 3]),
                      event=rng.choice([{'kind': 'none'}, {'kind': 'kbd_trial', 'at': rng.randint(1, T1)}, {'kind': 'kill_write', 'at': 1, 'bytes': rng.choice([0, 30, 100000])}]))]
        # the specification grows: a size and/or a rate is appended (appending a rate shifts the position of every later code's records)
        grown_sizes = sizes0 + ([max(sizes0) + 1] if rng.random() < 0.5 else [])
        grown_rates = rates0 + ([0.2] if rng.random() < 0.6 else [])
        grown_decs = decs0 + ([{'error_type': 'X'}] if (len(decs0) == 1 and decs0[0] == {} and rng.random() < 0.4) else [])
        T2 = T1 + rng.randint(0, 4)
        if rng.random() < 0.5:
            steps.append(dict(sizes=grown_sizes, rates=grown_rates, decs=grown_decs, target=T2, save_freq=rng.choice([1, 2]),
                              event={'kind': rng.choice(['kbd_trial', 'kill_trial']), 'at': rng.randint(1, 6)}))
        steps.append(dict(sizes=grown_sizes, rates=grown_rates, decs=grown_decs, target=T2 + rng.randint(0, 3), save_freq=rng.choice([1, 2, 3]), event={'kind': 'none'}))
        scs.append({'gz': gz, 'steps': steps})
    with ThreadPool(16) as pool:
        res = pool.map(scenario, scs)
    json.dump(res, open(out, 'w'))
    print(len(res), 'scenarios')


if __name__ == '__main__':
    main()
