"""C04 driver: the implementation's in_codespace / logical_errors / is_logical_error / is_success on
chosen residual errors, per dumped instance.
usage: c04_errors.py <dumpdir> <outdir> <seed> <brute_n> <max_n> [--jobs N]"""
import json
import os
import random
import sys
from multiprocessing import Pool

import numpy as np


def build(rec):
    import panqec.codes as pc
    code = getattr(pc, rec['cls'])(*rec['size'])
    if rec['deformation']:
        kw = {}
        if rec['axis']:
            kw['deformation_axis'] = rec['axis']
        code.deform(rec['deformation'], **kw)
    return code


def vec(n, xs, zs):
    e = np.zeros(2 * n, dtype='uint8')
    for i in xs:
        e[i] ^= 1
    for i in zs:
        e[n + i] ^= 1
    return e


def row_vec(n, r):
    return vec(n, r['x'], r['z'])


def observe(code, e):
    n = code.n
    le = code.logical_errors(e)
    return {'x': [int(i) for i in np.nonzero(e[:n])[0]], 'z': [int(i) for i in np.nonzero(e[n:])[0]],
            'cs': bool(code.in_codespace(e)), 'le': [int(b) for b in np.asarray(le).ravel()],
            'ile': bool(code.is_logical_error(e)), 'ok': bool(code.is_success(e))}


def work(args):
    tag, dumpdir, outdir, seed, brute_n, max_n = args
    rec = json.load(open(os.path.join(dumpdir, tag + '.json')))
    if not rec.get('ok') or rec['n'] > max_n:
        return tag, 0, 0
    rng = random.Random('%s/%d' % (tag, seed))
    code = build(rec)
    n, m, k = rec['n'], len(rec['H']), rec['k']
    out = {'tag': tag, 'cases': [], 'kinds': {}}
    H = [row_vec(n, r) for r in rec['H']]
    L = [row_vec(n, r) for r in rec['lx']] + [row_vec(n, r) for r in rec['lz']]

    def add(kind, e):
        out['cases'].append(observe(code, e % 2))
        out['kinds'][kind] = out['kinds'].get(kind, 0) + 1

    add('zero', np.zeros(2 * n, dtype='uint8'))
    for j in rng.sample(range(2 * n), min(2 * n, 6)):
        e = np.zeros(2 * n, dtype='uint8')
        e[j] = 1
        add('unit', e)
    for i in rng.sample(range(m), min(m, 4)):
        add('generator', H[i])
    for l in L:
        add('logical', l)
    for _ in range(6):
        e = np.zeros(2 * n, dtype='uint8')
        for i in rng.sample(range(m), rng.randint(1, min(m, 8))):
            e = (e + H[i]) % 2
        add('stabilizer_product', e)
        if L:
            e2 = e.copy()
            for j in rng.sample(range(len(L)), rng.randint(1, len(L))):
                e2 = (e2 + L[j]) % 2
            add('stabilizer_times_logical', e2)
    for _ in range(5):
        p = rng.choice([0.02, 0.1, 0.3, 0.5])
        e = np.array([1 if rng.random() < p else 0 for _ in range(2 * n)], dtype='uint8')
        add('random', e)
    for _ in range(3):
        e = np.zeros(2 * n, dtype='uint8')
        for i in rng.sample(range(m), rng.randint(1, min(m, 5))):
            e = (e + H[i]) % 2
        j = rng.randrange(2 * n)
        e[j] ^= 1
        add('stabilizer_times_unit', e)
    # (i) the batch (2-D) path of logical_errors must agree row by row with the single-error path
    E = np.array([vec(n, o['x'], o['z']) for o in out['cases']], dtype='uint8')
    try:
        B = np.asarray(code.logical_errors(E))
        out['batch_le'] = [[int(b) for b in row] for row in B.reshape(len(out['cases']), -1)]
    except Exception as ex:
        out['batch_error'] = '%s: %s' % (type(ex).__name__, ex)
    # (v) read every cached property of the object (d, k, n, the matrices, the masks: what a simulation's constructor and its
    # result record do) and ask again: the answers must not have changed
    for prop in ('n', 'k', 'd', 'stabilizer_matrix', 'logicals_x', 'logicals_z', 'is_css', 'x_indices', 'z_indices', 'Hx', 'Hz',
                 'stabilizer_types', 'qubit_index', 'stabilizer_index', 'label', 'id', 'params'):
        try:
            getattr(code, prop)
        except Exception:
            pass
    ap = []
    for ci, o in enumerate(out['cases'][:25]):
        o2 = observe(code, vec(n, o['x'], o['z']))
        if o2 != o:
            ap.append({'case': ci, 'x': o['x'], 'z': o['z'], 'before': {k_: o[k_] for k_ in ('cs', 'le', 'ile', 'ok')},
                       'after': {k_: o2[k_] for k_ in ('cs', 'le', 'ile', 'ok')}})
            break
    out['after_props_diff'] = ap
    # (iii) the same residual error handed over in the other shapes the methods accept: dense (1, 2n), int64, csr row, and a
    # csr row with explicitly STORED zeros (what `total = correction + error; total.data %= 2` leaves behind)
    from scipy.sparse import csr_matrix as _csr

    def forms(e):
        e = np.asarray(e, dtype='uint8')
        yield 'dense(1,2n)', e.reshape(1, -1)
        yield 'int64', e.astype('int64')
        yield 'csr', _csr(e.reshape(1, -1))
        a = np.zeros(2 * n, dtype='uint8')
        for j in rng.sample(range(2 * n), min(2 * n, 3)):
            a[j] = 1
        t = (_csr(a.reshape(1, -1)) + _csr(((e + a) % 2).reshape(1, -1))).tocsr()     # = e + 2a: entries 2 become stored zeros
        t.data %= 2
        yield 'csr with stored zeros', t
    fd = []
    for ci, o in enumerate(out['cases'][:40]):
        e = vec(n, o['x'], o['z'])
        for form, arg in forms(e):
            try:
                got = {'cs': bool(code.in_codespace(arg)), 'le': [int(b) for b in np.asarray(code.logical_errors(arg)).ravel()],
                       'ile': bool(code.is_logical_error(arg)), 'ok': bool(code.is_success(arg))}
            except Exception as ex:
                got = {'exception': '%s: %s' % (type(ex).__name__, ex)}
            exp = {k_: o[k_] for k_ in ('cs', 'le', 'ile', 'ok')}
            if got != exp:
                fd.append({'case': ci, 'form': form, 'got': got, 'dense': exp, 'x': o['x'], 'z': o['z']})
                break
        if len(fd) >= 3:
            break
    out['form_diff'] = fd
    # (iv) run_once, the place where a trial's verdict is formed: a scripted noise model hands it chosen errors (the zero error,
    # generators, logicals, stabilizer x logical, random) and a scripted decoder returns the zero correction, so that the residual
    # error IS the chosen one; its success / codespace / effective error must be what the code object says about that error
    try:
        from panqec.simulation._direct_simulation import run_once

        class _Noise:
            def __init__(self):
                self.e = None

            def generate(self, code, error_rate, rng=None):
                return self.e.copy()

        class _Dec:
            def decode(self, syndrome, **kw):
                return np.zeros(2 * n, dtype='uint8')
        nm_, dc_ = _Noise(), _Dec()
        ro = []
        for ci, o in enumerate(out['cases'][:60]):
            nm_.e = vec(n, o['x'], o['z'])
            r_ = run_once(code, nm_, dc_, 0.1, rng=np.random.default_rng(0))
            got = {'ok': bool(r_['success']), 'cs': bool(r_['codespace']), 'le': [int(b) for b in np.asarray(r_['effective_error']).ravel()]}
            exp = {'ok': o['ok'], 'cs': o['cs'], 'le': o['le']}
            if got != exp:
                ro.append({'case': ci, 'x': o['x'], 'z': o['z'], 'run_once': got, 'code_object': exp})
                if len(ro) >= 3:
                    break
        out['run_once_diff'] = ro
    except Exception as ex:
        out['run_once_diff'] = [{'case': -1, 'x': [], 'z': [], 'run_once': {'exception': '%s: %s' % (type(ex).__name__, ex)}, 'code_object': {}}]
    # (ii) an object that was USED before being deformed must answer like a fresh one
    if rec['deformation']:
        import panqec.codes as pc
        c2 = getattr(pc, rec['cls'])(*rec['size'])
        z = np.zeros(2 * n, dtype='uint8')
        c2.logical_errors(z), c2.is_success(z), c2.in_codespace(z), c2.is_logical_error(z)
        c2.deform(rec['deformation'], **({'deformation_axis': rec['axis']} if rec['axis'] else {}))
        diffs = []
        for o in out['cases']:
            o2 = observe(c2, vec(n, o['x'], o['z']))
            if o2 != o:
                diffs.append({'fresh': o, 'used_then_deformed': o2})
                break
        out['used_diff'] = diffs
    nb = 0
    if n <= brute_n:
        # every Pauli operator on the code: sets of operators reported in the code space / successful
        cs, ok, le_cs = [], [], []
        for v in range(4 ** n):
            e = np.array([(v >> i) & 1 for i in range(2 * n)], dtype='uint8')  # bit i of v = entry i
            if code.in_codespace(e):
                cs.append(v)
                le_cs.append(''.join(str(int(b)) for b in np.asarray(code.logical_errors(e)).ravel()))
            if code.is_success(e):
                ok.append(v)
            nb += 1
        out['brute'] = {'n': n, 'codespace': cs, 'success': ok, 'le_codespace': le_cs}
    with open(os.path.join(outdir, tag + '.json'), 'w') as f:
        json.dump(out, f)
    return tag, len(out['cases']), nb


def main():
    dumpdir, outdir, seed, brute_n, max_n = sys.argv[1], sys.argv[2], int(sys.argv[3]), int(sys.argv[4]), int(sys.argv[5])
    jobs = 16
    if '--jobs' in sys.argv:
        jobs = int(sys.argv[sys.argv.index('--jobs') + 1])
    os.makedirs(outdir, exist_ok=True)
    idx = json.load(open(os.path.join(dumpdir, 'INDEX.json')))
    with Pool(jobs) as pool:
        res = pool.map(work, [(i['tag'], dumpdir, outdir, seed, brute_n, max_n) for i in idx], chunksize=2)
    json.dump(res, open(os.path.join(outdir, 'INDEX.json'), 'w'))
    print('cases', sum(r[1] for r in res), 'brute', sum(r[2] for r in res))


if __name__ == '__main__':
    main()
