"""One batch run with an injected stop.  usage: c12_child.py <json args>
args: {out, sizes, rates, target, save_freq, event: {kind, ...}}
event kinds: none | kbd_trial (at=j: KeyboardInterrupt in the j-th run_once call) | kbd_save (at=j: KeyboardInterrupt inside the j-th
save_json call, before writing) | kill_trial (at=j: os._exit in the j-th run_once call) | kill_write (at=j, bytes=b: os._exit after b bytes
of the j-th checkpoint write; b=-1: after the write completed but before the function returns) | kill_after_save (at=j)"""
import contextlib
import io
import json
import os
import sys


def main():
    a = json.loads(sys.argv[1])
    import panqec.simulation._direct_simulation as ds
    import panqec.simulation._batch_simulation as bs
    import panqec.simulation._base_simulation as base
    import panqec.utils as U
    from panqec.simulation import read_input_dict
    ev = a['event']
    calls = {'trial': 0, 'save': 0}
    real_run_once = ds.run_once

    side = a['out'] + '.executed'

    def note():
        try:
            with open(side, 'w') as f_:
                f_.write(str(calls['done']))
        except Exception:
            pass
    calls['done'] = 0

    def run_once(*args, **kw):
        calls['trial'] += 1
        if ev['kind'] == 'kbd_trial' and calls['trial'] == ev['at']:
            raise KeyboardInterrupt()
        if ev['kind'] == 'kill_trial' and calls['trial'] == ev['at']:
            os._exit(9)
        r_ = real_run_once(*args, **kw)
        calls['done'] += 1
        note()
        return r_
    note()
    ds.run_once = run_once

    real_save = U.save_json
    state = {'armed': False}

    class Killer:
        def __init__(self, f, limit):
            self.f, self.n, self.limit = f, 0, limit

        def write(self, b):
            k = max(0, min(len(b), self.limit - self.n))
            self.f.write(b[:k])
            self.n += k
            if self.n >= self.limit:
                self.f.flush()
                os._exit(9)
            return len(b)

        def __getattr__(self, name):
            return getattr(self.f, name)

        def __enter__(self):
            return self

        def __exit__(self, *x):
            return self.f.__exit__(*x)

    import builtins
    import gzip
    real_open, real_gz = builtins.open, gzip.open

    def fake_open(file, mode='r', *x, **k):
        f = real_open(file, mode, *x, **k)
        if state['armed'] and 'w' in mode and ev.get('bytes', -1) >= 0:
            return Killer(f, ev['bytes'])
        return f

    def fake_gz(file, mode='rb', *x, **k):
        f = real_gz(file, mode, *x, **k)
        if state['armed'] and 'w' in mode and ev.get('bytes', -1) >= 0:
            f.fileobj = Killer(f.fileobj, ev['bytes'])
        return f

    def save_json(data, file):
        calls['save'] += 1
        if ev['kind'] == 'kbd_save' and calls['save'] == ev['at']:
            raise KeyboardInterrupt()
        if ev['kind'] == 'kill_write' and calls['save'] == ev['at']:
            state['armed'] = True
            U.open = fake_open
            U.gzip.open = fake_gz
            try:
                real_save(data, file)
            finally:
                state['armed'] = False
            os._exit(9)      # bytes == -1: write (and rename, if any) finished, killed before returning
        r = real_save(data, file)
        if ev['kind'] == 'kill_after_save' and calls['save'] == ev['at']:
            os._exit(9)
        return r
    U.save_json = save_json
    bs.save_json = save_json
    base.save_json = save_json
    if ev['kind'] == 'kill_fs':
        # the process dies right BEFORE its at-th file-system mutation (remove / unlink / rename / replace), whoever issues it
        cnt = {'n': 0}
        for fn in ('remove', 'unlink', 'rename', 'replace'):
            real = getattr(os, fn)

            def wrapped(*x, _real=real, **k):
                cnt['n'] += 1
                if cnt['n'] == ev['at']:
                    os._exit(9)
                return _real(*x, **k)
            setattr(os, fn, wrapped)

    spec = {'ranges': {'label': 'c12', 'code': {'name': 'Toric2DCode', 'parameters': [{'L_x': s, 'L_y': s} for s in a['sizes']]},
                       'error_model': {'name': 'PauliErrorModel', 'parameters': {'r_x': 0.25, 'r_y': 0.25, 'r_z': 0.5}},
                       'decoder': {'name': 'MatchingDecoder', 'parameters': a.get('decs', [{}])}, 'error_rate': a['rates']}}
    with contextlib.redirect_stdout(io.StringIO()):
        b = read_input_dict(spec, a['out'], verbose=False, save_frequency=a['save_freq'], update_frequency=1000)
        try:
            b.run(a['target'])
        except KeyboardInterrupt:
            if not ev.get('resume_in_process'):
                raise
        if ev.get('resume_in_process'):
            # the user restarts the same specification in the SAME interpreter session (a notebook): a new batch object on the same file
            ev['kind'] = 'none'
            b2 = read_input_dict(spec, a['out'], verbose=False, save_frequency=a['save_freq'], update_frequency=1000)
            b2.run(a['target'])
    sys.exit(0)


if __name__ == '__main__':
    main()
