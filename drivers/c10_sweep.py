"""C10 driver: geometry of flip_edge for every edge, and traces of complete decodes of the two sweep decoders
(every flip_edge call and the signs returned by every sweep_move).  usage: c10_sweep.py <outdir> <tier> <seed>"""
import itertools
import json
import os
import random
import sys

import numpy as np

sys.path.insert(0, __file__.rsplit('/', 1)[0])
import dump_codes as dc  # noqa: E402


def main():
    outdir, tier, seed = sys.argv[1], sys.argv[2], int(sys.argv[3])
    os.makedirs(outdir, exist_ok=True)
    from panqec.decoders import SweepDecoder3D, RotatedSweepDecoder3D
    lattices = [('Toric3DCode', SweepDecoder3D, [(3, 3, 3), (2, 3, 4), (4, 2, 3), (2, 2, 2)]),
                ('Planar3DCode', SweepDecoder3D, [(3, 3, 3), (2, 3, 4), (3, 2, 2)]),
                ('RotatedPlanar3DCode', RotatedSweepDecoder3D, [(3, 3, 3), (2, 2, 2), (3, 2, 4), (2, 4, 3)]),
                ('RotatedToric3DCode', RotatedSweepDecoder3D, [(2, 2, 2), (3, 2, 2), (2, 4, 3)])]
    if tier == 'thorough':
        lattices = [(a, b, c + [(4, 4, 4), (3, 4, 5), (5, 3, 2)]) for a, b, c in lattices]
    tasks = [(cls, Dec.__name__, si, size, tier, seed, outdir) for cls, Dec, sizes in lattices for si, size in enumerate(sizes)
             if dc.supported(cls, size)]
    from multiprocessing import Pool
    with Pool(14) as pool:
        res = pool.map(work, tasks)
    json.dump([r['tag'] for r in res], open(os.path.join(outdir, 'C10_INDEX.json'), 'w'))
    # histories: decoders of DIFFERENT lattice classes of the same size used one after the other in one process
    done = {(r['cls'], tuple(r['size'])) for r in res}
    htasks = []
    for a, b, decname in (('Toric3DCode', 'Planar3DCode', 'SweepDecoder3D'), ('RotatedPlanar3DCode', 'RotatedToric3DCode', 'RotatedSweepDecoder3D')):
        for size in sorted({s for c, s in done if c == a} & {s for c, s in done if c == b}):
            htasks += [((a, b, a), decname, size, seed), ((b, a, b), decname, size, seed)]
    with Pool(14, maxtasksperchild=1) as pool:
        hres = pool.map(history_work, htasks)
    json.dump(hres, open(os.path.join(outdir, 'c10_hist.json'), 'w'))
    print(len(res), 'lattices', sum(len(r['traces']) for r in res), 'traces', sum(len(r['geom']) for r in res), 'edges')


def work(task):
    cls, decname, si, size, tier, seed, outdir = task
    import panqec.codes as pc
    import panqec.decoders as pd_
    from panqec.error_models import PauliErrorModel
    Dec = getattr(pd_, decname)
    rng = random.Random('%s/%s/%d' % (cls, size, seed))
    if True:
        if True:
            code = getattr(pc, cls)(*size)
            em = PauliErrorModel(0, 0, 1)
            n, m = code.n, code.n_stabilizers
            tag, ok, _ = dc.dump_instance((cls, size, None, None, outdir))
            rec = {'tag': tag, 'cls': cls, 'size': list(size), 'decoder': Dec.__name__, 'geom': [], 'traces': []}
            dec = Dec(code, em, 0.1)
            # geometry: every edge (qubit)
            for q, loc in enumerate(code.qubit_coordinates):
                signs = np.zeros(m, dtype='uint8')
                try:
                    dec.flip_edge(loc, signs)
                    rec['geom'].append([q, [int(i) for i in np.nonzero(signs)[0]], [int(v) for v in np.unique(signs)]])
                except Exception as ex:
                    rec['geom'].append([q, 'EXC %s: %s' % (type(ex).__name__, ex), []])
            # traces: decode Z errors with every flip and every sweep recorded
            if cls == 'RotatedToric3DCode':
                # geometry only (known finding: no periodic wrap)
                json.dump(rec, open(os.path.join(outdir, 'c10_%s.json' % tag), 'w'))
                return rec
            errs = [[q] for q in range(n)]
            pairs = list(itertools.combinations(range(n), 2))
            if si == 0:
                errs += pairs if tier == 'thorough' else rng.sample(pairs, min(len(pairs), 120))
            else:
                errs += rng.sample(pairs, min(len(pairs), 40))
            for rate in (0.02, 0.05, 0.1, 0.2):
                for _ in range(6 if tier == 'quick' else 40):
                    errs.append([q for q in range(n) if rng.random() < rate])
            if si > 0 and tier == 'quick':
                errs = errs[:n][:20] + errs[n:n + 25] + errs[-24:]
            elif tier == 'quick':
                errs = errs[:n][:40] + errs[n:]
            # tb = -1: ONE decoder object decodes a whole sequence (non-trivial face syndromes interleaved with the empty one and with
            # syndromes of pure X errors, which excite no face); every decode of the sequence is traced and judged like a fresh one
            reuse_seq = []
            for zs in rng.sample(errs, min(len(errs), 10)):
                reuse_seq += [list(zs), [], {'X': rng.sample(range(n), 2)}]
            shared = Dec(code, em, 0.1)
            shared._rng = np.random.default_rng(seed)
            runs = [(-1, zs) for zs in reuse_seq] + [(tb, zs) for tb in range(2 if tier == 'quick' else 5) for zs in (errs if tb == 0 else errs[-24:])]
            for tb, zs in runs:
                if True:
                    e = np.zeros(2 * n, dtype='uint8')
                    if isinstance(zs, dict):
                        for q in zs['X']:
                            e[q] = 1
                        zs = []
                    for q in zs:
                        e[n + q] = 1
                    syn = code.measure_syndrome(e)
                    if tb == -1:
                        d = shared
                        d.__dict__.pop('flip_edge', None)       # un-wrap: the instance attributes set for the previous decode
                        d.__dict__.pop('sweep_move', None)
                    else:
                        d = Dec(code, em, 0.1)
                        d._rng = np.random.default_rng(seed + tb)
                    events = []
                    real_flip, real_move = d.flip_edge, d.sweep_move

                    def flip_edge(loc, signs, _rf=real_flip):
                        events.append(['F', int(code.qubit_index[tuple(int(c) for c in loc)])])
                        return _rf(loc, signs)

                    def sweep_move(*a, _rm=real_move, **k):
                        out = _rm(*a, **k)
                        events.append(['S', [int(i) for i in np.nonzero(np.asarray(out))[0]]])
                        return out
                    d.flip_edge, d.sweep_move = flip_edge, sweep_move
                    try:
                        syn_before = syn.copy()
                        corr = np.asarray(d.decode(syn))
                        rec['traces'].append({'z': zs, 'tiebreak_seed': tb, 'events': events,
                                              'final_x': [int(i) for i in np.nonzero(corr[:n])[0]], 'final_z': [int(i) for i in np.nonzero(corr[n:] % 2)[0]],
                                              'binary': bool(set(np.unique(corr)) <= {0, 1}) and len(corr) == 2 * n,
                                              'syndrome_untouched': bool(np.array_equal(syn, syn_before))})
                    except Exception as ex:
                        rec['traces'].append({'z': zs, 'tiebreak_seed': tb, 'error': '%s: %s' % (type(ex).__name__, ex)})
            json.dump(rec, open(os.path.join(outdir, 'c10_%s.json' % tag), 'w'))
            return rec


def history_work(task):
    classes, decname, size, seed = task
    import panqec.codes as pc
    import panqec.decoders as pd_
    from panqec.error_models import PauliErrorModel
    Dec = getattr(pd_, decname)
    out = {'history': list(classes), 'decoder': decname, 'size': list(size), 'steps': []}
    for cls in classes:
        code = getattr(pc, cls)(*size)
        em = PauliErrorModel(0, 0, 1)
        n, m = code.n, code.n_stabilizers
        dec = Dec(code, em, 0.1)
        geom = []
        for q, loc in enumerate(code.qubit_coordinates):
            signs = np.zeros(m, dtype='uint8')
            try:
                dec.flip_edge(loc, signs)
                geom.append([q, [int(i) for i in np.nonzero(signs)[0]], [int(v) for v in np.unique(signs)]])
            except Exception as ex:
                geom.append([q, 'EXC %s: %s' % (type(ex).__name__, ex), []])
        decs = []
        if cls != 'RotatedToric3DCode':
            for q in range(min(n, 12)):
                e = np.zeros(2 * n, dtype='uint8')
                e[n + q] = 1
                d = Dec(code, em, 0.1)
                d._rng = np.random.default_rng(seed)
                try:
                    corr = np.asarray(d.decode(code.measure_syndrome(e)))
                    decs.append([q, [int(i) for i in np.nonzero(corr[:n])[0]], [int(i) for i in np.nonzero(corr[n:] % 2)[0]]])
                except Exception as ex:
                    decs.append([q, 'EXC %s: %s' % (type(ex).__name__, ex), []])
        out['steps'].append({'cls': cls, 'geom': geom, 'decodes': decs})
    return out


if __name__ == '__main__':
    main()
