"""C05 / C06 / C09 driver: the library decoders run on declared codes.
usage: c05_decoders.py <outdir> <mode> <tier> <seed>     mode in {valid, pure, optimal}
Writes <outdir>/<mode>.json and dumps of the code tables used (dump_codes format)."""
import contextlib
import io
import itertools
import json
import os
import random
import sys
from multiprocessing import Pool

import numpy as np

sys.path.insert(0, __file__.rsplit('/', 1)[0])
import dump_codes as dc  # noqa: E402

COMPLETE = ('MatchingDecoder', 'UnionFindDecoder', 'BeliefPropagationOSDDecoder')
DIRS = [(1 / 3, 1 / 3, 1 / 3), (0.0, 0.0, 1.0), (0.1, 0.1, 0.8), (1.0, 0.0, 0.0), (0.05, 0.45, 0.5)]


def sizes_for(cls, tier):
    if cls in dc.CLASSES_2D:
        s = [(2, 2), (3, 3), (2, 3), (3, 2), (4, 4), (2, 4), (1, 1), (4, 3)] + ([(5, 5), (3, 5), (6, 4)] if tier == 'thorough' else [])
    else:
        s = [(2, 2, 2), (2, 3, 2), (3, 2, 2), (2, 2, 3), (3, 3, 3), (2, 2, 4), (4, 2, 2), (3, 4, 2), (2, 4, 2)] + ([(4, 4, 4), (3, 4, 5)] if tier == 'thorough' else [])
    return [x for x in s if dc.supported(cls, x)]


def build_code(cls, size, dn, ax):
    import panqec.codes as pc
    c = getattr(pc, cls)(*size)
    if dn:
        c.deform(dn, **({'deformation_axis': ax} if ax else {}))
    return c


def rows(v, n):
    v = np.asarray(v)
    return {'x': [int(i) for i in np.nonzero(v[:n] % 2)[0]], 'z': [int(i) for i in np.nonzero(v[n:] % 2)[0]]}


def make_decoder(name, code, em, p, **kw):
    from panqec.config import DECODERS
    if name == 'BeliefPropagationOSDDecoder':
        kw = dict({'max_bp_iter': 10, 'osd_order': 0}, **kw)
    if name == 'MemoryBeliefPropagationDecoder':
        kw = dict({'max_bp_iter': 2}, **kw)
    return DECODERS[name](code, em, p, **kw)


@contextlib.contextmanager
def time_limit(seconds):
    """a decode that does not come back is reported as an exception of that decode instead of stalling the whole run"""
    import signal

    def onalarm(signum, frame):
        raise TimeoutError('decode did not return within %d s' % seconds)
    old = signal.signal(signal.SIGALRM, onalarm)
    signal.alarm(seconds)
    try:
        yield
    finally:
        signal.alarm(0)
        signal.signal(signal.SIGALRM, old)


def errors_for(code, rng, tier, exhaustive_bits=None, dense=False):
    """list of (kind, error vector)"""
    n = code.n
    H = code.stabilizer_matrix
    if exhaustive_bits is None:
        exhaustive_bits = 8 if tier == 'quick' else 12
    out = [('zero', np.zeros(2 * n, dtype='uint8'))]
    from panqec.bpauli import brank
    rk = brank(H) if n <= 40 else 99
    if rk <= exhaustive_bits:
        # one error per valid syndrome: combinations of single-qubit errors reaching every syndrome
        seen = {}
        frontier = [np.zeros(2 * n, dtype='uint8')]
        seen[bytes(code.measure_syndrome(frontier[0]))] = frontier[0]
        units = []
        for j in range(2 * n):
            e = np.zeros(2 * n, dtype='uint8')
            e[j] = 1
            units.append(e)
        while frontier and len(seen) < 2 ** rk:
            nxt = []
            for e in frontier:
                for u in units:
                    f = (e + u) % 2
                    k = bytes(code.measure_syndrome(f))
                    if k not in seen:
                        seen[k] = f
                        nxt.append(f)
            frontier = nxt
        out += [('every_syndrome', e) for e in seen.values()]
        return out
    large = dense and n >= 60          # the large 2-D lattices of the fast complete decoders: fewer light errors, more dense ones
    for q in (range(n) if not large else rng.sample(range(n), 10)):
        for (x, z, nm) in ((1, 0, 'X'), (0, 1, 'Z'), (1, 1, 'Y')):
            e = np.zeros(2 * n, dtype='uint8')
            e[q], e[n + q] = x, z
            out.append(('weight1', e))
    pairs = list(itertools.combinations(range(n), 2))
    for (a, b) in rng.sample(pairs, min(len(pairs), 30 if tier == 'quick' else 400)):
        e = np.zeros(2 * n, dtype='uint8')
        for q in (a, b):
            t = rng.choice([(1, 0), (0, 1), (1, 1)])
            e[q], e[n + q] = t
        out.append(('weight2', e))
    for rate in (0.02, 0.05, 0.1, 0.2, 0.4):
        for _ in range((2 if not large else 12) if tier == 'quick' else (20 if not large else 60)):
            e = np.zeros(2 * n, dtype='uint8')
            for q in range(n):
                if rng.random() < rate:
                    t = rng.choice([(1, 0), (0, 1), (1, 1)])
                    e[q], e[n + q] = t
            out.append(('random', e))
    return out


def valid_task(task):
    decname, cls, size, dn, ax, direction, p, tier, seed, outdir = task
    from panqec.error_models import PauliErrorModel
    opts = {}
    if '|' in decname:          # decoder options other than the defaults
        decname, o_ = decname.split('|', 1)
        opts = json.loads(o_)
    rng = random.Random('%s/%s/%s/%s/%s/%d' % (decname, cls, size, dn, direction, seed))
    rec = {'decoder': decname, 'cls': cls, 'size': list(size), 'deformation': dn, 'axis': ax, 'direction': list(direction), 'p': p,
           'options': opts, 'decodes': [], 'n_decodes': 0, 'kinds': {}}
    try:
        with contextlib.redirect_stdout(io.StringIO()):
            code = build_code(cls, size, dn, ax)
            ndef = opts.pop('__noise_deformation__', None)      # noise deformed, code not
            if ndef:
                rec['noise_deformation'] = ndef
            em = PauliErrorModel(*direction, deformation_name=(ndef or dn), deformation_kwargs=({'deformation_axis': ax} if ax else {}))
            # a batch run builds several decoders from the same code and noise-model objects: the one that is judged is the third
            for _ in range(2):
                make_decoder(decname, code, em, p, **opts)
            dec = make_decoder(decname, code, em, p, **opts)
    except Exception as ex:
        rec['construct_error'] = '%s: %s' % (type(ex).__name__, ex)
        return rec
    n = code.n
    rec['n'] = int(n)
    rec['tag'] = dc.dump_instance((cls, size, dn, ax, outdir))[0]
    errs = errors_for(code, rng, tier, dense=decname in ('MatchingDecoder', 'UnionFindDecoder') and len(size) == 2)
    if decname == 'MemoryBeliefPropagationDecoder':
        errs = errs[:6]
    keep = set(rng.sample(range(len(errs)), min(len(errs), 40)))
    for i, (kind, e) in enumerate(errs):
        syn = code.measure_syndrome(e)
        rec['n_decodes'] += 1
        rec['kinds'][kind] = rec['kinds'].get(kind, 0) + 1
        d = {'kind': kind, 'error': rows(e, n)}
        try:
            with contextlib.redirect_stdout(io.StringIO()), np.errstate(all='ignore'), time_limit(60):
                c = np.asarray(dec.decode(syn.copy()))
            okshape = (c.shape == (2 * n,))
            binary = bool(okshape and set(np.unique(c).tolist()) <= {0, 1})
            d.update({'shape_ok': okshape, 'binary': binary})
            if okshape and binary:
                s2 = code.measure_syndrome(c.astype('uint8'))
                d['reproduces'] = bool(np.array_equal(s2, syn))
                d['correction'] = rows(c, n)
                d['syndrome'] = [int(j) for j in np.nonzero(syn)[0]]
        except Exception as ex:
            d['exception'] = '%s: %s' % (type(ex).__name__, ex)
        bad = ('exception' in d) or not d.get('shape_ok') or not d.get('binary') or (kind == 'zero' and (d['correction']['x'] or d['correction']['z'])) \
            or (decname in COMPLETE and not d.get('reproduces'))
        if bad or i in keep or kind == 'zero':
            d['bad'] = bool(bad)
            rec['decodes'].append(d)
    # history on the CODE object: the same object is deformed again (another deformation name or axis), a new decoder with the
    # same options is built on it and must decode for the code as it is now
    if decname in COMPLETE and dn is not None and 'BeliefPropagation' in decname:
        import panqec.codes as pc_
        klass_ = getattr(pc_, cls)
        others = [(nm_, ax_) for nm_ in klass_.deformation_names for ax_ in dc.AXES.get(cls, [None]) if (nm_, ax_) != (dn, ax)]
        if others:
            nm2, ax2 = rng.choice(others)
            try:
                with contextlib.redirect_stdout(io.StringIO()):
                    code.deform(nm2, **({'deformation_axis': ax2} if ax2 else {}))
                    em2 = PauliErrorModel(*direction, deformation_name=nm2, deformation_kwargs=({'deformation_axis': ax2} if ax2 else {}))
                    dec2 = make_decoder(decname, code, em2, p, **opts)
                for kind, e in errs[:1] + rng.sample(errs, min(len(errs), 6)):
                    syn = code.measure_syndrome(e)
                    with contextlib.redirect_stdout(io.StringIO()), np.errstate(all='ignore'):
                        c = np.asarray(dec2.decode(syn.copy())) % 2
                    rec['n_decodes'] += 1
                    if not np.array_equal(code.measure_syndrome(c.astype('uint8')), syn):
                        rec['decodes'].append({'kind': 're-deformed code object: %s axis %s after %s axis %s' % (nm2, ax2, dn, ax), 'error': rows(e, n),
                                               'shape_ok': True, 'binary': True, 'reproduces': False, 'correction': rows(c, n),
                                               'syndrome': [int(j) for j in np.nonzero(syn)[0]], 'bad': True})
                        break
            except Exception as ex:
                rec['decodes'].append({'kind': 're-deformed code object: %s axis %s after %s axis %s' % (nm2, ax2, dn, ax), 'error': {'x': [], 'z': []},
                                       'exception': '%s: %s' % (type(ex).__name__, ex), 'bad': True})
    return rec


def main():
    outdir, mode, tier, seed = sys.argv[1], sys.argv[2], sys.argv[3], int(sys.argv[4])
    os.makedirs(outdir, exist_ok=True)
    from panqec.config import DECODERS, CODES
    import panqec.codes as pc
    rng = random.Random(seed)
    if mode == 'valid':
        tasks = []
        for decname, D in DECODERS.items():
            allowed = D.allowed_codes if D.allowed_codes is not None else list(CODES)
            for cls in allowed:
                klass = getattr(pc, cls)
                sz = sizes_for(cls, tier)
                if decname == 'BeliefPropagationOSDDecoder':
                    sz = sz[:3] if tier == 'quick' else sz[:7]
                elif decname == 'MemoryBeliefPropagationDecoder':
                    sz = sz[:1]
                elif 'Sweep' in decname and tier == 'quick':
                    sz = sz[:4]
                if decname in ('MatchingDecoder', 'UnionFindDecoder') and klass.dimension == 2:
                    # dense syndromes on larger lattices: clusters that absorb one another several times while growing
                    sz = sz + [x for x in ([(6, 6), (5, 7), (7, 7), (8, 8)] + ([(9, 10), (12, 12)] if tier == 'thorough' else [])) if dc.supported(cls, x)]
                variants = [(None, None)]
                if decname in ('BeliefPropagationOSDDecoder',):
                    variants += [(nm, ax) for nm in klass.deformation_names for ax in (dc.AXES.get(cls, [None])[:1] if tier == 'quick' else dc.AXES.get(cls, [None])[:2])]
                OPTS = {'BeliefPropagationOSDDecoder': [{}, {'osd_order': 3}, {'bp_method': 'product_sum'}, {'channel_update': True}, {'max_bp_iter': 1},
                                                        {'osd_order': 10, 'max_bp_iter': 30}],
                        'MemoryBeliefPropagationDecoder': [{}, {'alpha': 0.75}, {'beta': 0.1}],
                        'RotatedSweepMatchDecoder': [{}, {'max_rounds': 4}]}
                oi = 0
                for size in sz:
                    oi += 1
                    for (dn, ax) in variants:
                        for direction in (rng.sample(DIRS, 1 if decname == 'BeliefPropagationOSDDecoder' else 2) if tier == 'quick' else DIRS):
                            ol = OPTS.get(decname, [{}])
                            # the option sets take turns over the SIZES: all deformations / axes of one lattice share one option set
                            # (two decoders that differ only in the deformation of their code are the interesting neighbours)
                            o_ = ol[oi % len(ol)]
                            tasks.append((decname + ('|' + json.dumps(o_) if o_ else ''), cls, size, dn, ax, direction, rng.choice([0.02, 0.1, 0.3]),
                                          tier, seed, outdir))
                        # noise deformation on an undeformed code (matching weights per qubit)
                        if dn is None and klass.deformation_names and decname in ('MatchingDecoder', 'SweepMatchDecoder', 'RotatedSweepMatchDecoder'):
                            tasks.append((decname, cls, size, None, None, (0.1, 0.1, 0.8), 0.1, tier, seed, outdir))
                            # infinitely biased noise, deformed: both sectors are excited although the stated direction is pure
                            tasks.append((decname + '|{"__noise_deformation__": "%s"}' % klass.deformation_names[0], cls, size, None, None,
                                          rng.choice([(0.0, 0.0, 1.0), (1.0, 0.0, 0.0)]), 0.1, tier, seed, outdir))
        with Pool(16) as pool:
            res = pool.map(valid_task, tasks, chunksize=2)
        json.dump(res, open(os.path.join(outdir, 'valid.json'), 'w'))
        print(len(res), 'configurations', sum(r['n_decodes'] for r in res), 'decodes',
              sum(1 for r in res if 'construct_error' in r), 'construct errors', sum(1 for r in res for d in r['decodes'] if d.get('bad')), 'bad decodes')
    elif mode == 'pure':
        tasks = []
        setups = [
            ('MatchingDecoder', 'Toric2DCode', (2, 3), {}, (1 / 3, 1 / 3, 1 / 3)), ('MatchingDecoder', 'Planar2DCode', (2, 2), {}, (0.1, 0.1, 0.8)),
            ('MatchingDecoder', 'RotatedPlanar2DCode', (3, 3), {}, (1 / 3, 1 / 3, 1 / 3)),
            ('UnionFindDecoder', 'Toric2DCode', (3, 3), {}, (1 / 3, 1 / 3, 1 / 3)),
            ('BeliefPropagationOSDDecoder', 'Toric2DCode', (3, 3), {}, (1 / 3, 1 / 3, 1 / 3)),
            ('BeliefPropagationOSDDecoder', 'Toric2DCode', (3, 3), {'channel_update': True}, (0.1, 0.8, 0.1)),
            ('BeliefPropagationOSDDecoder', 'Planar2DCode', (2, 2), {'channel_update': True}, (0.25, 0.5, 0.25)),
            ('BeliefPropagationOSDDecoder', 'RotatedPlanar2DCode', (2, 3), {}, (0.1, 0.1, 0.8)),
            ('BeliefPropagationOSDDecoder', 'Color666PlanarCode', (1, 1), {}, (1 / 3, 1 / 3, 1 / 3)),
            ('BeliefPropagationOSDDecoder', 'Toric3DCode', (2, 2, 2), {}, (0.25, 0.25, 0.5)),
            ('XCubeMatchingDecoder', 'XCubeCode', (2, 2, 2), {}, (0.0, 0.0, 1.0)),
            ('XCubeMatchingDecoder', 'XCubeCode', (3, 3, 3), {}, (0.05, 0.05, 0.9), 'noise:XZZX'),
            ('XCubeMatchingDecoder', 'XCubeCode', (2, 3, 3), {}, (0.05, 0.05, 0.9), 'noise:XZZX'),
            ('SweepMatchDecoder', 'Toric3DCode', (3, 3, 3), {}, (1 / 3, 1 / 3, 1 / 3)), ('SweepMatchDecoder', 'Planar3DCode', (2, 3, 2), {}, (1 / 3, 1 / 3, 1 / 3)),
            ('RotatedSweepMatchDecoder', 'RotatedPlanar3DCode', (2, 2, 2), {}, (1 / 3, 1 / 3, 1 / 3)),
        ]
        for st in setups:
            if len(st) == 6:      # undeformed code, deformed NOISE (unequal edge weights in the plane matchers)
                tasks.append(st[:5] + (st[5], tier, seed))
                continue
            for dn in ([None] if st[0] != 'BeliefPropagationOSDDecoder' or st[1] not in ('Toric2DCode', 'Planar2DCode') else [None, 'XZZX']):
                tasks.append(st + (dn, tier, seed))
        with Pool(16) as pool:
            res = pool.map(pure_task, tasks)
        json.dump(res, open(os.path.join(outdir, 'pure.json'), 'w'))
        print(len(res), 'setups', sum(r.get('n_checks', 0) for r in res), 'history checks', sum(len(r.get('bad', [])) for r in res), 'bad')
    elif mode == 'optimal':
        lat = [('Toric2DCode', (2, 2)), ('Toric2DCode', (2, 3)), ('Toric2DCode', (3, 2)), ('Planar2DCode', (2, 2)), ('Planar2DCode', (2, 3)),
               ('Planar2DCode', (3, 2)), ('Planar2DCode', (3, 3)), ('RotatedPlanar2DCode', (2, 2)), ('RotatedPlanar2DCode', (2, 3)),
               ('RotatedPlanar2DCode', (3, 3)), ('RotatedPlanar2DCode', (3, 4)), ('RotatedPlanar2DCode', (4, 3))]
        noises = [((1 / 3, 1 / 3, 1 / 3), None, None), ((0.05, 0.05, 0.9), 'XZZX', None), ((0.05, 0.05, 0.9), 'XZZX', 'x'), ((0.05, 0.45, 0.5), 'XZZX', 'x'),
                  ((0.125, 0.5, 0.375), 'XY', None), ((0.5, 0.0, 0.5), None, None), ((0.1, 0.3, 0.6), 'XZZX', 'y'),
                  ((0.0, 0.0, 1.0), 'XZZX', None), ((1.0, 0.0, 0.0), 'XZZX', 'x')]
        tasks = []
        for cls, size in lat:
            # all noise settings of one lattice run sequentially in ONE process at the same rate (decoders built one after the other)
            sel = noises if tier == 'thorough' else [noises[1], noises[2], noises[7 + rng.randrange(2)]] + rng.sample([noises[0]] + noises[3:7], 2)
            for p in ((0.05, 0.2, 0.4) if tier == 'thorough' else (rng.choice([0.05, 0.2, 0.4]),)):
                tasks.append((cls, size, sel, p, tier, seed, outdir))
        # high rate, marginals still below 1/2 (depolarising: 2p/3 < 1/2 up to p = 0.75)
        for cls, size in [lat[2], lat[6], lat[9]] if tier == 'quick' else lat:
            tasks.append((cls, size, [noises[0]], 0.7, tier, seed, outdir))
        with Pool(16) as pool:
            res = [r for rs in pool.map(optimal_lattice, tasks) for r in rs]
        # correctable sets: every Pauli error of weight <= (d-1)/2
        ctasks = []
        Ls = (3, 4, 5) if tier == 'quick' else (3, 4, 5, 6, 7)
        for L in Ls:
            for cls in ('Toric2DCode', 'Planar2DCode', 'RotatedPlanar2DCode'):
                ctasks.append(('MatchingDecoder', cls, (L, L), tier, seed))
                if L <= 5:
                    ctasks.append(('MatchingDecoder', cls, (L, L + 1), tier, seed))
            ctasks.append(('UnionFindDecoder', 'Toric2DCode', (L, L), tier, seed))
        ctasks += [('MatchingDecoder@0.7', cls, (3, 3), tier, seed) for cls in ('Toric2DCode', 'Planar2DCode', 'RotatedPlanar2DCode')]
        ctasks += [('UnionFindDecoder~clustered#%d' % k_, 'Toric2DCode', (9, 9), tier, seed) for k_ in range(5)]
        ctasks += [('SweepMatchDecoder', 'Toric3DCode', (3, 3, 3), tier, seed), ('SweepMatchDecoder', 'Toric3DCode', (3, 4, 3), tier, seed),
                   ('RotatedSweepMatchDecoder', 'RotatedPlanar3DCode', (3, 3, 3), tier, seed), ('RotatedSweepMatchDecoder', 'RotatedPlanar3DCode', (3, 4, 3), tier, seed)]
        with Pool(16) as pool:
            cres = pool.map(correct_task, ctasks)
        json.dump({'optimal': res, 'correctable': cres}, open(os.path.join(outdir, 'optimal.json'), 'w'))
        print(len(res), 'optimality setups', sum(len(r.get('cases', [])) for r in res), 'syndromes;', len(cres), 'correctability setups',
              sum(r.get('n_errors', 0) for r in cres), 'errors', sum(len(r.get('fails', [])) for r in cres), 'fails')
    else:
        raise SystemExit('mode not implemented here')


def fr(x):
    from fractions import Fraction
    f = Fraction(x).limit_denominator(10 ** 6) if not isinstance(x, Fraction) else x
    return [f.numerator, f.denominator]


def optimal_lattice(task):
    cls, size, sel, p, tier, seed, outdir = task
    shared = build_code(cls, size, None, None)      # ONE code object for all the noise settings of the lattice (same label, other axis)
    return [optimal_task((cls, size, direction, dn, ax, p, tier, seed, outdir), shared) for (direction, dn, ax) in sel]


def optimal_task(task, shared_code=None):
    from fractions import Fraction
    cls, size, direction, dn, ax, p, tier, seed, outdir = task
    from panqec.error_models import PauliErrorModel
    from panqec.decoders import MatchingDecoder
    rec = {'cls': cls, 'size': list(size), 'direction': list(direction), 'deformation': dn, 'axis': ax, 'p': p, 'cases': []}
    try:
        code = shared_code if shared_code is not None else build_code(cls, size, None, None)
        kw = {'deformation_axis': ax} if ax else {}
        em = PauliErrorModel(*direction, deformation_name=dn, deformation_kwargs=kw)
        # two decoders built one after the other from the SAME noise-model object, code object and rate (what a batch run
        # does for repeated parameter sets): the second one is judged; where the first one answers differently it is judged too
        dec_first = MatchingDecoder(code, em, p)
        dec = MatchingDecoder(code, em, p)
        n = code.n
        rec['n'] = int(n)
        # flip marginals of the STATED channel (not read from the implementation)
        F = lambda x: Fraction(x).limit_denominator(10 ** 9)
        rx, ry, rz, pp = F(direction[0]), F(direction[1]), F(direction[2]), F(p)
        odds = {'x': [], 'z': []}
        for q in code.qubit_coordinates:
            d = code.get_deformation(q, dn, **kw) if dn else {'X': 'X', 'Y': 'Y', 'Z': 'Z'}
            base = {'X': pp * rx, 'Y': pp * ry, 'Z': pp * rz}
            pX, pY, pZ = base[d['X']], base[d['Y']], base[d['Z']]
            mx, mz = pX + pY, pZ + pY
            odds['x'].append(mx / (1 - mx))
            odds['z'].append(mz / (1 - mz))
        rec['marginals_below_half'] = all(o < 1 for o in odds['x'] + odds['z'])
        rec['odds_x'] = [[o.numerator, o.denominator] for o in odds['x']]
        rec['odds_z'] = [[o.numerator, o.denominator] for o in odds['z']]
        sect = {}
        for nm, M in (('x', code.Hz), ('z', code.Hx)):   # X-corrections are found from the Z-stabilizer block
            M = M.tocsr()
            sect[nm] = [sorted(int(j) for j in M.indices[M.indptr[i]:M.indptr[i + 1]]) for i in range(M.shape[0])]
        rec['H_x_sector'] = sect['x']
        rec['H_z_sector'] = sect['z']
        # every syndrome of each sector, decoded jointly
        def all_syn(rows_):
            seen = {(): 0}
            frontier = [0]
            while frontier:
                nxt = []
                for e in frontier:
                    for q in range(n):
                        f = e ^ (1 << q)
                        sy = tuple(sum(1 for j in r if (f >> j) & 1) % 2 for r in rows_)
                        if sy not in seen:
                            seen[sy] = f
                            nxt.append(f)
                frontier = nxt
            return list(seen.values())
        ex_list, ez_list = all_syn(sect['x']), all_syn(sect['z'])
        rng = random.Random('%s/%s/%d' % (cls, size, seed))
        pairs = [(ex_list[i % len(ex_list)], ez_list[i % len(ez_list)]) for i in range(max(len(ex_list), len(ez_list)))]
        rng.shuffle(pairs)
        if tier == 'quick':
            pairs = pairs[:(16 if n >= 12 else 40)]
        for (ex, ez) in pairs:
            e = np.zeros(2 * n, dtype='uint8')
            for q in range(n):
                e[q] = (ex >> q) & 1
                e[n + q] = (ez >> q) & 1
            syn = code.measure_syndrome(e)
            c = np.asarray(dec.decode(syn)) % 2
            c1 = np.asarray(dec_first.decode(syn)) % 2
            sz_ = [int(b) for b in np.asarray(code.extract_z_syndrome(syn))]
            sx_ = [int(b) for b in np.asarray(code.extract_x_syndrome(syn))]
            for built, cc_ in ((2, c), (1, c1)):
                if built == 1 and np.array_equal(c, c1):
                    continue
                rec['cases'].append({'ex': [q for q in range(n) if (ex >> q) & 1], 'ez': [q for q in range(n) if (ez >> q) & 1],
                                     'syn_zpart': sz_, 'syn_xpart': sx_, 'decoder_built': built,
                                     'cx': [int(i) for i in np.nonzero(cc_[:n])[0]], 'cz': [int(i) for i in np.nonzero(cc_[n:])[0]]})
        # one-sector decoders: error_type='X' corrects X errors from the Z-type checks only, 'Z' the other way round
        for et in ('X', 'Z'):
            dec_et = MatchingDecoder(code, em, p, error_type=et)
            for (ex, ez) in pairs[:(6 if tier == 'quick' else 40)]:
                e = np.zeros(2 * n, dtype='uint8')
                for q in range(n):
                    e[q] = (ex >> q) & 1
                    e[n + q] = (ez >> q) & 1
                syn = code.measure_syndrome(e)
                cc_ = np.asarray(dec_et.decode(syn)) % 2
                rec['cases'].append({'ex': [q for q in range(n) if (ex >> q) & 1], 'ez': [q for q in range(n) if (ez >> q) & 1],
                                     'syn_zpart': [int(b) for b in np.asarray(code.extract_z_syndrome(syn))],
                                     'syn_xpart': [int(b) for b in np.asarray(code.extract_x_syndrome(syn))], 'decoder_built': 1, 'error_type': et,
                                     'cx': [int(i) for i in np.nonzero(cc_[:n])[0]], 'cz': [int(i) for i in np.nonzero(cc_[n:])[0]]})
    except Exception as ex:
        import traceback
        rec['error'] = '%s: %s' % (type(ex).__name__, ex)
        rec['trace'] = traceback.format_exc()[-800:]
    return rec


def correct_task(task):
    decname, cls, size, tier, seed = task
    from panqec.error_models import PauliErrorModel
    rec = {'decoder': decname, 'cls': cls, 'size': list(size), 'fails': [], 'n_errors': 0}
    try:
        with contextlib.redirect_stdout(io.StringIO()):
            code = build_code(cls, size, None, None)
            em = PauliErrorModel(1 / 3, 1 / 3, 1 / 3)
            rate = 0.1
            if decname.startswith('UnionFindDecoder~clustered'):
                part = decname.split('#')[1] if '#' in decname else '0'
                # weight-t errors (t = 4 on the 9x9 torus) whose qubits lie close together: several small clusters that meet while growing
                decname = 'UnionFindDecoder'
                dec = make_decoder(decname, code, em, rate)
                n = code.n
                d = int(code.d)
                t = (d - 1) // 2
                rec['d'], rec['t'] = d, t
                rng = random.Random('%s/%s/%d/clustered/%s' % (cls, size, seed, part))
                qc = code.qubit_coordinates
                for _ in range(1500 if tier == 'quick' else 15000):
                    cx, cy = rng.randrange(2 * size[0]), rng.randrange(2 * size[1])
                    near = [i for i, (x_, y_) in enumerate(qc) if min((x_ - cx) % (2 * size[0]), (cx - x_) % (2 * size[0])) <= 6
                            and min((y_ - cy) % (2 * size[1]), (cy - y_) % (2 * size[1])) <= 3]
                    supp = rng.sample(near, t)
                    half = rng.choice([0, n])
                    e = np.zeros(2 * n, dtype='uint8')
                    for q in supp:
                        e[half + q] = 1
                    try:
                        c = np.asarray(dec.decode(code.measure_syndrome(e))) % 2
                        ok = bool(code.is_success((e + c) % 2))
                    except Exception as ex_:
                        c, ok = np.zeros(2 * n, dtype='uint8'), False
                    rec['n_errors'] += 1
                    if not ok and len(rec['fails']) < 5:
                        rec['fails'].append({'error': rows(e, n), 'correction': rows(c, n)})
                return rec
            if '@' in decname:          # the same decoder built for a high error rate (marginals still below 1/2)
                decname, rate = decname.split('@')[0], float(decname.split('@')[1])
            dec = make_decoder(decname, code, em, rate)
            n = code.n
            d = int(code.d)
            t = (d - 1) // 2 if 'Sweep' not in decname else (1 if d >= 3 else 0)
            rec['d'], rec['t'] = d, t
            rng = random.Random('%s/%s/%d' % (cls, size, seed))
            for w in range(1, t + 1):
                supports = list(itertools.combinations(range(n), w))
                cap = 1500 if tier == 'quick' else (30000 if decname == 'UnionFindDecoder' else 150000)
                if len(supports) * 3 ** w > cap:
                    supports = rng.sample(supports, cap // 3 ** w)
                for supp in supports:
                    for ps in itertools.product((1, 2, 3), repeat=w):
                        e = np.zeros(2 * n, dtype='uint8')
                        for q, pl in zip(supp, ps):
                            e[q] = pl & 1
                            e[n + q] = (pl >> 1) & 1
                        c = np.asarray(dec.decode(code.measure_syndrome(e))) % 2
                        rec['n_errors'] += 1
                        if not code.is_success((e + c) % 2):
                            if len(rec['fails']) < 5:
                                rec['fails'].append({'error': rows(e, n), 'correction': rows(c, n)})
    except Exception as ex:
        rec['error'] = '%s: %s' % (type(ex).__name__, ex)
    return rec


RANDOMISED = ('SweepMatchDecoder', 'RotatedSweepMatchDecoder')


def pure_task(task):
    decname, cls, size, kw, direction, dn, tier, seed = task
    from panqec.error_models import PauliErrorModel
    rng = random.Random('%s/%s/%s/%s/%s/%d' % (decname, cls, size, kw, dn, seed))
    rec = {'decoder': decname, 'cls': cls, 'size': list(size), 'params': kw, 'deformation': dn, 'direction': list(direction), 'bad': [], 'n_checks': 0}
    try:
        with contextlib.redirect_stdout(io.StringIO()):
            noise_only = isinstance(dn, str) and dn.startswith('noise:')
            code = build_code(cls, size, None if noise_only else dn, None)
            em = PauliErrorModel(*direction, deformation_name=(dn.split(':')[1] if noise_only else dn))
            p = 0.1
            mk = lambda: make_decoder(decname, code, em, p, **kw)
            n = code.n
            errs = [e for _, e in errors_for(code, rng, 'quick', exhaustive_bits=6)]
            # syndromes: zero, sector-wise zero (pure X / pure Z errors), mixed
            for q in rng.sample(range(n), min(n, 4)):
                for half in (0, n):
                    e = np.zeros(2 * n, dtype='uint8')
                    e[half + q] = 1
                    errs.append(e)
            # images of a few low-weight errors under the axis permutations that map the lattice to itself: the same local pattern
            # seen by a differently oriented part of the decoder (histories e then image(e) are added below)
            sym_pairs = []
            if len(size) == 3 and decname == 'XCubeMatchingDecoder' and len(set(size)) < 3:
                import itertools as _it
                perms = [pm for pm in _it.permutations(range(3)) if pm != (0, 1, 2) and tuple(size[i] for i in pm) == tuple(size)]
                qi = code.qubit_index
                for _ in range(40 if tier == 'quick' else 200):
                    supp = rng.sample(range(n), rng.choice([2, 2, 3]))
                    half = rng.choice([0, n])
                    pm = rng.choice(perms)
                    img = []
                    for q in supp:
                        c_ = code.qubit_coordinates[q]
                        c2_ = tuple(c_[i] for i in pm)
                        if c2_ not in qi:
                            img = None
                            break
                        img.append(qi[c2_])
                    if img is None:
                        continue
                    e1, e2 = np.zeros(2 * n, dtype='uint8'), np.zeros(2 * n, dtype='uint8')
                    for q in supp:
                        e1[half + q] = 1
                    for q in img:
                        e2[half + q] = 1
                    sym_pairs.append((e1, e2))
            syns = []
            seen = set()
            for e in errs:
                s_ = code.measure_syndrome(e)
                if s_.tobytes() not in seen:
                    seen.add(s_.tobytes())
                    syns.append(s_)
            limit = 14 if tier == 'quick' else 40
            if len(syns) > limit:
                syns = syns[:3] + rng.sample(syns[3:], limit - 3)
            sym_hists = []
            for e1, e2 in sym_pairs:
                idx = []
                for e in (e1, e2):
                    s_ = code.measure_syndrome(e)
                    syns.append(s_)
                    idx.append(len(syns) - 1)
                sym_hists += [[idx[0], idx[1]], [idx[1], idx[0]]]
            probs0 = [np.array(a, copy=True) for a in em.probability_distribution(code, p)]

            def validity(c, s_):
                c = np.asarray(c)
                ok = c.shape == (2 * n,) and set(np.unique(c).tolist()) <= {0, 1}
                if not ok:
                    return 'not binary of length 2n'
                if decname in RANDOMISED:
                    # the matching half must reproduce the vertex (Z-stabilizer) syndrome
                    s2 = code.measure_syndrome((c % 2).astype('uint8'))
                    zi = code.z_indices
                    return None if np.array_equal(s2[zi], np.asarray(s_)[zi]) else 'vertex syndrome not reproduced'
                return None

            def dec_once(d, s_, dtype):
                arr = np.array(s_, dtype=dtype)
                before = arr.copy()
                with np.errstate(all='ignore'):
                    out = np.asarray(d.decode(arr)) % 2
                return out, bool(np.array_equal(arr, before))
            fresh = {}
            for j, s2 in enumerate(syns):
                fresh[j] = dec_once(mk(), s2, 'uint8')[0]
            # all ordered pairs (s1 then s2) on ONE object, and random longer histories
            nbase = len(syns) - 2 * len(sym_pairs)
            hists = [(i, j) for i in range(nbase) for j in range(nbase)]
            if tier == 'quick' and len(hists) > 120:
                hists = rng.sample(hists, 120)
            hists = sym_hists + [[i, j] for i, j in hists] + [[rng.randrange(len(syns)) for _ in range(rng.randint(3, 20))] for _ in range(6 if tier == 'quick' else 40)]
            for h in hists:
                d = mk()
                dtype = rng.choice(['uint8', 'int64', 'int64', 'uint8', 'int32'])
                untouched = True
                for i in h[:-1]:
                    _, u = dec_once(d, syns[i], dtype)
                    untouched = untouched and u
                out, u = dec_once(d, syns[h[-1]], dtype)
                untouched = untouched and u
                rec['n_checks'] += 1
                why = None
                if decname in RANDOMISED:
                    why = validity(out, syns[h[-1]])
                    if why is None and validity(fresh[h[-1]], syns[h[-1]]) is not None:
                        why = None
                elif not np.array_equal(out, fresh[h[-1]]):
                    why = 'differs from a freshly built decoder'
                if why is None and not untouched:
                    why = "caller's syndrome array (dtype %s) was modified" % dtype
                if why:
                    rec['bad'].append({'history': [[int(k) for k in np.nonzero(syns[i])[0]] for i in h], 'dtype': dtype, 'why': why,
                                       'reused': rows(out, n), 'fresh': rows(fresh[h[-1]], n)})
                    if len(rec['bad']) > 5:
                        break
            probs1 = em.probability_distribution(code, p)
            if any(not np.array_equal(a, b) for a, b in zip(probs0, probs1)):
                rec['bad'].append({'why': "the noise model's cached probability tables were altered by decoding", 'history': []})
    except Exception as ex:
        import traceback
        rec['error'] = '%s: %s' % (type(ex).__name__, ex)
        rec['trace'] = traceback.format_exc()[-1000:]
    return rec



if __name__ == '__main__':
    main()
