(** * GenInput: the [generate-input] command (C19).

    Model over [Q] of [read_range_input] (after the fix), [get_direction_from_bias_ratio] and of the
    specification assembled for each bias ratio. *)
From Coq Require Import QArith Qabs Qround Qminmax Lqa ZArith List Bool Lia.
Import ListNotations.
Local Open Scope Q_scope.

Definition tol : Q := 1 # 1000000000.   (* the 1e-9 guard of the implementation *)

(** number of steps and the values of a min:max:step specification *)
Definition n_steps (mn mx st : Q) : Z := Qfloor ((mx - mn) / st + tol).
Definition nats_upto (n : Z) : list Z := map Z.of_nat (seq 0 (S (Z.to_nat n))).
Definition range_values (mn mx st : Q) : list Q :=
  map (fun i => Qmin (mn + st * inject_Z i) mx) (nats_upto (n_steps mn mx st)).

Lemma floor_int_plus_small (m : Z) (e : Q) : 0 <= e -> e < 1 -> Qfloor (inject_Z m + e) = m.
Proof.
  intros H0 H1.
  assert (L : (Qfloor (inject_Z m) <= Qfloor (inject_Z m + e))%Z).
  { apply Qfloor_resp_le. set (q := inject_Z m). clearbody q. lra. }
  rewrite Qfloor_Z in L.
  assert (U : (Qfloor (inject_Z m + e) < m + 1)%Z).
  { rewrite Zlt_Qlt. apply Qle_lt_trans with (inject_Z m + e); [apply Qfloor_le|]. rewrite inject_Z_plus.
    change (inject_Z 1) with 1. set (q := inject_Z m). clearbody q. lra. }
  lia.
Qed.

(** no value lies beyond max, whatever the inputs *)
Theorem range_never_beyond_max mn mx st v : In v (range_values mn mx st) -> v <= mx.
Proof.
  unfold range_values. rewrite in_map_iff. intros [i [<- _]]. apply Q.le_min_r.
Qed.

(** on a grid where (max - min) is a whole number m of steps, the values are exactly
    min, min+step, ..., min + m*step = max: m+1 values, the last one equal to max *)
Theorem range_is_progression mn mx st (m : Z) :
  0 < st -> (0 <= m)%Z -> mx - mn == inject_Z m * st ->
  n_steps mn mx st = m /\
  length (range_values mn mx st) = S (Z.to_nat m) /\
  (forall i, (0 <= i <= m)%Z -> nth (Z.to_nat i) (range_values mn mx st) 0 == mn + st * inject_Z i) /\
  nth (Z.to_nat m) (range_values mn mx st) 0 == mx.
Proof.
  intros Hst Hm Hgrid.
  assert (Hn : n_steps mn mx st = m).
  { unfold n_steps. setoid_replace ((mx - mn) / st) with (inject_Z m) by (rewrite Hgrid; field; lra).
    apply floor_int_plus_small; unfold tol; lra. }
  assert (Hnth : forall i, (0 <= i <= m)%Z -> nth (Z.to_nat i) (range_values mn mx st) 0 == mn + st * inject_Z i).
  { intros i Hi. unfold range_values. rewrite Hn.
    assert (E : nth (Z.to_nat i) (map (fun i0 : Z => Qmin (mn + st * inject_Z i0) mx) (nats_upto m)) 0
                = Qmin (mn + st * inject_Z i) mx).
    { unfold nats_upto. rewrite map_map.
      rewrite (nth_indep _ 0 ((fun x => Qmin (mn + st * inject_Z (Z.of_nat x)) mx) 0%nat)) by (rewrite map_length, seq_length; lia).
      rewrite (map_nth (fun x => Qmin (mn + st * inject_Z (Z.of_nat x)) mx)), seq_nth by lia. cbn [Nat.add].
      now rewrite Z2Nat.id by lia. }
    rewrite E. apply Q.min_l.
    assert (inject_Z i <= inject_Z m) by (rewrite <- Zle_Qle; lia). nra. }
  repeat split.
  - exact Hn.
  - unfold range_values, nats_upto. now rewrite !map_length, seq_length, Hn.
  - exact Hnth.
  - rewrite Hnth by lia. rewrite (Qmult_comm st). lra.
Qed.

(** ** noise direction from the bias ratio *)
Inductive bias := BX | BY | BZ.
(** [None] = infinite bias *)
Definition r_bias (eta : option Q) : Q := match eta with None => 1 | Some e => e / (1 + e) end.
Definition direction (b : bias) (eta : option Q) : Q * Q * Q :=
  let r := r_bias eta in let o := (1 - r) / 2 in
  match b with BX => (r, o, o) | BY => (o, r, o) | BZ => (o, o, r) end.

Theorem direction_sums_to_one b eta : let '(x, y, z) := direction b eta in x + y + z == 1.
Proof. unfold direction. destruct b; cbn; field. Qed.

Theorem direction_matches_bias b eta :
  let '(x, y, z) := direction b eta in
  match b with BX => x == r_bias eta /\ y == z | BY => y == r_bias eta /\ x == z | BZ => z == r_bias eta /\ x == y end.
Proof. unfold direction. destruct b; cbn; split; reflexivity. Qed.

Theorem infinite_bias_is_pure b : direction b None = match b with BX => (1, (1-1)/2, (1-1)/2) | BY => ((1-1)/2, 1, (1-1)/2) | BZ => ((1-1)/2, (1-1)/2, 1) end.
Proof. destruct b; reflexivity. Qed.

Theorem finite_bias_ratio b e : 0 <= e -> let '(x, y, z) := direction b (Some e) in
  (* the biased component is eta times the sum of the two others *)
  match b with BX => x == e * (y + z) | BY => y == e * (x + z) | BZ => z == e * (x + y) end.
Proof. intros He. unfold direction, r_bias. destruct b; cbn; field; lra. Qed.

(** ** one specification per bias ratio, each with the sizes x rates grid *)
Definition spec_count (n_sizes : nat) (rates : list Q) : nat := n_sizes * length rates.

(** checkers for the correspondence run *)
Definition close (a b : Q) : bool := Qle_bool (Qabs (a - b)) (1 # 1000000000000).   (* 1e-12 *)
Fixpoint closel (a b : list Q) : bool :=
  match a, b with [], [] => true | x :: a', y :: b' => close x y && closel a' b' | _, _ => false end.
Definition rates_ok (mn mx st : Q) (impl : list Q) : bool := closel (range_values mn mx st) impl.
Definition direction_ok (b : bias) (eta : option Q) (x y z : Q) : bool :=
  let '(mx_, my_, mz_) := direction b eta in close mx_ x && close my_ y && close mz_ z.
