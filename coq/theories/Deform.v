(** * Deform: Clifford deformations as per-qubit relabellings of {X,Y,Z} (C08, used by C01).

    A permutation of {X,Y,Z} on one qubit is an invertible GF(2)-linear map of the pair (x,z)
    (the six permutations are exactly GL(2,2)).  A deformation of an n-qubit register is given by
    four bit masks (a b c d): on qubit q the map is  x' = a_q x + b_q z,  z' = c_q x + d_q z.
    The six single-qubit maps are
      identity (1 0 0 1), Hadamard X<->Z (0 1 1 0), Y<->Z (1 1 0 1), X<->Y (1 0 1 1),
      and the two 3-cycles (1 1 1 0), (0 1 1 1). *)
From Coq Require Import Arith NArith PArith Bool List Lia.
From PQ Require Import Bits Pauli Code.
Import ListNotations.
Local Open Scope N_scope.

Record dmask := DM { da : N; db : N; dc : N; dd : N }.

Definition apply (D : dmask) (v : bsf) : bsf :=
  B (N.lxor (N.land (da D) (bx v)) (N.land (db D) (bz v)))
    (N.lxor (N.land (dc D) (bx v)) (N.land (dd D) (bz v))).

Definition det (D : dmask) : N := N.lxor (N.land (da D) (dd D)) (N.land (db D) (dc D)).

(** every qubit below n carries an invertible map (i.e. a permutation of {X,Y,Z}) *)
Definition perm_ok (n : N) (D : dmask) : bool := N.land (det D) (N.ones n) =? N.ones n.

(** composition of two deformations, and the identity *)
Definition dcomp (E D : dmask) : dmask :=   (* first D then E *)
  DM (N.lxor (N.land (da E) (da D)) (N.land (db E) (dc D)))
     (N.lxor (N.land (da E) (db D)) (N.land (db E) (dd D)))
     (N.lxor (N.land (dc E) (da D)) (N.land (dd E) (dc D)))
     (N.lxor (N.land (dc E) (db D)) (N.land (dd E) (dd D))).
(** E is a left inverse of D on the first n qubits *)
Definition inv_ok (n : N) (E D : dmask) : bool :=
  let C := dcomp E D in
  (N.land (da C) (N.ones n) =? N.ones n) && (N.land (db C) (N.ones n) =? 0) &&
  (N.land (dc C) (N.ones n) =? 0) && (N.land (dd C) (N.ones n) =? N.ones n).

Ltac bitwise :=
  let i := fresh "i" in
  apply N.bits_inj; intro i;
  repeat (rewrite ?N.lxor_spec, ?N.land_spec, ?N.lor_spec);
  repeat match goal with |- context [N.testbit ?x i] => destruct (N.testbit x i) end; reflexivity.

Lemma apply_add D u v : apply D (badd u v) = badd (apply D u) (apply D v).
Proof. unfold apply, badd; cbn [bx bz]. f_equal; bitwise. Qed.
Lemma apply_zero D : apply D bzero = bzero.
Proof. unfold apply, bzero; cbn [bx bz]. now rewrite !N.land_0_r. Qed.

Lemma land_ones_bounded n w : bounded n w = true -> N.land w (N.ones n) = w.
Proof.
  intros H. apply N.bits_inj; intro i. rewrite N.land_spec.
  destruct (N.lt_ge_cases i n) as [Hi|Hi].
  - rewrite N.ones_spec_low by lia. apply andb_true_r.
  - rewrite (bounded_testbit n w i H Hi). reflexivity.
Qed.

Lemma bounded_land_l n a w : bounded n w = true -> bounded n (N.land a w) = true.
Proof.
  unfold bounded; intros H. apply N.eqb_eq in H. apply N.eqb_eq.
  rewrite N.shiftr_land, H. apply N.land_0_r.
Qed.

Lemma apply_bounded n D v : bbounded n v = true -> bbounded n (apply D v) = true.
Proof.
  unfold bbounded, apply; cbn [bx bz]. rewrite !andb_true_iff. intros [Hx Hz].
  split; apply bounded_lxor; now apply bounded_land_l.
Qed.

Lemma det_absorb n D w : perm_ok n D = true -> bounded n w = true -> N.land (det D) w = w.
Proof.
  unfold perm_ok; intros HD Hw. apply N.eqb_eq in HD.
  rewrite <- (land_ones_bounded n w Hw) at 1. rewrite (N.land_comm w), N.land_assoc, HD.
  rewrite N.land_comm. now apply land_ones_bounded.
Qed.

(** ** the symplectic form is invariant under every per-qubit relabelling *)
Theorem sp_apply_invariant n D u v :
  perm_ok n D = true -> bbounded n u = true -> bbounded n v = true ->
  sp (apply D u) (apply D v) = sp u v.
Proof.
  intros HD Hu Hv. unfold bbounded in Hu, Hv. apply andb_true_iff in Hu, Hv.
  destruct Hu as [Hux Huz], Hv as [Hvx Hvz].
  unfold sp, dotN. rewrite <- !npar_lxor. f_equal.
  set (w := N.lxor (N.land (bx u) (bz v)) (N.land (bz u) (bx v))).
  assert (Hw : bounded n w = true).
  { unfold w. apply bounded_lxor; now apply bounded_land_l. }
  transitivity (N.land (det D) w).
  - unfold apply, det, w; cbn [bx bz]. destruct D as [a b c d]; cbn [da db dc dd]. bitwise.
  - now apply (det_absorb n).
Qed.

(** a left inverse undoes the deformation on bounded operators *)
Lemma apply_inv n E D v : inv_ok n E D = true -> bbounded n v = true -> apply E (apply D v) = v.
Proof.
  unfold inv_ok. rewrite !andb_true_iff, !N.eqb_eq. intros [[[Ha Hb] Hc] Hd] Hv.
  unfold bbounded in Hv. apply andb_true_iff in Hv. destruct Hv as [Hx Hz].
  pose proof (land_ones_bounded n _ Hx) as Ex. pose proof (land_ones_bounded n _ Hz) as Ez.
  destruct v as [x z]; cbn [bx bz] in *.
  assert (Hcomp : apply E (apply D (B x z)) =
    B (N.lxor (N.land (da (dcomp E D)) x) (N.land (db (dcomp E D)) z))
      (N.lxor (N.land (dc (dcomp E D)) x) (N.land (dd (dcomp E D)) z))).
  { unfold apply, dcomp; cbn [bx bz da db dc dd]. destruct E as [a b c d], D as [a' b' c' d']; cbn [da db dc dd].
    f_equal; bitwise. }
  rewrite Hcomp. set (C := dcomp E D) in *.
  assert (K : forall m w, N.land m w = N.land (N.land m (N.ones n)) (N.land w (N.ones n)) -> True) by auto.
  assert (R : forall m w, bounded n w = true -> N.land m w = N.land (N.land m (N.ones n)) w).
  { intros m w Hw. rewrite <- (land_ones_bounded n w Hw) at 1.
    rewrite N.land_assoc. rewrite <- (N.land_assoc m w), (N.land_comm w), N.land_assoc.
    rewrite <- N.land_assoc. rewrite (N.land_comm (N.ones n) w), (land_ones_bounded n w Hw). reflexivity. }
  rewrite (R (da C) x Hx), (R (db C) z Hz), (R (dc C) x Hx), (R (dd C) z Hz).
  rewrite Ha, Hb, Hc, Hd. rewrite !N.land_0_l, N.lxor_0_r, N.lxor_0_l.
  rewrite !(N.land_comm (N.ones n)). now rewrite Ex, Ez.
Qed.

(** ** deforming a code *)
Definition deform (D : dmask) (c : code) : code :=
  Code (nq c) (map (apply D) (stabs c)) (map (apply D) (lgx c)) (map (apply D) (lgz c)).

Lemma combo_map D cs rows : combo cs (map (apply D) rows) = apply D (combo cs rows).
Proof.
  revert cs; induction rows as [|r rows IH]; intros [|c0 cs]; cbn [combo map]; try (now rewrite apply_zero).
  destruct c0; rewrite IH; [now rewrite apply_add|reflexivity].
Qed.

Lemma span_map D S v : span S v -> span (map (apply D) S) (apply D v).
Proof.
  induction 1 as [|r v Hr Hv IH]; [rewrite apply_zero; constructor|].
  rewrite apply_add. apply span_add; [now apply in_map|assumption].
Qed.

Section DeformValid.
  Variables (c : code) (D E : dmask).
  Hypothesis HD : perm_ok (nn c) D = true.
  Hypothesis HE : inv_ok (nn c) E D = true.
  Hypothesis V : Valid c.

  Let bnd r : In r (stabs c ++ lgx c ++ lgz c) -> bbounded (nn c) r = true := v_bounded c V r.

  Lemma sp_inv_rows u v : In u (stabs c ++ lgx c ++ lgz c) -> In v (stabs c ++ lgx c ++ lgz c) ->
    sp (apply D u) (apply D v) = sp u v.
  Proof. intros Hu Hv. apply (sp_apply_invariant (nn c)); auto. Qed.

  (** *** deformation preserves validity, with the same n, k and rank (C08 / C01) *)
  Theorem deform_valid : Valid (deform D c).
  Proof.
    assert (IS : forall r, In r (stabs c) -> In r (stabs c ++ lgx c ++ lgz c)) by (intros; apply in_app_iff; auto).
    assert (IX : forall r, In r (lgx c) -> In r (stabs c ++ lgx c ++ lgz c)) by (intros; rewrite !in_app_iff; auto).
    assert (IZ : forall r, In r (lgz c) -> In r (stabs c ++ lgx c ++ lgz c)) by (intros; rewrite !in_app_iff; auto).
    assert (IL : forall r, In r (lgx c ++ lgz c) -> In r (stabs c ++ lgx c ++ lgz c)) by (intros r Hr; apply in_app_iff; auto).
    split; unfold deform; cbn [nq stabs lgx lgz]; unfold nn; cbn [nq].
    - intros r Hr. rewrite <- !map_app in Hr. apply in_map_iff in Hr. destruct Hr as [r0 [<- Hr0]].
      apply apply_bounded. now apply bnd.
    - intros s s' Hs Hs'. apply in_map_iff in Hs, Hs'. destruct Hs as [s0 [<- H0]], Hs' as [s1 [<- H1]].
      rewrite sp_inv_rows by auto. now apply (v_commute c V).
    - intros s l Hs Hl. rewrite <- map_app in Hl. apply in_map_iff in Hs, Hl.
      destruct Hs as [s0 [<- H0]], Hl as [l0 [<- H1]]. rewrite sp_inv_rows by auto. now apply (v_logcomm c V).
    - rewrite !map_length. apply (v_klen c V).
    - intros i j Hi Hj. rewrite map_length in Hi, Hj.
      rewrite <- apply_zero with (D := D). rewrite !map_nth.
      rewrite sp_inv_rows; [now apply (v_xz c V)|apply IX, nth_In; lia|apply IZ, nth_In; lia].
    - intros l l' Hl Hl'. apply in_map_iff in Hl, Hl'. destruct Hl as [l0 [<- H0]], Hl' as [l1 [<- H1]].
      rewrite sp_inv_rows by auto. now apply (v_xx c V).
    - intros l l' Hl Hl'. apply in_map_iff in Hl, Hl'. destruct Hl as [l0 [<- H0]], Hl' as [l1 [<- H1]].
      rewrite sp_inv_rows by auto. now apply (v_zz c V).
    - rewrite map_length. destruct (v_rank c V) as [G [Hinc [Hlen [Hind Hspan]]]].
      exists (map (apply D) G). split; [|split; [|split]].
      + intros g Hg. apply in_map_iff in Hg. destruct Hg as [g0 [<- Hg0]]. apply in_map. now apply Hinc.
      + now rewrite map_length.
      + intros cs Hl Hc. rewrite map_length in Hl. rewrite combo_map in Hc.
        apply Hind; [assumption|].
        assert (Hb : bbounded (nn c) (combo cs G) = true).
        { apply (bbounded_span (nn c) G); [|apply combo_span]. intros r Hr. apply bnd, IS, Hinc, Hr. }
        rewrite <- (apply_inv (nn c) E D _ HE Hb). rewrite Hc. apply apply_zero.
      + intros s Hs. apply in_map_iff in Hs. destruct Hs as [s0 [<- Hs0]]. apply span_map. now apply Hspan.
    - rewrite map_length. apply (v_k_le_n c V).
  Qed.
End DeformValid.

(** ** the deformed code sees the relabelled error exactly as the original code sees the error *)
Theorem syndrome_deform c D e :
  perm_ok (nn c) D = true -> (forall s, In s (stabs c) -> bbounded (nn c) s = true) -> bbounded (nn c) e = true ->
  syndrome (deform D c) (apply D e) = syndrome c e.
Proof.
  intros HD Hb He. unfold syndrome, deform; cbn [stabs]. rewrite map_map. apply map_ext_in.
  intros s Hs. apply (sp_apply_invariant (nn c)); auto.
Qed.

Theorem logical_errors_deform c D e :
  perm_ok (nn c) D = true -> (forall l, In l (lgx c ++ lgz c) -> bbounded (nn c) l = true) -> bbounded (nn c) e = true ->
  logical_errors (deform D c) (apply D e) = logical_errors c e.
Proof.
  intros HD Hb He. unfold logical_errors, deform; cbn [lgx lgz]. rewrite !map_map. f_equal; apply map_ext_in;
    intros l Hl; apply (sp_apply_invariant (nn c)); auto; apply Hb, in_app_iff; auto.
Qed.

Corollary is_success_deform c D e :
  perm_ok (nn c) D = true -> (forall r, In r (stabs c ++ lgx c ++ lgz c) -> bbounded (nn c) r = true) ->
  bbounded (nn c) e = true -> is_success (deform D c) (apply D e) = is_success c e.
Proof.
  intros HD Hb He. unfold is_success, in_codespace, is_logical_error.
  rewrite syndrome_deform, logical_errors_deform; auto.
  - intros l Hl. apply Hb. apply in_app_iff. now right.
  - intros s Hs. apply Hb. apply in_app_iff. now left.
Qed.

(** ** the named deformations of the library, as masks built from the set of affected qubits *)
(** "XZZX"-type: Hadamard (X<->Z) on the qubits of [m], identity elsewhere *)
Definition hadamard_on (n m : N) : dmask :=
  let k := N.lxor (N.ones n) m in DM k m m k.
(** "XY": Y<->Z on the qubits of [m] (the library uses every qubit), identity elsewhere *)
Definition yz_swap_on (n m : N) : dmask := DM (N.ones n) m 0 (N.ones n).

Lemma hadamard_on_ok n m : bounded n m = true ->
  perm_ok n (hadamard_on n m) = true /\ inv_ok n (hadamard_on n m) (hadamard_on n m) = true.
Proof.
  intros Hm. pose proof (land_ones_bounded n m Hm) as Em.
  assert (E : forall i, N.testbit m i = true -> N.testbit (N.ones n) i = true).
  { intros i Hi. destruct (N.lt_ge_cases i n) as [Hl|Hg]; [now apply N.ones_spec_low|].
    rewrite (bounded_testbit n m i Hm Hg) in Hi. discriminate. }
  unfold perm_ok, inv_ok, hadamard_on, det, dcomp; cbn [da db dc dd].
  rewrite !andb_true_iff, !N.eqb_eq. repeat split; apply N.bits_inj; intro i;
    repeat (rewrite ?N.lxor_spec, ?N.land_spec, ?N.bits_0); specialize (E i);
    destruct (N.testbit m i), (N.testbit (N.ones n) i); try reflexivity; discriminate (E eq_refl).
Qed.

Lemma yz_swap_on_ok n m : bounded n m = true ->
  perm_ok n (yz_swap_on n m) = true /\ inv_ok n (yz_swap_on n m) (yz_swap_on n m) = true.
Proof.
  intros Hm.
  assert (E : forall i, N.testbit m i = true -> N.testbit (N.ones n) i = true).
  { intros i Hi. destruct (N.lt_ge_cases i n) as [Hl|Hg]; [now apply N.ones_spec_low|].
    rewrite (bounded_testbit n m i Hm Hg) in Hi. discriminate. }
  unfold perm_ok, inv_ok, yz_swap_on, det, dcomp; cbn [da db dc dd].
  rewrite !andb_true_iff, !N.eqb_eq. repeat split; apply N.bits_inj; intro i;
    repeat (rewrite ?N.lxor_spec, ?N.land_spec, ?N.bits_0); specialize (E i);
    destruct (N.testbit m i), (N.testbit (N.ones n) i); try reflexivity; discriminate (E eq_refl).
Qed.

(** ** boolean checkers used on dumped tables *)
Fixpoint bsf_list_eqb (a b : list bsf) : bool :=
  match a, b with
  | [], [] => true
  | x :: a', y :: b' => beqb x y && bsf_list_eqb a' b'
  | _, _ => false
  end.
Lemma bsf_list_eqb_eq a b : bsf_list_eqb a b = true -> a = b.
Proof.
  revert b; induction a as [|x a IH]; intros [|y b] H; cbn in H; try discriminate; [reflexivity|].
  apply andb_true_iff in H. destruct H as [H1 H2]. apply beqb_eq in H1. subst. f_equal. auto.
Qed.
Definition code_eqb (c1 c2 : code) : bool :=
  Nat.eqb (nq c1) (nq c2) && bsf_list_eqb (stabs c1) (stabs c2) && bsf_list_eqb (lgx c1) (lgx c2)
  && bsf_list_eqb (lgz c1) (lgz c2).
Lemma code_eqb_eq c1 c2 : code_eqb c1 c2 = true -> c1 = c2.
Proof.
  destruct c1, c2; unfold code_eqb; cbn. rewrite !andb_true_iff. intros [[[H1 H2] H3] H4].
  apply Nat.eqb_eq in H1. apply bsf_list_eqb_eq in H2, H3, H4. now subst.
Qed.

(** [deformed_ok]: the deformed table dumped from the implementation is exactly the image of the
    undeformed dumped table under the relabelling described by the dumped per-qubit dictionaries *)
Definition deformed_ok (c cd : code) (D : dmask) : bool :=
  perm_ok (nn c) D && inv_ok (nn c) D D && code_eqb (deform D c) cd.

Theorem deformed_ok_valid c cd D : deformed_ok c cd D = true -> Valid c -> Valid cd.
Proof.
  unfold deformed_ok. rewrite !andb_true_iff. intros [[H1 H2] H3] V.
  apply code_eqb_eq in H3. subst cd. now apply (deform_valid c D D).
Qed.

Definition dmask_eqb (D E : dmask) : bool :=
  (da D =? da E) && (db D =? db E) && (dc D =? dc E) && (dd D =? dd E).
Lemma dmask_eqb_eq D E : dmask_eqb D E = true -> D = E.
Proof.
  destruct D, E; unfold dmask_eqb; cbn. rewrite !andb_true_iff, !N.eqb_eq. intros [[[-> ->] ->] ->]. reflexivity.
Qed.
