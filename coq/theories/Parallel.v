(** * Parallel: the task split of [panqec run-parallel] (C14).

    Model of the loop body of [cli.run_parallel]: given the number of input files [I], nodes [Nn],
    cores per node [C] and requested trials [T], task number [t] (0-based, [t = n_cores*i_node +
    i_core]) is assigned an input file, a position inside that input and a number of trials. *)
From Coq Require Import Arith NArith Bool List Lia.
Import ListNotations.
Local Open Scope N_scope.

Section Split.
  Variables I M T : N.      (* inputs, total tasks (nodes*cores), trials *)

  Definition base : N := M / I.
  Definition rem : N := M mod I.
  Definition inp (t : N) : N := if I <=? t / base then I - 1 else t / base.
  Definition last (t : N) : bool := inp t =? I - 1.
  Definition tpi (t : N) : N := if last t then base + rem else base.
  Definition pos (t : N) : N := if last t then t - base * (I - 1) else t mod tpi t.
  (** the rule after the fix: the last task of an input gets the remainder [T mod tasks-per-input] *)
  Definition runs (t : N) : N := T / tpi t + (if pos t =? tpi t - 1 then T mod tpi t else 0).
  (** the rule before the fix (kept for the refutation): remainder [T mod n_runs] *)
  Definition runs_old (t : N) : N := let q := T / tpi t in q + (if pos t =? tpi t - 1 then T mod q else 0).

  (** tasks of input i form the block [lo i, lo i + len i) *)
  Definition lo (i : N) : N := i * base.
  Definition len (i : N) : N := if i =? I - 1 then base + rem else base.

  Hypothesis HI : 1 <= I.
  Hypothesis HM : I <= M.

  Lemma base_pos : 1 <= base.
  Proof. unfold base. apply N.div_le_lower_bound; lia. Qed.

  Lemma M_split : M = I * base + rem.
  Proof. unfold base, rem. apply N.div_mod. lia. Qed.

  Lemma rem_lt : rem < I.
  Proof. unfold rem. apply N.mod_lt. lia. Qed.

  Lemma inp_block i t : i < I -> lo i <= t -> t < lo i + len i -> inp t = i.
  Proof.
    intros Hi Hlo Hhi. pose proof base_pos as Hb.
    unfold inp, lo, len in *. set (b := base) in *. clearbody b.
    destruct (N.eqb_spec i (I - 1)) as [->|Hne].
    - assert (Hq : I - 1 <= t / b).
      { apply N.div_le_lower_bound; [clear - Hb; lia|clear - Hlo; rewrite N.mul_comm; lia]. }
      destruct (N.leb_spec I (t / b)) as [H|H]; [reflexivity|clear - H Hq HI; lia].
    - assert (Hq : t / b = i).
      { symmetry. apply (N.div_unique t b i (t - i * b)); [clear - Hlo Hhi Hb; lia|clear - Hlo; rewrite (N.mul_comm b i); lia]. }
      rewrite Hq. destruct (N.leb_spec I i) as [H|H]; [clear - H Hi; lia|reflexivity].
  Qed.

  Lemma block_cover t : t < M -> exists i, i < I /\ lo i <= t /\ t < lo i + len i.
  Proof.
    intros Ht. pose proof base_pos as Hb. pose proof M_split as HMs. pose proof rem_lt as Hr.
    unfold lo, len. set (b := base) in *. set (r := rem) in *. clearbody b r.
    pose proof (N.div_mod t b ltac:(clear - Hb; lia)) as D. pose proof (N.mod_lt t b ltac:(clear - Hb; lia)) as L.
    set (q := t / b) in *. set (m := t mod b) in *. clearbody q m.
    destruct (N.lt_ge_cases q (I - 1)) as [Hlt|Hge].
    - exists q. replace (q =? I - 1) with false by (symmetry; apply N.eqb_neq; clear - Hlt; lia).
      rewrite (N.mul_comm q b). clear - D L Hlt. repeat split; lia.
    - exists (I - 1). rewrite N.eqb_refl.
      assert (E : (I - 1) * b + b = I * b) by (clear - HI; nia).
      assert (G : (I - 1) * b <= b * q) by (rewrite (N.mul_comm b q); apply N.mul_le_mono_r; exact Hge).
      repeat split; [clear - HI; lia|clear - G D; lia|].
      rewrite N.add_assoc, E. clear - Ht HMs. lia.
  Qed.

  (** trials of the j-th task of input i *)
  Lemma runs_block i j : i < I -> j < len i -> 1 <= len i ->
    runs (lo i + j) = T / len i + (if j =? len i - 1 then T mod len i else 0).
  Proof.
    intros Hi Hj Hl. pose proof base_pos as Hb.
    assert (Hin : inp (lo i + j) = i) by (apply inp_block; lia).
    unfold runs, tpi, pos, last. rewrite Hin. unfold len in *.
    destruct (N.eqb_spec i (I - 1)) as [->|Hne].
    - unfold lo. replace ((I - 1) * base + j - base * (I - 1)) with j by lia. reflexivity.
    - unfold tpi, last. rewrite Hin. replace (i =? I - 1) with false by (symmetry; now apply N.eqb_neq).
      unfold lo. replace (i * base + j) with (j + i * base) by (clear; lia). rewrite N.mod_add by (clear - Hb; lia).
      rewrite N.mod_small by (clear - Hj; lia). reflexivity.
  Qed.
End Split.

(** sum of the trials over a block of [n] consecutive positions *)
Fixpoint block_sum (f : N -> N) (start : N) (n : nat) : N :=
  match n with O => 0 | S m => f start + block_sum f (N.succ start) m end.

Lemma block_sum_ext f g s n : (forall j, s <= j -> j < s + N.of_nat n -> f j = g j) -> block_sum f s n = block_sum g s n.
Proof.
  revert s; induction n as [|n IH]; intros s H; [reflexivity|]. cbn [block_sum].
  rewrite (H s) by lia. f_equal. apply IH. intros j H1 H2. apply H; lia.
Qed.

Lemma block_sum_flat q r L : forall s (n : nat), s + N.of_nat n = L -> 1 <= L ->
  block_sum (fun j => q + (if j =? L - 1 then r else 0)) s n = N.of_nat n * q + (if (0 <? N.of_nat n) then r else 0).
Proof.
  intros s n; revert s; induction n as [|n IH]; intros s Hs HL; [cbn; lia|].
  cbn [block_sum]. destruct n as [|n'].
  - cbn [block_sum]. replace (s =? L - 1) with true by (symmetry; apply N.eqb_eq; lia).
    change (N.of_nat 1) with 1. rewrite N.mul_1_l. change (0 <? 1) with true. cbv iota. lia.
  - rewrite (IH (N.succ s)) by lia.
    replace (s =? L - 1) with false by (symmetry; apply N.eqb_neq; lia).
    replace (0 <? N.of_nat (S n')) with true by (symmetry; apply N.ltb_lt; lia).
    replace (0 <? N.of_nat (S (S n'))) with true by (symmetry; apply N.ltb_lt; lia). lia.
Qed.

(** *** C14, arithmetic core: every input file receives exactly T trials in total, every task at least
    one, for ALL numbers of inputs, nodes x cores, and trials *)
Theorem parallel_total I M T i :
  1 <= I -> I <= M -> i < I -> len I M i <= T ->
  block_sum (runs I M T) (lo I M i) (N.to_nat (len I M i)) = T.
Proof.
  intros HI HM Hi HT. pose proof (base_pos I M HI HM) as Hb.
  assert (Hl : 1 <= len I M i) by (unfold len; destruct (i =? I - 1); lia).
  rewrite (block_sum_ext _ (fun t => T / len I M i + (if (t - lo I M i) =? len I M i - 1 then T mod len I M i else 0))).
  - (* shift to positions 0..len-1 *)
    assert (Hshift : forall (n : nat) s, block_sum (fun t => T / len I M i + (if t - lo I M i =? len I M i - 1 then T mod len I M i else 0)) (lo I M i + s) n
                     = block_sum (fun j => T / len I M i + (if j =? len I M i - 1 then T mod len I M i else 0)) s n).
    { induction n as [|n IH]; intros s; [reflexivity|]. cbn [block_sum].
      replace (lo I M i + s - lo I M i) with s by lia. f_equal.
      replace (N.succ (lo I M i + s)) with (lo I M i + N.succ s) by lia. apply IH. }
    replace (lo I M i) with (lo I M i + 0) at 1 by lia. rewrite Hshift.
    rewrite (block_sum_flat _ _ (len I M i)) by lia.
    replace (0 <? N.of_nat (N.to_nat (len I M i))) with true by (symmetry; apply N.ltb_lt; lia).
    rewrite N2Nat.id. symmetry. rewrite (N.mul_comm (len I M i)). rewrite N.mul_comm. apply N.div_mod. lia.
  - intros t H1 H2. rewrite N2Nat.id in H2.
    replace t with (lo I M i + (t - lo I M i)) at 1 by lia. apply runs_block; lia.
Qed.

Theorem parallel_every_task_gets_a_trial I M T t :
  1 <= I -> I <= M -> t < M -> (forall i, i < I -> len I M i <= T) -> 1 <= runs I M T t.
Proof.
  intros HI HM Ht HT. pose proof (base_pos I M HI HM) as Hb.
  destruct (block_cover I M HI HM t Ht) as [i [Hi [H1 H2]]].
  assert (Hl : 1 <= len I M i) by (unfold len; destruct (i =? I - 1); lia).
  replace t with (lo I M i + (t - lo I M i)) by lia. rewrite runs_block by lia.
  assert (1 <= T / len I M i) by (apply N.div_le_lower_bound; [lia|specialize (HT i Hi); lia]). lia.
Qed.

(** the input a task works on is the block it lies in; blocks tile [0, M) *)
Theorem parallel_blocks_tile I M t : 1 <= I -> I <= M -> t < M ->
  inp I M t < I /\ lo I M (inp I M t) <= t /\ t < lo I M (inp I M t) + len I M (inp I M t).
Proof.
  intros HI HM Ht. destruct (block_cover I M HI HM t Ht) as [i [Hi [H1 H2]]].
  rewrite (inp_block I M HI HM i t Hi H1 H2). auto.
Qed.

(** no division by zero: every divisor used is at least 1 *)
Theorem parallel_divisors_positive I M t : 1 <= I -> I <= M -> 1 <= base I M /\ 1 <= tpi I M t.
Proof.
  intros HI HM. pose proof (base_pos I M HI HM). split; [assumption|]. unfold tpi. destruct (last I M t); lia.
Qed.

(** the remainder rule of the code before the fix does NOT conserve the total *)
Example old_rule_refuted : block_sum (runs_old 1 4 10) (lo 1 4 0) (N.to_nat (len 1 4 0)) = 8.
Proof. reflexivity. Qed.
Example new_rule_on_same_input : block_sum (runs 1 4 10) (lo 1 4 0) (N.to_nat (len 1 4 0)) = 10.
Proof. reflexivity. Qed.

(** result file names: task index + 1, zero padded to the number of digits of the task count, is injective *)
Definition file_index (t : N) : N := t + 1.
Theorem file_index_injective t t' : file_index t = file_index t' -> t = t'.
Proof. unfold file_index. lia. Qed.

(** whole-run table used by the correspondence check: for every task (input index, trials) *)
Definition plan (I M T : N) : list (N * N) :=
  map (fun k => let t := N.of_nat k in (inp I M t, runs I M T t)) (seq 0 (N.to_nat M)).
Fixpoint plan_eqb (a b : list (N * N)) : bool :=
  match a, b with
  | [], [] => true
  | (x, y) :: a', (x', y') :: b' => (x =? x') && (y =? y') && plan_eqb a' b'
  | _, _ => false
  end.
