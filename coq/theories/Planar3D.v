(** * Planar3D: parametric model of [Planar3DCode] (Layer P): for EVERY size L_x, L_y, L_z >= 2 all
    stabilizer generators pairwise commute (open boundaries: the [is_qubit] filter drops the missing
    neighbours).  Tied to the implementation on the grid in C01. *)
From Coq Require Import ZArith List Bool Lia ZifyBool.
From PQ Require Import Toric2D Toric3D.
Import ListNotations.
Local Open Scope Z_scope.
Ltac Zify.zify_post_hook ::= Z.to_euclidean_division_equations.

Definition rg (start count : Z) : list Z := range2 start (Z.to_nat count).   (* range(start, start + 2*count, 2) *)

Definition qubits (Lx Ly Lz : Z) : list pt3 :=
  grid3 (rg 1 Lx) (rg 0 Ly) (rg 0 Lz) ++ grid3 (rg 2 (Lx - 1)) (rg 1 (Ly - 1)) (rg 0 Lz) ++ grid3 (rg 2 (Lx - 1)) (rg 0 Ly) (rg 1 (Lz - 1)).
Definition stab_coords (Lx Ly Lz : Z) : list pt3 :=
  grid3 (rg 2 (Lx - 1)) (rg 0 Ly) (rg 0 Lz) ++ grid3 (rg 1 Lx) (rg 1 (Ly - 1)) (rg 0 Lz)
  ++ grid3 (rg 2 (Lx - 1)) (rg 1 (Ly - 1)) (rg 1 (Lz - 1)) ++ grid3 (rg 1 Lx) (rg 0 Ly) (rg 1 (Lz - 1)).

Definition is_vertex (loc : pt3) : bool := let '(x, y, z) := loc in (x mod 2 =? 0) && (y mod 2 =? 0).
Definition deltas (loc : pt3) : list pt3 :=
  let '(x, y, z) := loc in
  if is_vertex loc then [(1, 0, 0); (-1, 0, 0); (0, 1, 0); (0, -1, 0); (0, 0, 1); (0, 0, -1)]
  else if z mod 2 =? 0 then [(-1, 0, 0); (1, 0, 0); (0, -1, 0); (0, 1, 0)]
  else if x mod 2 =? 0 then [(0, -1, 0); (0, 1, 0); (0, 0, -1); (0, 0, 1)]
  else [(-1, 0, 0); (1, 0, 0); (0, 0, -1); (0, 0, 1)].
Definition add3 (a d : pt3) : pt3 := let '(x, y, z) := a in let '(dx, dy, dz) := d in (x + dx, y + dy, z + dz).
Definition is_qubit_b (Lx Ly Lz : Z) (q : pt3) : bool :=
  let '(x, y, z) := q in
  ((x mod 2 =? 1) && (1 <=? x) && (x <=? 2 * Lx - 1) && (y mod 2 =? 0) && (0 <=? y) && (y <=? 2 * Ly - 2) && (z mod 2 =? 0) && (0 <=? z) && (z <=? 2 * Lz - 2))
  || ((x mod 2 =? 0) && (2 <=? x) && (x <=? 2 * Lx - 2) && (y mod 2 =? 1) && (1 <=? y) && (y <=? 2 * Ly - 3) && (z mod 2 =? 0) && (0 <=? z) && (z <=? 2 * Lz - 2))
  || ((x mod 2 =? 0) && (2 <=? x) && (x <=? 2 * Lx - 2) && (y mod 2 =? 0) && (0 <=? y) && (y <=? 2 * Ly - 2) && (z mod 2 =? 1) && (1 <=? z) && (z <=? 2 * Lz - 3)).
Definition support (Lx Ly Lz : Z) (loc : pt3) : list pt3 := filter (is_qubit_b Lx Ly Lz) (map (add3 loc) (deltas loc)).

Lemma in_rg s c z : In z (rg s c) <-> exists k, 0 <= k < c /\ z = s + 2 * k.
Proof. unfold rg. rewrite in_range2. split; intros [k [Hk ->]]; exists k; lia. Qed.

(** [is_qubit_b] is membership in the generated qubit list ([location in self.qubit_index]) *)
Lemma is_qubit_spec Lx Ly Lz q : 1 <= Lx -> 1 <= Ly -> 1 <= Lz -> is_qubit_b Lx Ly Lz q = true <-> In q (qubits Lx Ly Lz).
Proof.
  intros HLx HLy HLz. destruct q as [[x y] z]. unfold qubits, is_qubit_b. rewrite !in_app_iff, !in_grid3, !in_rg. split.
  - intros H. apply orb_true_iff in H. destruct H as [H|H]; [apply orb_true_iff in H; destruct H as [H|H]|].
    + left. repeat split; [exists ((x - 1) / 2)|exists (y / 2)|exists (z / 2)]; lia.
    + right; left. repeat split; [exists ((x - 2) / 2)|exists ((y - 1) / 2)|exists (z / 2)]; lia.
    + right; right. repeat split; [exists ((x - 2) / 2)|exists (y / 2)|exists ((z - 1) / 2)]; lia.
  - intros [([a [Ha ->]] & [b [Hb ->]] & [c [Hc ->]])|[([a [Ha ->]] & [b [Hb ->]] & [c [Hc ->]])|([a [Ha ->]] & [b [Hb ->]] & [c [Hc ->]])]]; lia.
Qed.

Lemma mem3_filter (p : pt3 -> bool) q l : mem3 q (filter p l) = p q && mem3 q l.
Proof.
  induction l as [|a l IH]; cbn [filter]; [now rewrite andb_false_r|].
  destruct (p a) eqn:E; cbn [mem3 existsb]; fold (mem3 q (filter p l)); fold (mem3 q l); rewrite IH.
  - destruct (pt3_eqb q a) eqn:Q; cbn [orb]; [|reflexivity]. apply pt3_eqb_eq in Q; subst. now rewrite E.
  - destruct (pt3_eqb q a) eqn:Q; cbn [orb]; [|reflexivity]. apply pt3_eqb_eq in Q; subst. now rewrite E.
Qed.
Lemma overlap3_filter (p : pt3 -> bool) l b :
  overlap3 (filter p l) b = fold_left xorb (map (fun q => p q && mem3 q b) l) false.
Proof.
  unfold overlap3. generalize false. induction l as [|a l IH]; intros acc; cbn [filter map fold_left]; [reflexivity|].
  destruct (p a); cbn [map fold_left andb]; [apply IH|]. rewrite xorb_false_r. apply IH.
Qed.

Lemma stab_cases Lx Ly Lz x y z : In (x, y, z) (stab_coords Lx Ly Lz) ->
  (x mod 2 = 0 /\ 2 <= x <= 2 * Lx - 2 /\ y mod 2 = 0 /\ 0 <= y <= 2 * Ly - 2 /\ z mod 2 = 0 /\ 0 <= z <= 2 * Lz - 2) \/
  (x mod 2 = 1 /\ 1 <= x <= 2 * Lx - 1 /\ y mod 2 = 1 /\ 1 <= y <= 2 * Ly - 3 /\ z mod 2 = 0 /\ 0 <= z <= 2 * Lz - 2) \/
  (x mod 2 = 0 /\ 2 <= x <= 2 * Lx - 2 /\ y mod 2 = 1 /\ 1 <= y <= 2 * Ly - 3 /\ z mod 2 = 1 /\ 1 <= z <= 2 * Lz - 3) \/
  (x mod 2 = 1 /\ 1 <= x <= 2 * Lx - 1 /\ y mod 2 = 0 /\ 0 <= y <= 2 * Ly - 2 /\ z mod 2 = 1 /\ 1 <= z <= 2 * Lz - 3).
Proof.
  unfold stab_coords. rewrite !in_app_iff, !in_grid3, !in_rg.
  intros [([a [Ha ->]] & [b [Hb ->]] & [c [Hc ->]])|[([a [Ha ->]] & [b [Hb ->]] & [c [Hc ->]])|[([a [Ha ->]] & [b [Hb ->]] & [c [Hc ->]])|([a [Ha ->]] & [b [Hb ->]] & [c [Hc ->]])]]]; lia.
Qed.

Ltac decide_eqbs :=
  repeat match goal with
         | |- context[(?a =? ?b)] => first [replace (a =? b) with false by lia | replace (a =? b) with true by lia]
         end.
Ltac decide_false := repeat match goal with |- context[(?a =? ?b)] => replace (a =? b) with false by lia end.
Ltac qubit_true :=
  repeat match goal with
         | |- context[is_qubit_b ?Lx ?Ly ?Lz ?q] => replace (is_qubit_b Lx Ly Lz q) with true by (unfold is_qubit_b; lia)
         end.

(** vertex (2a, 2b, 2c) against the three face orientations, parities given by explicit witnesses
    so that the many coordinate comparisons are linear *)
Ltac cross_tac a b c d e f :=
  unfold support, deltas, is_vertex;
  repeat match goal with |- context[(?t mod 2 =? 0)] => first [replace (t mod 2 =? 0) with true by lia | replace (t mod 2 =? 0) with false by lia] end;
  cbn [andb]; rewrite overlap3_filter; cbn [map add3 fold_left]; rewrite !mem3_filter; cbn [mem3 existsb pt3_eqb];
  decide_false; cbn [andb orb]; rewrite ?andb_false_r; cbn [orb];
  (destruct (Z.eq_dec d a) as [?|?]; [|destruct (Z.eq_dec (d + 1) a) as [?|?]; [|destruct (Z.eq_dec (d - 1) a) as [?|?]]]);
  (destruct (Z.eq_dec e b) as [?|?]; [|destruct (Z.eq_dec (e + 1) b) as [?|?]; [|destruct (Z.eq_dec (e - 1) b) as [?|?]]]);
  (destruct (Z.eq_dec f c) as [?|?]; [|destruct (Z.eq_dec (f + 1) c) as [?|?]; [|destruct (Z.eq_dec (f - 1) c) as [?|?]]]);
  decide_eqbs; cbn [andb orb]; rewrite ?andb_false_r, ?andb_true_r; cbn [xorb]; qubit_true; reflexivity.

Lemma cross_xy Lx Ly Lz a b c d e f : 2 <= Lx -> 2 <= Ly -> 2 <= Lz ->
  2 <= 2 * a <= 2 * Lx - 2 -> 0 <= 2 * b <= 2 * Ly - 2 -> 0 <= 2 * c <= 2 * Lz - 2 ->
  1 <= 2 * d + 1 <= 2 * Lx - 1 -> 1 <= 2 * e + 1 <= 2 * Ly - 3 -> 0 <= 2 * f <= 2 * Lz - 2 ->
  overlap3 (support Lx Ly Lz (2 * a, 2 * b, 2 * c)) (support Lx Ly Lz (2 * d + 1, 2 * e + 1, 2 * f)) = false.
Proof. intros HLx HLy HLz Ra Rb Rc Rd Re Rf. cross_tac a b c d e f. Qed.
Lemma cross_yz Lx Ly Lz a b c d e f : 2 <= Lx -> 2 <= Ly -> 2 <= Lz ->
  2 <= 2 * a <= 2 * Lx - 2 -> 0 <= 2 * b <= 2 * Ly - 2 -> 0 <= 2 * c <= 2 * Lz - 2 ->
  2 <= 2 * d <= 2 * Lx - 2 -> 1 <= 2 * e + 1 <= 2 * Ly - 3 -> 1 <= 2 * f + 1 <= 2 * Lz - 3 ->
  overlap3 (support Lx Ly Lz (2 * a, 2 * b, 2 * c)) (support Lx Ly Lz (2 * d, 2 * e + 1, 2 * f + 1)) = false.
Proof. intros HLx HLy HLz Ra Rb Rc Rd Re Rf. cross_tac a b c d e f. Qed.
Lemma cross_xz Lx Ly Lz a b c d e f : 2 <= Lx -> 2 <= Ly -> 2 <= Lz ->
  2 <= 2 * a <= 2 * Lx - 2 -> 0 <= 2 * b <= 2 * Ly - 2 -> 0 <= 2 * c <= 2 * Lz - 2 ->
  1 <= 2 * d + 1 <= 2 * Lx - 1 -> 0 <= 2 * e <= 2 * Ly - 2 -> 1 <= 2 * f + 1 <= 2 * Lz - 3 ->
  overlap3 (support Lx Ly Lz (2 * a, 2 * b, 2 * c)) (support Lx Ly Lz (2 * d + 1, 2 * e, 2 * f + 1)) = false.
Proof. intros HLx HLy HLz Ra Rb Rc Rd Re Rf. cross_tac a b c d e f. Qed.

Theorem planar3d_vertex_face_commute Lx Ly Lz v f :
  2 <= Lx -> 2 <= Ly -> 2 <= Lz -> In v (stab_coords Lx Ly Lz) -> In f (stab_coords Lx Ly Lz) ->
  is_vertex v = true -> is_vertex f = false ->
  overlap3 (support Lx Ly Lz v) (support Lx Ly Lz f) = false.
Proof.
  intros HLx HLy HLz Hv Hf Tv Tf. destruct v as [[vx vy] vz], f as [[fx fy] fz].
  apply stab_cases in Hv. apply stab_cases in Hf. unfold is_vertex in Tv, Tf.
  assert (V : vx mod 2 = 0 /\ 2 <= vx <= 2 * Lx - 2 /\ vy mod 2 = 0 /\ 0 <= vy <= 2 * Ly - 2 /\ vz mod 2 = 0 /\ 0 <= vz <= 2 * Lz - 2) by lia.
  clear Hv Tv. destruct V as (P1 & R1 & P2 & R2 & P3 & R3).
  assert (E1 : exists a, vx = 2 * a) by (exists (vx / 2); lia). assert (E2 : exists b, vy = 2 * b) by (exists (vy / 2); lia).
  assert (E3 : exists c, vz = 2 * c) by (exists (vz / 2); lia).
  destruct E1 as [a ->], E2 as [b ->], E3 as [c ->]. clear P1 P2 P3.
  destruct Hf as [Hf|[Hf|[Hf|Hf]]]; [lia| | |]; destruct Hf as (Q1 & S1 & Q2 & S2 & Q3 & S3); clear Tf.
  - assert (F1 : exists d, fx = 2 * d + 1) by (exists (fx / 2); lia). assert (F2 : exists e, fy = 2 * e + 1) by (exists (fy / 2); lia).
    assert (F3 : exists f, fz = 2 * f) by (exists (fz / 2); lia).
    destruct F1 as [d ->], F2 as [e ->], F3 as [f ->]. clear Q1 Q2 Q3. apply cross_xy; assumption.
  - assert (F1 : exists d, fx = 2 * d) by (exists (fx / 2); lia). assert (F2 : exists e, fy = 2 * e + 1) by (exists (fy / 2); lia).
    assert (F3 : exists f, fz = 2 * f + 1) by (exists (fz / 2); lia).
    destruct F1 as [d ->], F2 as [e ->], F3 as [f ->]. clear Q1 Q2 Q3. apply cross_yz; assumption.
  - assert (F1 : exists d, fx = 2 * d + 1) by (exists (fx / 2); lia). assert (F2 : exists e, fy = 2 * e) by (exists (fy / 2); lia).
    assert (F3 : exists f, fz = 2 * f + 1) by (exists (fz / 2); lia).
    destruct F1 as [d ->], F2 as [e ->], F3 as [f ->]. clear Q1 Q2 Q3. apply cross_xz; assumption.
Qed.

(** supports are duplicate-free: the delta lists have pairwise different entries and [filter] keeps that *)
Lemma support_nodup Lx Ly Lz s : NoDup (support Lx Ly Lz s).
Proof.
  destruct s as [[x y] z]. unfold support. apply NoDup_filter. unfold deltas, is_vertex.
  destruct ((x mod 2 =? 0) && (y mod 2 =? 0)); [|destruct (z mod 2 =? 0); [|destruct (x mod 2 =? 0)]]; cbn [map add3]; nodup3.
Qed.

Theorem planar3d_stabilizers_commute Lx Ly Lz s s' :
  2 <= Lx -> 2 <= Ly -> 2 <= Lz -> In s (stab_coords Lx Ly Lz) -> In s' (stab_coords Lx Ly Lz) ->
  ops_commute3 (is_vertex s) (support Lx Ly Lz s) (is_vertex s') (support Lx Ly Lz s') = true.
Proof.
  intros HLx HLy HLz Hs Hs'. unfold ops_commute3.
  destruct (is_vertex s) eqn:E, (is_vertex s') eqn:E'; cbn [Bool.eqb]; try reflexivity; apply negb_true_iff.
  - apply planar3d_vertex_face_commute; assumption.
  - rewrite overlap3_sym by apply support_nodup. apply planar3d_vertex_face_commute; assumption.
Qed.

Definition table_matches (Lx Ly Lz : Z) (qs ss : list pt3) (supports : list (list pt3)) : bool :=
  pt3l_eqb (qubits Lx Ly Lz) qs && pt3l_eqb (stab_coords Lx Ly Lz) ss
  && pt3ll_eqb (map (support Lx Ly Lz) (stab_coords Lx Ly Lz)) supports.
