(** * Bits: GF(2) vectors as [N] bitsets.

    A vector over GF(2) is a natural number; bit [i] is coordinate [i].  Addition is
    [N.lxor], the pointwise product is [N.land], the dot product is the parity of the
    population count of the pointwise product.  No length is carried around: a vector of
    length [n] is simply a number below [2^n] ([bounded n v]). *)
From Coq Require Import NArith PArith Bool List Lia.
Import ListNotations.
Local Open Scope N_scope.

(** ** parity of the population count, by structural recursion on [positive] *)
Fixpoint ppar (p : positive) : bool :=
  match p with xH => true | xO q => ppar q | xI q => negb (ppar q) end.
Definition npar (a : N) : bool := match a with N0 => false | Npos p => ppar p end.

Lemma npar_double a : npar (N.double a) = npar a.
Proof. destruct a; reflexivity. Qed.
Lemma npar_succ_double a : npar (N.succ_double a) = negb (npar a).
Proof. destruct a; reflexivity. Qed.

Lemma ppar_lxor : forall p q, npar (Pos.lxor p q) = xorb (ppar p) (ppar q).
Proof.
  induction p as [p IH|p IH|]; destruct q as [q|q|]; cbn [Pos.lxor ppar npar];
  rewrite ?npar_double, ?npar_succ_double, ?IH;
  repeat match goal with |- context [ppar ?x] => destruct (ppar x) end; reflexivity.
Qed.

Lemma npar_lxor a b : npar (N.lxor a b) = xorb (npar a) (npar b).
Proof.
  destruct a as [|p], b as [|q]; cbn [N.lxor npar]; try reflexivity.
  - destruct (ppar q); reflexivity.
  - destruct (ppar p); reflexivity.
  - apply ppar_lxor.
Qed.

Lemma land_lxor_distr_l a b c : N.land (N.lxor a b) c = N.lxor (N.land a c) (N.land b c).
Proof.
  apply N.bits_inj; intro i. rewrite ?N.land_spec, ?N.lxor_spec, ?N.land_spec.
  destruct (N.testbit a i), (N.testbit b i), (N.testbit c i); reflexivity.
Qed.

(** ** dot product *)
Definition dotN (a b : N) : bool := npar (N.land a b).

Lemma dotN_comm a b : dotN a b = dotN b a.
Proof. unfold dotN. now rewrite N.land_comm. Qed.
Lemma dotN_lxor_l a b c : dotN (N.lxor a b) c = xorb (dotN a c) (dotN b c).
Proof. unfold dotN. rewrite land_lxor_distr_l. apply npar_lxor. Qed.
Lemma dotN_lxor_r a b c : dotN c (N.lxor a b) = xorb (dotN c a) (dotN c b).
Proof. rewrite !(dotN_comm c). apply dotN_lxor_l. Qed.
Lemma dotN_0_l a : dotN 0 a = false.
Proof. reflexivity. Qed.
Lemma dotN_0_r a : dotN a 0 = false.
Proof. now rewrite dotN_comm. Qed.

(** the unit vector [2^j] picks out bit [j] *)
Lemma ppar_pow2 : forall j : positive, ppar (Pos.shiftl 1 (Npos j)) = true.
Proof.
  intro j. cbn [Pos.shiftl]. induction j using Pos.peano_ind.
  - reflexivity.
  - rewrite Pos.iter_succ. cbn [ppar]. exact IHj.
Qed.
Lemma npar_pow2 j : npar (N.shiftl 1 j) = true.
Proof.
  destruct j as [|j]; [reflexivity|]. cbn [N.shiftl npar]. apply ppar_pow2.
Qed.

Definition unit (j : N) : N := N.shiftl 1 j.

Lemma testbit_unit j i : N.testbit (unit j) i = (i =? j).
Proof.
  unfold unit. rewrite N.shiftl_1_l. destruct (N.eqb_spec i j) as [->|Hne].
  - apply N.pow2_bits_true.
  - apply N.pow2_bits_false. congruence.
Qed.

Lemma land_unit v j : N.land v (unit j) = if N.testbit v j then unit j else 0.
Proof.
  apply N.bits_inj; intro i. rewrite N.land_spec, testbit_unit.
  destruct (N.eqb_spec i j) as [->|Hne].
  - destruct (N.testbit v j); [now rewrite testbit_unit, N.eqb_refl| now rewrite N.bits_0].
  - rewrite andb_false_r. destruct (N.testbit v j); [|now rewrite N.bits_0].
    rewrite testbit_unit. symmetry. now apply N.eqb_neq.
Qed.

Lemma dotN_unit v j : dotN v (unit j) = N.testbit v j.
Proof.
  unfold dotN. rewrite land_unit. destruct (N.testbit v j); [apply npar_pow2|reflexivity].
Qed.

(** ** bounded vectors *)
Definition bounded (n : N) (v : N) : bool := N.shiftr v n =? 0.

Lemma bounded_testbit n v i : bounded n v = true -> n <= i -> N.testbit v i = false.
Proof.
  unfold bounded; intros H Hi. apply N.eqb_eq in H.
  replace i with ((i - n) + n) by lia. rewrite <- N.shiftr_spec by lia.
  rewrite H. apply N.bits_0.
Qed.

Lemma bounded_lxor n a b : bounded n a = true -> bounded n b = true -> bounded n (N.lxor a b) = true.
Proof.
  unfold bounded; intros Ha Hb. apply N.eqb_eq in Ha, Hb. apply N.eqb_eq.
  rewrite N.shiftr_lxor, Ha, Hb. reflexivity.
Qed.

Lemma bounded_0 n : bounded n 0 = true.
Proof. unfold bounded. now rewrite N.shiftr_0_l. Qed.

Lemma bounded_unit n j : j < n -> bounded n (unit j) = true.
Proof.
  intros H. unfold bounded. apply N.eqb_eq. apply N.bits_inj; intro i.
  rewrite N.shiftr_spec by lia. rewrite testbit_unit, N.bits_0. apply N.eqb_neq. lia.
Qed.

(** a bounded vector all of whose first [n] bits vanish is zero *)
Lemma bounded_zero n v :
  bounded n v = true -> (forall i, i < n -> N.testbit v i = false) -> v = 0.
Proof.
  intros Hb H. apply N.bits_inj; intro i. rewrite N.bits_0.
  destruct (N.lt_ge_cases i n); [now apply H | now apply (bounded_testbit n)].
Qed.

(** ** population count (weight) *)
Fixpoint ppop (p : positive) : N :=
  match p with xH => 1 | xO q => ppop q | xI q => N.succ (ppop q) end.
Definition npop (a : N) : N := match a with N0 => 0 | Npos p => ppop p end.

Lemma npop_double a : npop (N.double a) = npop a.
Proof. destruct a; reflexivity. Qed.
Lemma npop_succ_double a : npop (N.succ_double a) = N.succ (npop a).
Proof. destruct a; reflexivity. Qed.

(** parity of popcount *)
Lemma ppar_ppop p : ppar p = N.odd (ppop p).
Proof.
  induction p as [p IH|p IH|]; cbn [ppar ppop]; try assumption; try reflexivity.
  rewrite N.odd_succ, <- N.negb_odd, <- IH. reflexivity.
Qed.
Lemma npar_npop a : npar a = N.odd (npop a).
Proof. destruct a; [reflexivity|apply ppar_ppop]. Qed.

(** iterating over the first [n] coordinates *)
Fixpoint upto (n : nat) : list N :=
  match n with O => [] | S m => upto m ++ [N.of_nat m] end.
Lemma in_upto n i : In i (upto n) <-> i < N.of_nat n.
Proof.
  induction n as [|n IH]; cbn [upto].
  - split; [intros []|lia].
  - rewrite in_app_iff, IH. cbn [In]. lia.
Qed.

(** sparse literal: the bitset with exactly the listed (distinct) positions; repeated positions
    cancel (xor), which is how the implementation accumulates entries mod 2 *)
Definition ofl (l : list N) : N := fold_right (fun i a => N.lxor (unit i) a) 0 l.
