(** * Counts2D: number of qubits and of stabilizer generators of [Toric2DCode], [Planar2DCode] and [RotatedPlanar2DCode]
    (qubits only) as functions of the size, for every size (Layer P).  With the per-instance rank from the certificate
    check this gives k: the planar code has exactly one generator fewer than qubits (k = 1 when the generators are
    independent), the toric code as many generators as qubits (k = 2 with its two dependent generators). *)
From Coq Require Import ZArith List Bool Lia.
From PQ Require Import Toric2D.
From PQ Require Planar2D RotatedPlanar2D.
Import ListNotations.
Local Open Scope Z_scope.

Lemma length_range2 s n : length (range2 s n) = n.
Proof. revert s; induction n as [|n IH]; intros s; cbn [range2 length]; [reflexivity|]. now rewrite IH. Qed.
Lemma length_grid (l1 l2 : list Z) : length (flat_map (fun x => map (fun y => (x, y)) l2) l1) = (length l1 * length l2)%nat.
Proof. induction l1 as [|a l1 IH]; cbn [flat_map length]; [reflexivity|]. rewrite app_length, map_length, IH. reflexivity. Qed.

(** Toric2DCode: n = 2 L_x L_y qubits and as many generators *)
Theorem toric2d_counts Lx Ly : 1 <= Lx -> 1 <= Ly ->
  Z.of_nat (length (Toric2D.qubits Lx Ly)) = 2 * Lx * Ly /\ Z.of_nat (length (Toric2D.stab_coords Lx Ly)) = 2 * Lx * Ly.
Proof.
  intros H1 H2. unfold Toric2D.qubits, Toric2D.stab_coords, odds, evens.
  rewrite !app_length, !length_grid, !length_range2. nia.
Qed.

(** Planar2DCode: n = L_x L_y + (L_x - 1)(L_y - 1) qubits, n - 1 generators *)
Theorem planar2d_counts Lx Ly : 1 <= Lx -> 1 <= Ly ->
  Z.of_nat (length (Planar2D.qubits Lx Ly)) = Lx * Ly + (Lx - 1) * (Ly - 1) /\
  Z.of_nat (length (Planar2D.stab_coords Lx Ly)) = Lx * Ly + (Lx - 1) * (Ly - 1) - 1.
Proof.
  intros H1 H2. unfold Planar2D.qubits, Planar2D.stab_coords.
  rewrite !app_length, !length_grid, !length_range2.
  rewrite !Nat2Z.inj_add, !Nat2Z.inj_mul, !Z2Nat.id by lia. nia.
Qed.

(** RotatedPlanar2DCode: n = L_x L_y qubits *)
Theorem rotated_planar2d_qubit_count Lx Ly : 1 <= Lx -> 1 <= Ly ->
  Z.of_nat (length (RotatedPlanar2D.qubits Lx Ly)) = Lx * Ly.
Proof.
  intros H1 H2. unfold RotatedPlanar2D.qubits. rewrite length_grid, !length_range2. rewrite Nat2Z.inj_mul, !Z2Nat.id by lia. reflexivity.
Qed.
