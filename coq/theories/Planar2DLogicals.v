(** * Planar2DLogicals: the logical X line and the logical Z line of [Planar2DCode] commute with every
    generator of the other Pauli type and share exactly one qubit, for every size (Layer P). *)
From Coq Require Import ZArith List Bool Lia ZifyBool.
From PQ Require Import Toric2D Toric2DPairing Planar2D.
Import ListNotations.
Local Open Scope Z_scope.
Ltac Zify.zify_post_hook ::= Z.to_euclidean_division_equations.

(** as lists the listed logicals are the first pair of the toric code: X on the x-edges (x, 0), Z on the x-edges (1, y)
    (`get_logicals_x`: range(1, 2 L_x, 2) at y = 0; `get_logicals_z`: range(0, 2 L_y, 2) at x = 1) *)
Definition lx (Lx : Z) : list pt := Toric2D.lx1 Lx.
Definition lz (Ly : Z) : list pt := Toric2D.lz1 Ly.

Ltac decide_terms2 :=
  repeat match goal with
         | |- context[xorb _ ?t] =>
           lazymatch t with true => fail | false => fail
           | _ => first [replace t with false by (unfold Planar2D.is_qubit_b; lia)
                        | replace t with true by (unfold Planar2D.is_qubit_b; lia)] end
         end.

(** a vertex generator (Z-type) meets the logical X line on 0 or 2 qubits *)
Lemma vertex_vs_lx Lx Ly a b : 2 <= Lx -> 2 <= Ly ->
  2 <= 2 * a <= 2 * Lx - 2 -> 0 <= 2 * b <= 2 * Ly - 2 ->
  overlap_par (Planar2D.support Lx Ly (2 * a, 2 * b)) (lx Lx) = false.
Proof.
  intros HLx HLy Ra Rb. unfold lx, Planar2D.support. rewrite Planar2D.overlap_filter.
  cbn [Planar2D.nbrs map fold_left]. rewrite !mem_lx1 by lia.
  destruct (Z.eq_dec b 0) as [?|?]; decide_terms2; reflexivity.
Qed.
(** a face generator (X-type) meets the logical Z line on 0 or 2 qubits *)
Lemma face_vs_lz Lx Ly d e : 2 <= Lx -> 2 <= Ly ->
  1 <= 2 * d + 1 <= 2 * Lx - 1 -> 1 <= 2 * e + 1 <= 2 * Ly - 3 ->
  overlap_par (Planar2D.support Lx Ly (2 * d + 1, 2 * e + 1)) (lz Ly) = false.
Proof.
  intros HLx HLy Rd Re. unfold lz, Planar2D.support. rewrite Planar2D.overlap_filter.
  cbn [Planar2D.nbrs map fold_left]. rewrite !mem_lz1 by lia.
  destruct (Z.eq_dec d 0) as [?|?]; decide_terms2; reflexivity.
Qed.

Lemma stab_cases Lx Ly x y : In (x, y) (Planar2D.stab_coords Lx Ly) ->
  (x mod 2 = 0 /\ 2 <= x <= 2 * Lx - 2 /\ y mod 2 = 0 /\ 0 <= y <= 2 * Ly - 2) \/
  (x mod 2 = 1 /\ 1 <= x <= 2 * Lx - 1 /\ y mod 2 = 1 /\ 1 <= y <= 2 * Ly - 3).
Proof.
  intros H. unfold Planar2D.stab_coords in H. rewrite in_app_iff, !in_flat_map in H.
  destruct H as [[x' [Hx Hy]]|[x' [Hx Hy]]]; rewrite in_map_iff in Hy; destruct Hy as [y' [E Hy]]; injection E as -> ->;
    rewrite in_range2 in Hx, Hy; destruct Hx as [k [Hk ->]], Hy as [j [Hj ->]]; [left|right]; lia.
Qed.

Theorem planar2d_logicals_commute_with_stabilizers Lx Ly s :
  2 <= Lx -> 2 <= Ly -> In s (Planar2D.stab_coords Lx Ly) ->
  (Planar2D.is_vertex s = true -> overlap_par (Planar2D.support Lx Ly s) (lx Lx) = false) /\
  (Planar2D.is_vertex s = false -> overlap_par (Planar2D.support Lx Ly s) (lz Ly) = false).
Proof.
  intros HLx HLy Hs. destruct s as [x y]. apply stab_cases in Hs. unfold Planar2D.is_vertex; cbn [fst].
  destruct Hs as [(P1 & R1 & P2 & R2)|(P1 & R1 & P2 & R2)]; split; intros T; try lia.
  - assert (E1 : exists a, x = 2 * a) by (exists (x / 2); lia). assert (E2 : exists b, y = 2 * b) by (exists (y / 2); lia).
    destruct E1 as [a ->], E2 as [b ->]. apply vertex_vs_lx; assumption.
  - assert (E1 : exists a, x = 2 * a + 1) by (exists (x / 2); lia). assert (E2 : exists b, y = 2 * b + 1) by (exists (y / 2); lia).
    destruct E1 as [a ->], E2 as [b ->]. apply face_vs_lz; assumption.
Qed.

(** the logical X line and the logical Z line share exactly the qubit (1, 0) *)
Theorem planar2d_logical_pairing Lx Ly : 1 <= Lx -> 1 <= Ly -> overlap_par (lx Lx) (lz Ly) = true.
Proof. intros H1 H2. exact (proj1 (toric2d_logical_pairing Lx Ly H1 H2)). Qed.

(** every qubit of both logicals is a qubit of the lattice *)
Theorem planar2d_logicals_on_qubits Lx Ly q : 1 <= Lx -> 1 <= Ly ->
  (mem q (lx Lx) = true -> Planar2D.is_qubit_b Lx Ly q = true) /\ (mem q (lz Ly) = true -> Planar2D.is_qubit_b Lx Ly q = true).
Proof.
  intros H1 H2. destruct q as [x y]. unfold lx, lz. rewrite mem_lx1, mem_lz1 by lia. unfold Planar2D.is_qubit_b. split; intros H; lia.
Qed.

Definition logicals_match (Lx Ly : Z) (x1 z1 : list pt) : bool := ptl_eqb (lx Lx) x1 && ptl_eqb (lz Ly) z1.
