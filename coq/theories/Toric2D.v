(** * Toric2D: parametric model of [Toric2DCode] (Layer P) and a proof, for EVERY lattice size
    L_x, L_y >= 2, that vertex and face stabilizers overlap on an even number of qubits (so the
    Z-type vertex operators commute with the X-type face operators: the CSS commutation clause of C01
    for all sizes of this class).

    The model mirrors the Python line by line: [range(a, b, 2)] loops, the delta list
    [(-1,0); (1,0); (0,-1); (0,1)], the periodic wrap [% (2*L)], the [is_qubit] filter.  It is tied to
    the implementation by comparing its tables with the dumped ones on the grid (kernel-evaluated). *)
From Coq Require Import ZArith List Bool Lia ZifyBool.
Import ListNotations.
Local Open Scope Z_scope.
Ltac Zify.zify_post_hook ::= Z.to_euclidean_division_equations.

Definition pt := (Z * Z)%type.
Definition pt_eqb (a b : pt) : bool := (fst a =? fst b) && (snd a =? snd b).
Definition mem (q : pt) (l : list pt) : bool := existsb (pt_eqb q) l.

(** [range(start, stop, 2)] as a list, by fuel *)
Fixpoint range2 (start : Z) (n : nat) : list Z := match n with O => [] | S m => start :: range2 (start + 2) m end.
Definition odds (L : Z) : list Z := range2 1 (Z.to_nat L).      (* range(1, 2L, 2) *)
Definition evens (L : Z) : list Z := range2 0 (Z.to_nat L).     (* range(0, 2L, 2) *)

Definition qubits (Lx Ly : Z) : list pt :=
  flat_map (fun x => map (fun y => (x, y)) (evens Ly)) (odds Lx)
  ++ flat_map (fun x => map (fun y => (x, y)) (odds Ly)) (evens Lx).
Definition stab_coords (Lx Ly : Z) : list pt :=
  flat_map (fun x => map (fun y => (x, y)) (evens Ly)) (evens Lx)
  ++ flat_map (fun x => map (fun y => (x, y)) (odds Ly)) (odds Lx).

Definition nbrs (mx my : Z) (p : pt) : list pt :=
  let '(x, y) := p in [((x - 1) mod mx, y); ((x + 1) mod mx, y); (x, (y - 1) mod my); (x, (y + 1) mod my)].
(** [get_stabilizer]: support in delta order, restricted to qubit locations; vertex -> Z, face -> X *)
Definition is_qubit_b (Lx Ly : Z) (q : pt) : bool :=
  (0 <=? fst q) && (fst q <? 2 * Lx) && (0 <=? snd q) && (snd q <? 2 * Ly) &&
  (((fst q) mod 2 =? 1) && ((snd q) mod 2 =? 0) || ((fst q) mod 2 =? 0) && ((snd q) mod 2 =? 1)).
Definition support (Lx Ly : Z) (loc : pt) : list pt := filter (is_qubit_b Lx Ly) (nbrs (2 * Lx) (2 * Ly) loc).
Definition is_vertex (loc : pt) : bool := (fst loc) mod 2 =? 0.

(** number of shared qubits modulo 2 *)
Definition overlap_par (a b : list pt) : bool := fold_left xorb (map (fun q => mem q b) a) false.

(** ** range facts *)
Lemma in_range2 s n z : In z (range2 s n) <-> exists k, (0 <= k < Z.of_nat n) /\ z = s + 2 * k.
Proof.
  revert s; induction n as [|n IH]; intros s; cbn [range2 In].
  - split; [intros []|intros [k [H _]]; lia].
  - rewrite IH. split.
    + intros [<-|[k [Hk ->]]]; [exists 0; lia|exists (k + 1); lia].
    + intros [k [Hk ->]]. destruct (Z.eq_dec k 0) as [->|Hne]; [left; lia|right; exists (k - 1); lia].
Qed.

Lemma mem_In q l : mem q l = true <-> In q l.
Proof.
  unfold mem. rewrite existsb_exists. split.
  - intros [p [Hp E]]. unfold pt_eqb in E. destruct p as [a b], q as [c d]; cbn [fst snd] in E.
    assert (Hc : c = a) by lia. assert (Hd : d = b) by lia. subst. assumption.
  - intros H. exists q. split; [assumption|]. unfold pt_eqb. lia.
Qed.

(** [is_qubit_b] is membership in the generated qubit list ([location in self.qubit_index]) *)
Lemma is_qubit_spec Lx Ly q : 0 < Lx -> 0 < Ly -> is_qubit_b Lx Ly q = true <-> In q (qubits Lx Ly).
Proof.
  intros HLx HLy. destruct q as [x y]. unfold qubits, is_qubit_b, odds, evens; cbn [fst snd]. rewrite in_app_iff, !in_flat_map.
  split.
  - intros H.
    assert (Hr : 0 <= x < 2 * Lx /\ 0 <= y < 2 * Ly) by lia.
    assert (Hp : (x mod 2 = 1 /\ y mod 2 = 0) \/ (x mod 2 = 0 /\ y mod 2 = 1)) by lia.
    destruct Hp as [[Px Py]|[Px Py]]; [left|right]; exists x;
      (split; [apply in_range2; exists (x / 2); lia|apply in_map_iff; exists y; split; [reflexivity|apply in_range2; exists (y / 2); lia]]).
  - intros [[x' [Hx Hy]]|[x' [Hx Hy]]]; rewrite in_map_iff in Hy; destruct Hy as [y' [E Hy]]; injection E as -> ->;
      rewrite in_range2 in Hx, Hy; destruct Hx as [k [Hk ->]], Hy as [j [Hj ->]]; lia.
Qed.

(** ** geometry (from the structured prototype): adjacency on an even cycle *)
Definition adj (m a b : Z) : bool := ((a - 1) mod m =? b) || ((a + 1) mod m =? b).
Lemma mod_pred m a : 0 <= a < m -> (a - 1) mod m = if a =? 0 then m - 1 else a - 1.
Proof.
  intros H. destruct (a =? 0) eqn:E.
  - assert (a = 0) by lia; subst. symmetry. apply (Z.mod_unique_pos _ _ (-1)); lia.
  - apply Z.mod_small; lia.
Qed.
Lemma mod_succ m a : 0 <= a < m -> (a + 1) mod m = if a =? m - 1 then 0 else a + 1.
Proof.
  intros H. destruct (a =? m - 1) eqn:E.
  - assert (a = m - 1) by lia; subst. symmetry. apply (Z.mod_unique_pos _ _ 1); lia.
  - apply Z.mod_small; lia.
Qed.
Lemma adj_sym m a b : 4 <= m -> 0 <= a < m -> 0 <= b < m -> adj m a b = adj m b a.
Proof.
  unfold adj; intros. rewrite !mod_pred, !mod_succ by lia.
  destruct (a =? 0) eqn:?, (a =? m - 1) eqn:?, (b =? 0) eqn:?, (b =? m - 1) eqn:?; lia.
Qed.
Lemma adj_xor m a b : 4 <= m -> 0 <= a < m -> 0 <= b < m ->
  xorb ((a - 1) mod m =? b) ((a + 1) mod m =? b) = adj m a b.
Proof.
  unfold adj; intros. rewrite !mod_pred, !mod_succ by lia.
  destruct (a =? 0) eqn:?, (a =? m - 1) eqn:?;
    match goal with |- xorb (?p =? b) (?q =? b) = _ => destruct (p =? b) eqn:?, (q =? b) eqn:? end;
    cbn; try reflexivity; exfalso; lia.
Qed.
Lemma mem_nbrs mx my qx qy fx fy :
  mem (qx, qy) (nbrs mx my (fx, fy)) = (adj mx fx qx && (qy =? fy)) || ((qx =? fx) && adj my fy qy).
Proof.
  unfold mem, nbrs, adj, pt_eqb; cbn [existsb fst snd].
  rewrite (Z.eqb_sym qx ((fx - 1) mod mx)), (Z.eqb_sym qx ((fx + 1) mod mx)),
          (Z.eqb_sym qy ((fy - 1) mod my)), (Z.eqb_sym qy ((fy + 1) mod my)).
  destruct ((fx - 1) mod mx =? qx), ((fx + 1) mod mx =? qx), (qy =? fy), (qx =? fx),
           ((fy - 1) mod my =? qy), ((fy + 1) mod my =? qy); reflexivity.
Qed.

Theorem nbrs_overlap_even hx hy vx vy fx fy :
  2 <= hx -> 2 <= hy ->
  0 <= vx < 2 * hx -> 0 <= vy < 2 * hy -> 0 <= fx < 2 * hx -> 0 <= fy < 2 * hy ->
  vx <> fx -> vy <> fy ->
  overlap_par (nbrs (2 * hx) (2 * hy) (vx, vy)) (nbrs (2 * hx) (2 * hy) (fx, fy)) = false.
Proof.
  intros Hhx Hhy Hvx Hvy Hfx Hfy Nx Ny.
  unfold overlap_par. remember (nbrs (2 * hx) (2 * hy) (fx, fy)) as F eqn:EF. cbn [nbrs map fold_left]. subst F. rewrite !mem_nbrs.
  assert (E1 : (vy =? fy) = false) by lia. assert (E2 : (vx =? fx) = false) by lia.
  rewrite E1, E2, !andb_false_r, !andb_false_l, !orb_false_l, !orb_false_r. cbn [xorb].
  set (A := adj (2 * hy) fy vy). set (B := adj (2 * hx) fx vx).
  assert (X : xorb (((vx - 1) mod (2 * hx) =? fx) && A) (((vx + 1) mod (2 * hx) =? fx) && A) = adj (2 * hx) vx fx && A).
  { rewrite <- (adj_xor (2 * hx) vx fx) by lia. destruct A, ((vx - 1) mod (2 * hx) =? fx), ((vx + 1) mod (2 * hx) =? fx); reflexivity. }
  assert (Y : xorb (B && ((vy - 1) mod (2 * hy) =? fy)) (B && ((vy + 1) mod (2 * hy) =? fy)) = B && adj (2 * hy) vy fy).
  { rewrite <- (adj_xor (2 * hy) vy fy) by lia. destruct B, ((vy - 1) mod (2 * hy) =? fy), ((vy + 1) mod (2 * hy) =? fy); reflexivity. }
  replace (if ((vx - 1) mod (2 * hx) =? fx) && A then true else false)
    with (((vx - 1) mod (2 * hx) =? fx) && A) by (destruct (((vx - 1) mod (2 * hx) =? fx) && A); reflexivity).
  rewrite X, xorb_assoc, Y. unfold A, B. clear X Y A B E1 E2.
  rewrite (adj_sym (2 * hx) vx fx), (adj_sym (2 * hy) vy fy) by lia.
  rewrite (andb_comm (adj (2 * hx) fx vx)). apply xorb_nilpotent.
Qed.

(** wrap-around neighbours stay in range and flip parity *)
Lemma wrap_pred h a : 2 <= h -> 0 <= a < 2 * h ->
  0 <= (a - 1) mod (2 * h) < 2 * h /\ ((a - 1) mod (2 * h)) mod 2 = (a + 1) mod 2.
Proof. intros Hh Ha. rewrite mod_pred by lia. destruct (a =? 0) eqn:E; lia. Qed.
Lemma wrap_succ h a : 2 <= h -> 0 <= a < 2 * h ->
  0 <= (a + 1) mod (2 * h) < 2 * h /\ ((a + 1) mod (2 * h)) mod 2 = (a + 1) mod 2.
Proof. intros Hh Ha. rewrite mod_succ by lia. destruct (a =? 2 * h - 1) eqn:E; lia. Qed.

Lemma is_qubit_b_intro Lx Ly x y : 0 <= x < 2 * Lx -> 0 <= y < 2 * Ly -> x mod 2 <> y mod 2 -> is_qubit_b Lx Ly (x, y) = true.
Proof. intros Hx Hy Hp. unfold is_qubit_b; cbn [fst snd]. lia. Qed.

(** the [is_qubit] filter keeps all four neighbours of a vertex and of a face *)
Lemma support_is_nbrs Lx Ly x y : 2 <= Lx -> 2 <= Ly -> 0 <= x < 2 * Lx -> 0 <= y < 2 * Ly -> x mod 2 = y mod 2 ->
  support Lx Ly (x, y) = nbrs (2 * Lx) (2 * Ly) (x, y).
Proof.
  intros HLx HLy Hx Hy Hp. unfold support, nbrs. cbn [filter].
  destruct (wrap_pred Lx x HLx Hx) as [A1 A2]. destruct (wrap_succ Lx x HLx Hx) as [B1 B2].
  destruct (wrap_pred Ly y HLy Hy) as [C1 C2]. destruct (wrap_succ Ly y HLy Hy) as [D1 D2].
  set (xp := (x - 1) mod (2 * Lx)) in *. set (xs := (x + 1) mod (2 * Lx)) in *.
  set (yp := (y - 1) mod (2 * Ly)) in *. set (ys := (y + 1) mod (2 * Ly)) in *.
  clearbody xp xs yp ys.
  rewrite (is_qubit_b_intro Lx Ly xp y) by lia. rewrite (is_qubit_b_intro Lx Ly xs y) by lia.
  rewrite (is_qubit_b_intro Lx Ly x yp) by lia. rewrite (is_qubit_b_intro Lx Ly x ys) by lia.
  reflexivity.
Qed.

(** *** C01 (commutation clause) for Toric2DCode, all sizes: every vertex operator (Z on its support)
    and every face operator (X on its support) act on an even number of common qubits *)
Theorem toric2d_vertex_face_commute Lx Ly v f :
  2 <= Lx -> 2 <= Ly -> In v (stab_coords Lx Ly) -> In f (stab_coords Lx Ly) ->
  is_vertex v = true -> is_vertex f = false ->
  overlap_par (support Lx Ly v) (support Lx Ly f) = false.
Proof.
  intros HLx HLy Hv Hf Tv Tf. destruct v as [vx vy], f as [fx fy]. unfold is_vertex in *; cbn [fst] in *.
  assert (R : forall x y, In (x, y) (stab_coords Lx Ly) -> 0 <= x < 2 * Lx /\ 0 <= y < 2 * Ly /\ x mod 2 = y mod 2).
  { intros x y H. unfold stab_coords, odds, evens in H. rewrite in_app_iff, !in_flat_map in H.
    destruct H as [[x' [Hx Hy]]|[x' [Hx Hy]]]; rewrite in_map_iff in Hy; destruct Hy as [y' [E Hy]]; injection E as -> ->;
      rewrite in_range2 in Hx, Hy; destruct Hx as [k [Hk ->]], Hy as [j [Hj ->]]; lia. }
  destruct (R _ _ Hv) as (V1 & V2 & V3). destruct (R _ _ Hf) as (F1 & F2 & F3).
  rewrite !support_is_nbrs by lia. apply nbrs_overlap_even; lia.
Qed.

(** *** all stabilizer generators pairwise commute, for every size: operators of the same type commute
    trivially, a Z-type and an X-type operator commute iff they share an even number of qubits *)
Definition ops_commute (za : bool) (sa : list pt) (zb : bool) (sb : list pt) : bool :=
  if Bool.eqb za zb then true else negb (overlap_par sa sb).
Theorem toric2d_stabilizers_commute Lx Ly s s' :
  2 <= Lx -> 2 <= Ly -> In s (stab_coords Lx Ly) -> In s' (stab_coords Lx Ly) ->
  ops_commute (is_vertex s) (support Lx Ly s) (is_vertex s') (support Lx Ly s') = true.
Proof.
  intros HLx HLy Hs Hs'. unfold ops_commute. destruct (Bool.eqb (is_vertex s) (is_vertex s')) eqn:E; [reflexivity|].
  apply negb_true_iff. destruct s as [vx vy], s' as [fx fy]. unfold is_vertex in E; cbn [fst] in E.
  assert (R : forall x y, In (x, y) (stab_coords Lx Ly) -> 0 <= x < 2 * Lx /\ 0 <= y < 2 * Ly /\ x mod 2 = y mod 2).
  { intros x y H. unfold stab_coords, odds, evens in H. rewrite in_app_iff, !in_flat_map in H.
    destruct H as [[x' [Hx Hy]]|[x' [Hx Hy]]]; rewrite in_map_iff in Hy; destruct Hy as [y' [E' Hy]]; injection E' as -> ->;
      rewrite in_range2 in Hx, Hy; destruct Hx as [k [Hk ->]], Hy as [j [Hj ->]]; lia. }
  destruct (R _ _ Hs) as (V1 & V2 & V3). destruct (R _ _ Hs') as (F1 & F2 & F3).
  assert (Pd : vx mod 2 <> fx mod 2).
  { destruct (vx mod 2 =? 0) eqn:A, (fx mod 2 =? 0) eqn:B; cbn in E; try discriminate; lia. }
  rewrite !support_is_nbrs by lia. apply nbrs_overlap_even; lia.
Qed.

(** *** the listed logical operators commute with every stabilizer generator, for every size.
    Logical X_1 = X on {(x,0) : x odd}, X_2 = X on {(0,y) : y odd} (X-type: only vertices matter);
    logical Z_1 = Z on {(1,y) : y even}, Z_2 = Z on {(x,1) : x even} (Z-type: only faces matter). *)
Definition lx1 (Lx : Z) : list pt := map (fun x => (x, 0)) (odds Lx).
Definition lx2 (Ly : Z) : list pt := map (fun y => (0, y)) (odds Ly).
Definition lz1 (Ly : Z) : list pt := map (fun y => (1, y)) (evens Ly).
Definition lz2 (Lx : Z) : list pt := map (fun x => (x, 1)) (evens Lx).

Lemma mem_lx1 Lx x y : 0 < Lx -> mem (x, y) (lx1 Lx) = ((y =? 0) && (0 <=? x) && (x <? 2 * Lx) && (x mod 2 =? 1)).
Proof.
  intros H. apply Bool.eq_true_iff_eq. rewrite mem_In. unfold lx1, odds. rewrite in_map_iff. split.
  - intros [x' [E Hx]]. injection E as -> <-. apply in_range2 in Hx. destruct Hx as [k [Hk ->]]. lia.
  - intros Hb. exists x. split; [f_equal; lia|]. apply in_range2. exists (x / 2). lia.
Qed.
Lemma mem_lx2 Ly x y : 0 < Ly -> mem (x, y) (lx2 Ly) = ((x =? 0) && (0 <=? y) && (y <? 2 * Ly) && (y mod 2 =? 1)).
Proof.
  intros H. apply Bool.eq_true_iff_eq. rewrite mem_In. unfold lx2, odds. rewrite in_map_iff. split.
  - intros [y' [E Hy]]. injection E as <- ->. apply in_range2 in Hy. destruct Hy as [k [Hk ->]]. lia.
  - intros Hb. exists y. split; [f_equal; lia|]. apply in_range2. exists (y / 2). lia.
Qed.
Lemma mem_lz1 Ly x y : 0 < Ly -> mem (x, y) (lz1 Ly) = ((x =? 1) && (0 <=? y) && (y <? 2 * Ly) && (y mod 2 =? 0)).
Proof.
  intros H. apply Bool.eq_true_iff_eq. rewrite mem_In. unfold lz1, evens. rewrite in_map_iff. split.
  - intros [y' [E Hy]]. injection E as <- ->. apply in_range2 in Hy. destruct Hy as [k [Hk ->]]. lia.
  - intros Hb. exists y. split; [f_equal; lia|]. apply in_range2. exists (y / 2). lia.
Qed.
Lemma mem_lz2 Lx x y : 0 < Lx -> mem (x, y) (lz2 Lx) = ((y =? 1) && (0 <=? x) && (x <? 2 * Lx) && (x mod 2 =? 0)).
Proof.
  intros H. apply Bool.eq_true_iff_eq. rewrite mem_In. unfold lz2, evens. rewrite in_map_iff. split.
  - intros [x' [E Hx]]. injection E as -> <-. apply in_range2 in Hx. destruct Hx as [k [Hk ->]]. lia.
  - intros Hb. exists x. split; [f_equal; lia|]. apply in_range2. exists (x / 2). lia.
Qed.

Theorem toric2d_logicals_commute_with_stabilizers Lx Ly s :
  2 <= Lx -> 2 <= Ly -> In s (stab_coords Lx Ly) ->
  (* X-type logicals against Z-type (vertex) generators, Z-type logicals against X-type (face) generators *)
  (is_vertex s = true -> overlap_par (support Lx Ly s) (lx1 Lx) = false /\ overlap_par (support Lx Ly s) (lx2 Ly) = false) /\
  (is_vertex s = false -> overlap_par (support Lx Ly s) (lz1 Ly) = false /\ overlap_par (support Lx Ly s) (lz2 Lx) = false).
Proof.
  intros HLx HLy Hs. destruct s as [x y]. unfold is_vertex; cbn [fst].
  assert (R : 0 <= x < 2 * Lx /\ 0 <= y < 2 * Ly /\ x mod 2 = y mod 2).
  { unfold stab_coords, odds, evens in Hs. rewrite in_app_iff, !in_flat_map in Hs.
    destruct Hs as [[x' [Hx Hy]]|[x' [Hx Hy]]]; rewrite in_map_iff in Hy; destruct Hy as [y' [E' Hy]]; injection E' as -> ->;
      rewrite in_range2 in Hx, Hy; destruct Hx as [k [Hk ->]], Hy as [j [Hj ->]]; lia. }
  destruct R as (Rx & Ry & Rp). rewrite support_is_nbrs by lia.
  destruct (wrap_pred Lx x HLx Rx) as [A1 A2]. destruct (wrap_succ Lx x HLx Rx) as [B1 B2].
  destruct (wrap_pred Ly y HLy Ry) as [C1 C2]. destruct (wrap_succ Ly y HLy Ry) as [D1 D2].
  unfold overlap_par, nbrs. cbn [map fold_left].
  rewrite !mem_lx1, !mem_lx2, !mem_lz1, !mem_lz2 by lia.
  set (xp := (x - 1) mod (2 * Lx)) in *. set (xs := (x + 1) mod (2 * Lx)) in *.
  set (yp := (y - 1) mod (2 * Ly)) in *. set (ys := (y + 1) mod (2 * Ly)) in *.
  clearbody xp xs yp ys.
  split; intros Hv; split.
  - (* vertex vs X_1: the two x-edge neighbours lie on the line y = 0 together *)
    assert (E1 : ((y =? 0) && (0 <=? xp) && (xp <? 2 * Lx) && (xp mod 2 =? 1)) = (y =? 0)) by lia.
    assert (E2 : ((y =? 0) && (0 <=? xs) && (xs <? 2 * Lx) && (xs mod 2 =? 1)) = (y =? 0)) by lia.
    assert (E3 : ((yp =? 0) && (0 <=? x) && (x <? 2 * Lx) && (x mod 2 =? 1)) = false) by lia.
    assert (E4 : ((ys =? 0) && (0 <=? x) && (x <? 2 * Lx) && (x mod 2 =? 1)) = false) by lia.
    rewrite E1, E2, E3, E4. destruct (y =? 0); reflexivity.
  - assert (E1 : ((xp =? 0) && (0 <=? y) && (y <? 2 * Ly) && (y mod 2 =? 1)) = false) by lia.
    assert (E2 : ((xs =? 0) && (0 <=? y) && (y <? 2 * Ly) && (y mod 2 =? 1)) = false) by lia.
    assert (E3 : ((x =? 0) && (0 <=? yp) && (yp <? 2 * Ly) && (yp mod 2 =? 1)) = (x =? 0)) by lia.
    assert (E4 : ((x =? 0) && (0 <=? ys) && (ys <? 2 * Ly) && (ys mod 2 =? 1)) = (x =? 0)) by lia.
    rewrite E1, E2, E3, E4. destruct (x =? 0); reflexivity.
  - assert (E1 : ((xp =? 1) && (0 <=? y) && (y <? 2 * Ly) && (y mod 2 =? 0)) = false) by lia.
    assert (E2 : ((xs =? 1) && (0 <=? y) && (y <? 2 * Ly) && (y mod 2 =? 0)) = false) by lia.
    assert (E3 : ((x =? 1) && (0 <=? yp) && (yp <? 2 * Ly) && (yp mod 2 =? 0)) = (x =? 1)) by lia.
    assert (E4 : ((x =? 1) && (0 <=? ys) && (ys <? 2 * Ly) && (ys mod 2 =? 0)) = (x =? 1)) by lia.
    rewrite E1, E2, E3, E4. destruct (x =? 1); reflexivity.
  - assert (E1 : ((y =? 1) && (0 <=? xp) && (xp <? 2 * Lx) && (xp mod 2 =? 0)) = (y =? 1)) by lia.
    assert (E2 : ((y =? 1) && (0 <=? xs) && (xs <? 2 * Lx) && (xs mod 2 =? 0)) = (y =? 1)) by lia.
    assert (E3 : ((yp =? 1) && (0 <=? x) && (x <? 2 * Lx) && (x mod 2 =? 0)) = false) by lia.
    assert (E4 : ((ys =? 1) && (0 <=? x) && (x <? 2 * Lx) && (x mod 2 =? 0)) = false) by lia.
    rewrite E1, E2, E3, E4. destruct (y =? 1); reflexivity.
Qed.

(** ** tables for the tie with the implementation *)
Definition table (Lx Ly : Z) : list pt * list pt * list (list pt) :=
  (qubits Lx Ly, stab_coords Lx Ly, map (support Lx Ly) (stab_coords Lx Ly)).
Fixpoint ptl_eqb (a b : list pt) : bool :=
  match a, b with [], [] => true | x :: a', y :: b' => pt_eqb x y && ptl_eqb a' b' | _, _ => false end.
Fixpoint ptll_eqb (a b : list (list pt)) : bool :=
  match a, b with [], [] => true | x :: a', y :: b' => ptl_eqb x y && ptll_eqb a' b' | _, _ => false end.
Definition table_matches (Lx Ly : Z) (qs ss : list pt) (supports : list (list pt)) : bool :=
  ptl_eqb (qubits Lx Ly) qs && ptl_eqb (stab_coords Lx Ly) ss && ptll_eqb (map (support Lx Ly) (stab_coords Lx Ly)) supports.
Definition logicals_match (Lx Ly : Z) (x1 x2 z1 z2 : list pt) : bool :=
  ptl_eqb (lx1 Lx) x1 && ptl_eqb (lx2 Ly) x2 && ptl_eqb (lz1 Ly) z1 && ptl_eqb (lz2 Lx) z2.
