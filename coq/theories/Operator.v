(** * Operator: coordinate-dictionary operators and their binary symplectic image (C02).

    Model of [StabilizerCode.to_bsf], [from_bsf], the construction of [stabilizer_matrix]
    (one row per stabilizer coordinate, entries accumulated then reduced mod 2), the X/Z row masks
    and the CSS blocks Hx / Hz. *)
From Coq Require Import Arith NArith ZArith PArith Bool List Lia.
From PQ Require Import Bits Pauli Code.
Import ListNotations.
Local Open Scope N_scope.

Definition coord := list Z.
Fixpoint coord_eqb (a b : coord) : bool :=
  match a, b with
  | [], [] => true
  | x :: a', y :: b' => Z.eqb x y && coord_eqb a' b'
  | _, _ => false
  end.
Lemma coord_eqb_eq a b : coord_eqb a b = true <-> a = b.
Proof.
  revert b; induction a as [|x a IH]; intros [|y b]; cbn; split; intros H; try discriminate; try reflexivity.
  - apply andb_true_iff in H. destruct H as [H1 H2]. apply Z.eqb_eq in H1. apply IH in H2. now subst.
  - injection H as -> ->. rewrite Z.eqb_refl. now apply IH.
Qed.
Lemma coord_eqb_refl a : coord_eqb a a = true.
Proof. now apply coord_eqb_eq. Qed.

Inductive pauli := PX | PY | PZ.
Definition has_x (p : option pauli) : bool := match p with Some PX | Some PY => true | _ => false end.
Definition has_z (p : option pauli) : bool := match p with Some PZ | Some PY => true | _ => false end.
Definition pauli_of (x z : bool) : option pauli :=
  match x, z with true, false => Some PX | true, true => Some PY | false, true => Some PZ | false, false => None end.
Lemma pauli_of_has p : pauli_of (has_x p) (has_z p) = p.
Proof. destruct p as [[| |]|]; reflexivity. Qed.
Lemma has_pauli_of x z : has_x (pauli_of x z) = x /\ has_z (pauli_of x z) = z.
Proof. destruct x, z; auto. Qed.

(** an operator is a Python dict: association list with pairwise distinct keys *)
Definition opn := list (coord * pauli).
Fixpoint lookup (loc : coord) (op : opn) : option pauli :=
  match op with [] => None | (k, p) :: r => if coord_eqb loc k then Some p else lookup loc r end.
Definition keys (op : opn) : list coord := map fst op.

Fixpoint index_of (loc : coord) (cs : list coord) : option nat :=
  match cs with
  | [] => None
  | c :: r => if coord_eqb loc c then Some O else option_map S (index_of loc r)
  end.

Definition pauli_at (i : nat) (p : pauli) : bsf :=
  let u := unit (N.of_nat i) in
  match p with PX => B u 0 | PY => B u u | PZ => B 0 u end.

(** [to_bsf]: [None] models the KeyError raised for a key that is not a qubit coordinate *)
Fixpoint to_bsf (cs : list coord) (op : opn) : option bsf :=
  match op with
  | [] => Some bzero
  | (loc, p) :: r =>
      match index_of loc cs, to_bsf cs r with
      | Some i, Some v => Some (badd (pauli_at i p) v)
      | _, _ => None
      end
  end.

Fixpoint from_bsf_aux (i : nat) (cs : list coord) (v : bsf) : opn :=
  match cs with
  | [] => []
  | loc :: r =>
      match pauli_of (N.testbit (bx v) (N.of_nat i)) (N.testbit (bz v) (N.of_nat i)) with
      | Some p => (loc, p) :: from_bsf_aux (S i) r v
      | None => from_bsf_aux (S i) r v
      end
  end.
Definition from_bsf (cs : list coord) (v : bsf) : opn := from_bsf_aux 0 cs v.

(** ** index_of facts *)
Lemma index_of_nth loc cs i : index_of loc cs = Some i -> nth_error cs i = Some loc.
Proof.
  revert i; induction cs as [|c r IH]; intros i H; cbn in H; [discriminate|].
  destruct (coord_eqb loc c) eqn:E.
  - injection H as <-. apply coord_eqb_eq in E. now subst.
  - destruct (index_of loc r) as [j|]; [|discriminate]. injection H as <-. cbn. now apply IH.
Qed.
Lemma index_of_lt loc cs i : index_of loc cs = Some i -> (i < length cs)%nat.
Proof. intros H. apply index_of_nth in H. apply nth_error_Some. congruence. Qed.
Lemma nth_index_of cs : NoDup cs -> forall i loc, nth_error cs i = Some loc -> index_of loc cs = Some i.
Proof.
  induction 1 as [|c r Hnin Hnd IH]; intros i loc H; [destruct i; discriminate|].
  destruct i as [|i]; cbn in H.
  - injection H as ->. cbn. now rewrite coord_eqb_refl.
  - cbn. destruct (coord_eqb loc c) eqn:E.
    + apply coord_eqb_eq in E. subst. exfalso. apply Hnin. eapply nth_error_In; eauto.
    + now rewrite (IH i loc H).
Qed.
Lemma index_of_None loc cs : index_of loc cs = None <-> ~ In loc cs.
Proof.
  induction cs as [|c r IH]; cbn; [tauto|]. destruct (coord_eqb loc c) eqn:E.
  - apply coord_eqb_eq in E. subst. split; [discriminate|intros H; exfalso; apply H; now left].
  - assert (Hne : c <> loc) by (intros ->; now rewrite coord_eqb_refl in E).
    destruct (index_of loc r) as [j|]; cbn [option_map].
    + split; [discriminate|]. intros H. exfalso. assert (Hn : ~ In loc r) by tauto. apply IH in Hn. discriminate.
    + split; [|reflexivity]. intros _ [H|H]; [contradiction|]. destruct IH as [IH1 _]. now apply IH1.
Qed.

(** ** bits of [to_bsf] *)
Lemma testbit_pauli_at i p j :
  N.testbit (bx (pauli_at i p)) (N.of_nat j) = (Nat.eqb j i && has_x (Some p)) /\
  N.testbit (bz (pauli_at i p)) (N.of_nat j) = (Nat.eqb j i && has_z (Some p)).
Proof.
  assert (E : (N.of_nat j =? N.of_nat i) = Nat.eqb j i).
  { destruct (Nat.eqb_spec j i) as [->|Hne]; [apply N.eqb_refl|apply N.eqb_neq; lia]. }
  destruct p; cbn [pauli_at bx bz has_x has_z]; rewrite ?testbit_unit, ?N.bits_0, ?E, ?andb_true_r, ?andb_false_r; auto.
Qed.

Lemma lookup_not_in loc op : ~ In loc (keys op) -> lookup loc op = None.
Proof.
  induction op as [|[k p] r IH]; cbn; [reflexivity|]. intros H. destruct (coord_eqb loc k) eqn:E.
  - apply coord_eqb_eq in E. subst. exfalso. apply H. now left.
  - apply IH. tauto.
Qed.

Theorem to_bsf_bits cs op v : NoDup cs -> NoDup (keys op) -> to_bsf cs op = Some v ->
  forall i loc, nth_error cs i = Some loc ->
    N.testbit (bx v) (N.of_nat i) = has_x (lookup loc op) /\ N.testbit (bz v) (N.of_nat i) = has_z (lookup loc op).
Proof.
  intros Hcs. revert v. induction op as [|[k p] r IH]; intros v Hk H i loc Hi; cbn in H.
  - injection H as <-. cbn. auto.
  - destruct (index_of k cs) as [ik|] eqn:Ek; [|discriminate].
    destruct (to_bsf cs r) as [w|] eqn:Er; [|discriminate]. injection H as <-.
    cbn [keys map fst] in Hk. inversion Hk as [|? ? Hnin Hk']; subst.
    destruct (IH w Hk' eq_refl i loc Hi) as [Ix Iz].
    destruct (testbit_pauli_at ik p i) as [Tx Tz].
    cbn [badd bx bz lookup]. rewrite !N.lxor_spec, Tx, Tz, Ix, Iz.
    destruct (coord_eqb loc k) eqn:E.
    + apply coord_eqb_eq in E. subst k.
      rewrite (nth_index_of cs Hcs i loc Hi) in Ek. injection Ek as <-. rewrite Nat.eqb_refl.
      rewrite (lookup_not_in loc r Hnin). cbn [has_x has_z]. now rewrite !xorb_false_r.
    + assert (Hne : Nat.eqb i ik = false).
      { apply Nat.eqb_neq. intros ->. apply index_of_nth in Ek. rewrite Hi in Ek. injection Ek as ->.
        now rewrite coord_eqb_refl in E. }
      rewrite Hne. cbn. split; [destruct (has_x (lookup loc r))|destruct (has_z (lookup loc r))]; reflexivity.
Qed.

Lemma to_bsf_bounded cs op v : to_bsf cs op = Some v -> bbounded (N.of_nat (length cs)) v = true.
Proof.
  revert v; induction op as [|[k p] r IH]; intros v H; cbn in H.
  - injection H as <-. apply bbounded_0.
  - destruct (index_of k cs) as [ik|] eqn:Ek; [|discriminate].
    destruct (to_bsf cs r) as [w|] eqn:Er; [|discriminate]. injection H as <-.
    apply bbounded_add; [|now apply IH]. apply index_of_lt in Ek.
    unfold bbounded.
    assert (Hu : bounded (N.of_nat (length cs)) (unit (N.of_nat ik)) = true) by (apply bounded_unit; lia).
    destruct p; cbn [pauli_at bx bz]; rewrite ?Hu, ?bounded_0; reflexivity.
Qed.

Lemma to_bsf_total cs op : (forall k, In k (keys op) -> In k cs) -> exists v, to_bsf cs op = Some v.
Proof.
  induction op as [|[k p] r IH]; intros H; [now exists bzero|]. cbn.
  destruct (index_of k cs) as [ik|] eqn:Ek.
  - destruct IH as [w ->]; [intros k' Hk'; apply H; now right|]. eauto.
  - exfalso. apply index_of_None in Ek. apply Ek, H. now left.
Qed.

(** a key outside the qubit set is an error, never a silently dropped entry *)
Theorem to_bsf_rejects_foreign_key cs op : (exists k, In k (keys op) /\ ~ In k cs) -> to_bsf cs op = None.
Proof.
  induction op as [|[k p] r IH]; intros [k0 [Hin Hout]]; [destruct Hin|]. cbn.
  cbn [keys map fst In] in Hin. destruct Hin as [<-|Hin].
  - apply index_of_None in Hout. now rewrite Hout.
  - rewrite IH by eauto. now destruct (index_of k cs).
Qed.

(** ** lookup in [from_bsf] *)
Lemma lookup_from_bsf_aux cs : NoDup cs -> forall i v loc,
  lookup loc (from_bsf_aux i cs v) =
  match index_of loc cs with
  | Some j => pauli_of (N.testbit (bx v) (N.of_nat (i + j))) (N.testbit (bz v) (N.of_nat (i + j)))
  | None => None
  end.
Proof.
  induction 1 as [|c r Hnin Hnd IH]; intros i v loc; [reflexivity|]. cbn [from_bsf_aux index_of].
  destruct (coord_eqb loc c) eqn:E.
  - apply coord_eqb_eq in E. subst c. rewrite Nat.add_0_r.
    destruct (pauli_of _ _) eqn:P; cbn [lookup]; [now rewrite coord_eqb_refl|].
    rewrite IH. apply index_of_None in Hnin. now rewrite Hnin.
  - assert (R : lookup loc (from_bsf_aux (S i) r v) =
             match option_map S (index_of loc r) with
             | Some j => pauli_of (N.testbit (bx v) (N.of_nat (i + j))) (N.testbit (bz v) (N.of_nat (i + j)))
             | None => None end).
    { rewrite IH. destruct (index_of loc r) as [j|]; cbn [option_map]; [|reflexivity].
      now replace (S i + j)%nat with (i + S j)%nat by lia. }
    destruct (pauli_of (N.testbit (bx v) (N.of_nat i)) (N.testbit (bz v) (N.of_nat i))); cbn [lookup]; rewrite ?E; exact R.
Qed.

Lemma keys_from_bsf_aux i cs v : incl (keys (from_bsf_aux i cs v)) cs /\ (NoDup cs -> NoDup (keys (from_bsf_aux i cs v))).
Proof.
  revert i; induction cs as [|c r IH]; intros i; cbn [from_bsf_aux]; [split; [intros x []|constructor]|].
  destruct (IH (S i)) as [I1 I2].
  destruct (pauli_of _ _); cbn [keys map fst].
  - split.
    + intros x [<-|Hx]; [now left|right; now apply I1].
    + intros Hnd. inversion Hnd; subst. constructor; [intros Hin; apply I1 in Hin; contradiction|auto].
  - split; [intros x Hx; right; now apply I1|intros Hnd; inversion Hnd; auto].
Qed.

(** ** the bijection (C02) *)
(** BSF -> dict -> BSF is the identity on every binary vector of length 2n *)
Theorem to_from_bsf cs v : NoDup cs -> bbounded (N.of_nat (length cs)) v = true ->
  to_bsf cs (from_bsf cs v) = Some v.
Proof.
  intros Hcs Hb. unfold from_bsf.
  destruct (keys_from_bsf_aux 0 cs v) as [Hinc Hnd].
  destruct (to_bsf_total cs (from_bsf_aux 0 cs v)) as [w Hw]; [exact Hinc|]. rewrite Hw. f_equal.
  pose proof (to_bsf_bounded _ _ _ Hw) as Hbw.
  assert (Hbits : forall i, (i < length cs)%nat ->
            N.testbit (bx w) (N.of_nat i) = N.testbit (bx v) (N.of_nat i) /\
            N.testbit (bz w) (N.of_nat i) = N.testbit (bz v) (N.of_nat i)).
  { intros i Hi. destruct (nth_error cs i) as [loc|] eqn:En; [|apply nth_error_None in En; lia].
    destruct (to_bsf_bits cs _ w Hcs (Hnd Hcs) Hw i loc En) as [Tx Tz].
    rewrite Tx, Tz, (lookup_from_bsf_aux cs Hcs 0 v loc), (nth_index_of cs Hcs i loc En). cbn [Nat.add].
    destruct (has_pauli_of (N.testbit (bx v) (N.of_nat i)) (N.testbit (bz v) (N.of_nat i))). auto. }
  unfold bbounded in Hb, Hbw. apply andb_true_iff in Hb, Hbw. destruct Hb as [Hvx Hvz], Hbw as [Hwx Hwz].
  destruct w as [wx wz], v as [vx vz]; cbn [bx bz] in *. f_equal; apply N.bits_inj; intro j;
    destruct (N.lt_ge_cases j (N.of_nat (length cs))) as [Hl|Hg].
  - replace j with (N.of_nat (N.to_nat j)) by lia. apply (Hbits (N.to_nat j)). lia.
  - rewrite (bounded_testbit _ wx j Hwx Hg), (bounded_testbit _ vx j Hvx Hg). reflexivity.
  - replace j with (N.of_nat (N.to_nat j)) by lia. apply (Hbits (N.to_nat j)). lia.
  - rewrite (bounded_testbit _ wz j Hwz Hg), (bounded_testbit _ vz j Hvz Hg). reflexivity.
Qed.

(** dict -> BSF -> dict gives back the same dictionary (same value at every coordinate) *)
Theorem from_to_bsf cs op v : NoDup cs -> NoDup (keys op) -> to_bsf cs op = Some v ->
  forall loc, lookup loc (from_bsf cs v) = lookup loc op.
Proof.
  intros Hcs Hk Hv loc. unfold from_bsf. rewrite (lookup_from_bsf_aux cs Hcs 0 v loc).
  destruct (index_of loc cs) as [j|] eqn:Ej.
  - cbn [Nat.add]. destruct (to_bsf_bits cs op v Hcs Hk Hv j loc (index_of_nth _ _ _ Ej)) as [Tx Tz].
    rewrite Tx, Tz. apply pauli_of_has.
  - symmetry. apply lookup_not_in. intros Hin. apply index_of_None in Ej.
    assert (Hnone : to_bsf cs op = None) by (apply to_bsf_rejects_foreign_key; eauto). congruence.
Qed.

(** ** parity-check matrix: row i is the image of the operator of the i-th stabilizer coordinate *)
Fixpoint matrix_of (cs : list coord) (ops : list opn) : option (list bsf) :=
  match ops with
  | [] => Some []
  | op :: r => match to_bsf cs op, matrix_of cs r with Some v, Some l => Some (v :: l) | _, _ => None end
  end.
Theorem matrix_row_is_image cs ops rows : matrix_of cs ops = Some rows ->
  length rows = length ops /\ forall i op, nth_error ops i = Some op -> exists r, nth_error rows i = Some r /\ to_bsf cs op = Some r.
Proof.
  revert rows; induction ops as [|op ops IH]; intros rows H; cbn in H.
  - injection H as <-. split; [reflexivity|]. intros [|i] op Hi; discriminate.
  - destruct (to_bsf cs op) as [r|] eqn:Er; [|discriminate].
    destruct (matrix_of cs ops) as [l|] eqn:El; [|discriminate]. injection H as <-.
    destruct (IH l eq_refl) as [Hl Hn]. split; [cbn; lia|].
    intros [|i] op' Hi; cbn in Hi.
    + injection Hi as <-. exists r. split; [reflexivity|assumption].
    + cbn. now apply Hn.
Qed.

(** ** X / Z row masks and CSS blocks *)
Definition x_mask (rows : list bsf) : list bool := map (fun r => negb (bx r =? 0)) rows.
Definition z_mask (rows : list bsf) : list bool := map (fun r => negb (bz r =? 0)) rows.
Definition is_css (rows : list bsf) : bool := forallb (fun r => negb (negb (bx r =? 0) && negb (bz r =? 0))) rows.
Definition Hx_of (rows : list bsf) : list N := map bx (filter (fun r => negb (bx r =? 0)) rows).
Definition Hz_of (rows : list bsf) : list N := map bz (filter (fun r => negb (bz r =? 0)) rows).

(** for a CSS code with no empty row the two masks partition the rows *)
Theorem css_masks_partition rows : is_css rows = true -> forallb (fun r => negb (beqb r bzero)) rows = true ->
  map (fun p => xorb (fst p) (snd p)) (combine (x_mask rows) (z_mask rows)) = map (fun _ => true) rows.
Proof.
  induction rows as [|r rows IH]; intros H1 H2; [reflexivity|]. cbn in H1, H2. apply andb_true_iff in H1, H2.
  destruct H1 as [A1 A2], H2 as [B1 B2]. cbn. f_equal; [|now apply IH].
  unfold beqb, bzero in B1; cbn [bx bz] in B1.
  destruct (bx r =? 0), (bz r =? 0); cbn in *; try reflexivity; discriminate.
Qed.

(** the X-type part of the syndrome depends only on the Z part of the error (and conversely) *)
Theorem x_row_syndrome_depends_on_z_part s e : bz s = 0 -> sp s e = dotN (bx s) (bz e).
Proof. intros H. unfold sp. rewrite H. cbn. now rewrite xorb_false_r. Qed.
Theorem z_row_syndrome_depends_on_x_part s e : bx s = 0 -> sp s e = dotN (bz s) (bx e).
Proof. intros H. unfold sp. rewrite H. cbn. now destruct (dotN (bz s) (bx e)). Qed.

(** ** boolean checkers for dumped tables *)
Fixpoint nodup_coords (cs : list coord) : bool :=
  match cs with [] => true | c :: r => negb (existsb (coord_eqb c) r) && nodup_coords r end.
Lemma nodup_coords_spec cs : nodup_coords cs = true -> NoDup cs.
Proof.
  induction cs as [|c r IH]; intros H; [constructor|]. cbn in H. apply andb_true_iff in H. destruct H as [H1 H2].
  constructor; [|auto]. intros Hin. apply negb_true_iff in H1.
  assert (existsb (coord_eqb c) r = true) by (apply existsb_exists; exists c; split; [assumption|apply coord_eqb_refl]).
  congruence.
Qed.
Definition disjoint_coords (a b : list coord) : bool := forallb (fun x => negb (existsb (coord_eqb x) b)) a.

Definition obsf_eqb (a : option bsf) (b : bsf) : bool := match a with Some v => beqb v b | None => false end.
Fixpoint nlist_eqb (a b : list N) : bool :=
  match a, b with [], [] => true | x :: a', y :: b' => (x =? y) && nlist_eqb a' b' | _, _ => false end.

(** everything C02 asks of one dumped instance *)
Definition table_faithful (qs ss : list coord) (ops : list opn) (rows : list bsf)
           (xi zi : list bool) (css : bool) (hx hz : list N) : bool :=
  nodup_coords qs && nodup_coords ss && disjoint_coords qs ss
  && Nat.eqb (length ss) (length ops) && Nat.eqb (length rows) (length ops)
  && forallb (fun op => nodup_coords (keys op)) ops
  && forallb (fun p => obsf_eqb (to_bsf qs (fst p)) (snd p)) (combine ops rows)
  && forallb (fun r => negb (beqb r bzero)) rows
  && lbeq (x_mask rows) xi && lbeq (z_mask rows) zi
  && Bool.eqb (is_css rows) css
  && (if css then nlist_eqb (Hx_of rows) hx && nlist_eqb (Hz_of rows) hz else true)
  && forallb (fun r => match to_bsf qs (from_bsf qs r) with Some r' => beqb r r' | None => false end) rows.

(** round-trip record produced by the implementation: (operator given to to_bsf, vector returned,
    dictionary returned by from_bsf on that vector) *)
Definition same_dict (cs : list coord) (a b : opn) : bool :=
  forallb (fun loc => match lookup loc a, lookup loc b with
                      | None, None => true
                      | Some p, Some q => match p, q with PX, PX | PY, PY | PZ, PZ => true | _, _ => false end
                      | _, _ => false end) cs
  && forallb (fun k => existsb (coord_eqb k) cs) (keys a ++ keys b).
Definition roundtrip_ok (cs : list coord) (op : opn) (v : bsf) (back : opn) : bool :=
  obsf_eqb (to_bsf cs op) v && same_dict cs back op && same_dict cs (from_bsf cs v) back && nodup_coords (keys back).
Definition from_ok (cs : list coord) (v : bsf) (back : opn) : bool :=
  same_dict cs (from_bsf cs v) back && nodup_coords (keys back).
Definition rejects (cs : list coord) (ops : list opn) : bool :=
  match matrix_of cs ops with None => true | Some _ => false end.
