(** * Sweep: the cellular automaton state of the sweep decoders (C10).

    The decoders track [signs] (excitations on face stabilizers; entries of non-face stabilizers are
    kept at 0) and a Z-type [correction].  Flipping an edge toggles the tracked signs of the faces
    returned by the decoder's geometry and toggles Z on that edge in the correction. *)
From Coq Require Import Arith NArith List Bool Lia.
From PQ Require Import Bits Pauli Code.
Import ListNotations.
Local Open Scope N_scope.

Section Automaton.
  Variable c : code.
  Variable face : list bool.          (* which stabilizer rows are faces (the X-type rows) *)

  Definition mask (l : list bool) : list bool := map (fun p => fst p && snd p) (combine face l).
  Definition face_syndrome (e : bsf) : list bool := mask (syndrome c e).
  Definition zedge (q : N) : bsf := unitZ q.

  Record st := St { signs : list bool; corr : bsf }.
  (** geometry supplied by the decoder: the faces whose sign it toggles when edge q is flipped *)
  Variable toggled : N -> list bool.
  Definition flip (s : st) (q : N) : st := St (xorl (signs s) (toggled q)) (badd (corr s) (zedge q)).

  (** the geometry is right when the toggled faces are exactly the faces anticommuting with Z on the edge *)
  Definition Geom : Prop := forall q, toggled q = face_syndrome (zedge q).

  Definition Inv (err : bsf) (s : st) : Prop := signs s = face_syndrome (badd err (corr s)).

  Lemma mask_xorl a b : length a = length b -> mask (xorl a b) = xorl (mask a) (mask b).
  Proof.
    unfold mask, xorl. revert a b. induction face as [|f fs IH]; intros [|x a] [|y b] H; cbn in *; try reflexivity; try discriminate.
    rewrite IH by lia. f_equal. destruct f, x, y; reflexivity.
  Qed.

  Lemma face_syndrome_add a b : face_syndrome (badd a b) = xorl (face_syndrome a) (face_syndrome b).
  Proof. unfold face_syndrome. rewrite syndrome_linear. apply mask_xorl. unfold syndrome. now rewrite !map_length. Qed.

  (** *** one flip preserves: tracked signs = face syndrome of (error + correction so far) *)
  Theorem flip_invariant err s q : Geom -> Inv err s -> Inv err (flip s q).
  Proof.
    intros G I. unfold Inv, flip in *; cbn [signs corr]. rewrite badd_assoc, face_syndrome_add, <- I, G. reflexivity.
  Qed.

  (** ... hence every finite sequence of flips, whatever rule chose them *)
  Theorem flips_invariant err qs : Geom -> forall s, Inv err s -> Inv err (fold_left flip qs s).
  Proof. intros G. induction qs as [|q qs IH]; intros s I; [exact I|]. cbn. apply IH. now apply flip_invariant. Qed.

  Definition start (err : bsf) : st := St (face_syndrome err) bzero.
  Lemma start_inv err : Inv err (start err).
  Proof. unfold Inv, start; cbn. now rewrite badd_0_r. Qed.

  Corollary tracked_signs_are_residual_syndrome err qs : Geom ->
    signs (fold_left flip qs (start err)) = face_syndrome (badd err (corr (fold_left flip qs (start err)))).
  Proof. intros G. apply (flips_invariant err qs G). apply start_inv. Qed.

  (** when no excitation is left the face syndrome of error + correction is zero *)
  Corollary no_excitation_means_faces_clean err qs : Geom ->
    forallb negb (signs (fold_left flip qs (start err))) = true ->
    forallb negb (face_syndrome (badd err (corr (fold_left flip qs (start err))))) = true.
  Proof. intros G H. now rewrite <- tracked_signs_are_residual_syndrome. Qed.

  (** the correction is Z-only *)
  Lemma flips_z_only qs : forall s, bx (corr s) = 0 -> bx (corr (fold_left flip qs s)) = 0.
  Proof. induction qs as [|q qs IH]; intros s H; [exact H|]. cbn. apply IH. cbn. now rewrite H. Qed.
  Corollary correction_is_z_only err qs : bx (corr (fold_left flip qs (start err))) = 0.
  Proof. now apply flips_z_only. Qed.

  (** an edge flipped twice is removed from the correction *)
  Theorem double_flip_cancels s q : corr (flip (flip s q) q) = corr s.
  Proof. unfold flip; cbn. now rewrite <- badd_assoc, badd_nilpotent, badd_0_r. Qed.
End Automaton.

(** *** the assignment variant of the code before the fix ([correction[edge] = 'Z']) loses the invariant *)
Definition flip_assign (c : code) (face : list bool) (toggled : N -> list bool) (s : st) (q : N) : st :=
  St (xorl (signs s) (toggled q)) (B (bx (corr s)) (N.lor (bz (corr s)) (unit q))).
Example assignment_variant_refuted :
  let c := Code 1 [B 1 0] [] [] in let face := [true] in let tg := fun q => face_syndrome c face (zedge q) in
  exists qs, ~ Inv c face bzero (fold_left (flip_assign c face tg) qs (start c face bzero)).
Proof. exists [0; 0]. cbv. discriminate. Qed.
Example toggle_on_same_witness :
  let c := Code 1 [B 1 0] [] [] in let face := [true] in let tg := fun q => face_syndrome c face (zedge q) in
  Inv c face bzero (fold_left (flip tg) [0; 0] (start c face bzero)).
Proof. cbv. reflexivity. Qed.

(** ** replaying a recorded decode: events are edge flips and end-of-sweep snapshots of the tracked signs *)
Inductive event := Flip (q : N) | Snap (s : list bool).
Fixpoint replay (tg : N -> list bool) (evs : list event) (s : st) : bool * st :=
  match evs with
  | [] => (true, s)
  | Flip q :: r => replay tg r (flip tg s q)
  | Snap sn :: r => if lbeq sn (signs s) then replay tg r s else (false, s)
  end.
(** [tg] is the MODEL geometry (faces anticommuting with Z on the edge), tabulated once per lattice *)
Definition model_table (c : code) (face : list bool) : list (list bool) :=
  map (fun q => face_syndrome c face (zedge (N.of_nat q))) (seq 0 (nq c)).
Definition of_table (tab : list (list bool)) (q : N) : list bool := nth (N.to_nat q) tab [].
Definition trace_ok (c : code) (face : list bool) (tab : list (list bool)) (err : bsf) (evs : list event) (final : bsf) : bool :=
  let '(ok, s) := replay (of_table tab) evs (start c face err) in
  ok && beqb (corr s) final && (bx final =? 0)
  && lbeq (signs s) (face_syndrome c face (badd err final)).
(** geometry of one edge: the implementation's toggled set is the set of anticommuting faces *)
Definition geom_ok (c : code) (face : list bool) (q : N) (impl : list bool) : bool :=
  lbeq impl (face_syndrome c face (zedge q)).
