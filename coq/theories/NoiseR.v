(** * NoiseR: matching weights as log-likelihood ratios over the reals (C07, C09). *)
From Coq Require Import Reals Lra.
Local Open Scope R_scope.

Definition oddsR (m : R) : R := m / (1 - m).
(** [weights = -log(m / (1 - m))] *)
Definition weightR (m : R) : R := - ln (oddsR m).

Lemma oddsR_alt m : m < 1 -> oddsR m = / (1 - m) - 1.
Proof. intros H. unfold oddsR. field. lra. Qed.

Lemma oddsR_increasing m m' : m < m' -> m' < 1 -> oddsR m < oddsR m'.
Proof.
  intros H1 H2. rewrite !oddsR_alt by lra.
  assert (/ (1 - m) < / (1 - m')); [|lra].
  apply Rinv_lt_contravar; [|lra]. apply Rmult_lt_0_compat; lra.
Qed.

Lemma oddsR_pos m : 0 < m -> m < 1 -> 0 < oddsR m.
Proof. intros H0 H1. unfold oddsR. apply Rdiv_lt_0_compat; lra. Qed.

(** a more likely flip gets a strictly smaller weight *)
Theorem weight_decreasing m m' : 0 < m -> m < m' -> m' < 1 -> weightR m' < weightR m.
Proof.
  intros H0 H1 H2. unfold weightR.
  assert (ln (oddsR m) < ln (oddsR m')); [|lra].
  apply ln_increasing; [apply oddsR_pos; lra|apply oddsR_increasing; lra].
Qed.

(** weights are positive exactly for marginals below 1/2 *)
Theorem weight_positive_iff m : 0 < m -> m < 1 -> (0 < weightR m <-> m < 1 / 2).
Proof.
  intros H0 H1. unfold weightR. pose proof (oddsR_pos m H0 H1) as Hp. split; intros H.
  - assert (Hl : ln (oddsR m) < ln 1) by (rewrite ln_1; lra).
    apply ln_lt_inv in Hl; [|assumption|lra].
    rewrite oddsR_alt in Hl by lra.
    assert (/ (1 - m) < 2) by lra.
    assert (/ 2 < / / (1 - m)).
    { apply Rinv_lt_contravar; [|lra]. apply Rmult_lt_0_compat; [apply Rinv_0_lt_compat|]; lra. }
    rewrite Rinv_inv in H3. lra.
  - assert (oddsR m < 1).
    { rewrite oddsR_alt by lra. assert (/ (1 - m) < / (1 / 2)); [|lra].
      apply Rinv_lt_contravar; [|lra]. apply Rmult_lt_0_compat; lra. }
    assert (ln (oddsR m) < ln 1) by (apply ln_increasing; lra). rewrite ln_1 in H3. lra.
Qed.

(** exp(-weight) is the odds: what the correspondence check compares numerically *)
Theorem exp_neg_weight m : 0 < m -> m < 1 -> exp (- weightR m) = oddsR m.
Proof. intros H0 H1. unfold weightR. rewrite Ropp_involutive. apply exp_ln. now apply oddsR_pos. Qed.
