(** * Analysis: pooled counts and estimators of [panqec.analysis] (C15).

    A trial record is (effective_error : 2k bits, success, codespace).  A results container holds
    entries (key, trials); the analysis pools, for each key, the trials of all entries with that key.
    Every reported count is a monoid homomorphism from trial lists to [nat], hence invariant under
    any split / merge / reorder of the same multiset of trials. *)
From Coq Require Import Arith List Bool Lia Permutation QArith Reals Lra.
Import ListNotations.
Local Open Scope nat_scope.

Record trial := T { eff : list bool; succ : bool; cs : bool }.

Definition n_trials (l : list trial) : nat := length l.
Definition n_fail (l : list trial) : nat := length (filter (fun t => negb (succ t)) l).
Definition n_cs (l : list trial) : nat := length (filter cs l).
Definition count_true (b : list bool) : nat := length (filter (fun x => x) b).
(** flagged logical bits of a sector among in-codespace trials: X = first k bits, Z = last k bits *)
Definition sector_bits (k : nat) (sector_z : bool) (t : trial) : list bool :=
  if sector_z then skipn k (eff t) else firstn k (eff t).
Fixpoint n_fail_sector (k : nat) (sz : bool) (l : list trial) : nat :=
  match l with
  | [] => 0
  | t :: r => (if cs t then count_true (sector_bits k sz t) else 0) + n_fail_sector k sz r
  end.
Definition n_trials_sector (k : nat) (l : list trial) : nat := k * n_cs l.

(** ** homomorphisms *)
Lemma n_trials_app a b : n_trials (a ++ b) = n_trials a + n_trials b.
Proof. apply app_length. Qed.
Lemma n_fail_app a b : n_fail (a ++ b) = n_fail a + n_fail b.
Proof. unfold n_fail. now rewrite filter_app, app_length. Qed.
Lemma n_cs_app a b : n_cs (a ++ b) = n_cs a + n_cs b.
Proof. unfold n_cs. now rewrite filter_app, app_length. Qed.
Lemma n_fail_sector_app k sz a b : n_fail_sector k sz (a ++ b) = n_fail_sector k sz a + n_fail_sector k sz b.
Proof. induction a as [|t a IH]; cbn; [reflexivity|]. rewrite IH. lia. Qed.

(** ** invariance under any rearrangement of the same multiset of trials *)
Theorem counts_permutation_invariant k l l' : Permutation l l' ->
  n_trials l = n_trials l' /\ n_fail l = n_fail l' /\ n_cs l = n_cs l' /\
  n_fail_sector k false l = n_fail_sector k false l' /\ n_fail_sector k true l = n_fail_sector k true l' /\
  n_trials_sector k l = n_trials_sector k l'.
Proof.
  intros P. unfold n_trials_sector.
  assert (F : forall f : trial -> bool, length (filter f l) = length (filter f l')).
  { intros f. induction P as [|x a b P IH|x y a|a b c P1 IH1 P2 IH2]; cbn; try reflexivity.
    - destruct (f x); cbn; now rewrite IH.
    - destruct (f x), (f y); reflexivity.
    - now rewrite IH1. }
  assert (S : forall sz, n_fail_sector k sz l = n_fail_sector k sz l').
  { clear F. intros sz. induction P as [|x a b P IH|x y a|a b c P1 IH1 P2 IH2]; cbn [n_fail_sector]; try reflexivity.
    - now rewrite IH.
    - destruct (cs x), (cs y); lia.
    - lia. }
  repeat split; auto.
  - now apply Permutation_length.
  - unfold n_fail. apply F.
  - unfold n_cs. apply F.
  - unfold n_cs. now rewrite F.
Qed.

(** ** pooling over containers: files hold entries, entries carry a key *)
Section Pool.
  Variable key : Type.
  Variable key_eqb : key -> key -> bool.
  Definition entry := (key * list trial)%type.
  Definition pooled (k0 : key) (files : list (list entry)) : list trial :=
    flat_map (fun f => flat_map (fun e => if key_eqb (fst e) k0 then snd e else []) f) files.

  Lemma pooled_app k0 f1 f2 : pooled k0 (f1 ++ f2) = pooled k0 f1 ++ pooled k0 f2.
  Proof. unfold pooled. apply flat_map_app. Qed.

  (** merging two files into one, or splitting one file in two, does not change the pool *)
  Theorem pooled_merge_files k0 a b rest : pooled k0 ((a ++ b) :: rest) = pooled k0 (a :: b :: rest).
  Proof. unfold pooled. cbn [flat_map]. now rewrite flat_map_app, app_assoc. Qed.

  (** splitting one entry's trials over two entries with the same key does not change the pool *)
  Theorem pooled_split_entry k0 kk t1 t2 f rest :
    pooled k0 (((kk, t1 ++ t2) :: f) :: rest) = pooled k0 (((kk, t1) :: (kk, t2) :: f) :: rest).
  Proof. unfold pooled. cbn [flat_map fst snd]. destruct (key_eqb kk k0); [now rewrite !app_assoc|reflexivity]. Qed.

  (** reordering files (or entries) permutes the pool, hence leaves every count unchanged *)
  Theorem pooled_perm_files k0 files files' : Permutation files files' -> Permutation (pooled k0 files) (pooled k0 files').
  Proof.
    unfold pooled. induction 1 as [|x a b P IH|x y a|a b c P1 IH1 P2 IH2]; cbn [flat_map].
    - constructor.
    - now apply Permutation_app_head.
    - rewrite !app_assoc. apply Permutation_app_tail. apply Permutation_app_comm.
    - now transitivity (flat_map (fun f => flat_map (fun e => if key_eqb (fst e) k0 then snd e else []) f) b).
  Qed.

  Corollary pooled_counts_order_independent k k0 files files' : Permutation files files' ->
    n_trials (pooled k0 files) = n_trials (pooled k0 files') /\ n_fail (pooled k0 files) = n_fail (pooled k0 files') /\
    n_fail_sector k false (pooled k0 files) = n_fail_sector k false (pooled k0 files') /\
    n_fail_sector k true (pooled k0 files) = n_fail_sector k true (pooled k0 files').
  Proof.
    intros P. destruct (counts_permutation_invariant k _ _ (pooled_perm_files k0 _ _ P)) as (A & B & _ & C & D & _). auto.
  Qed.

  (** results of a different key are never pooled *)
  Theorem pooled_only_own_key k0 files t : In t (pooled k0 files) ->
    exists f e, In f files /\ In e f /\ key_eqb (fst e) k0 = true /\ In t (snd e).
  Proof.
    unfold pooled. rewrite in_flat_map. intros [f [Hf H]]. rewrite in_flat_map in H. destruct H as [e [He H]].
    destruct (key_eqb (fst e) k0) eqn:E; [|destruct H]. exists f, e. auto.
  Qed.
End Pool.

Lemma filter_len_le {A} (f : A -> bool) l : length (filter f l) <= length l.
Proof. induction l as [|a l IH]; cbn; [lia|]. destruct (f a); cbn; lia. Qed.

(** ** estimators over Q *)
Local Open Scope Q_scope.
Definition p_est (l : list trial) : Q := inject_Z (Z.of_nat (n_fail l)) / inject_Z (Z.of_nat (n_trials l)).
(** the reported standard error s satisfies s^2 (n+1) = p (1-p) *)
Definition p_se_sq (l : list trial) : Q := p_est l * (1 - p_est l) / inject_Z (Z.of_nat (n_trials l + 1)).
Theorem p_se_identity l : p_se_sq l * inject_Z (Z.of_nat (n_trials l + 1)) == p_est l * (1 - p_est l).
Proof.
  unfold p_se_sq. field. intros H.
  assert (P : 0 < inject_Z (Z.of_nat (n_trials l + 1))) by (unfold Qlt; cbn; lia).
  rewrite H in P. discriminate P || (unfold Qlt in P; cbn in P; lia).
Qed.
Theorem p_est_in_unit_interval l : (0 < n_trials l)%nat -> 0 <= p_est l /\ p_est l <= 1.
Proof.
  intros H. unfold p_est.
  assert (F : (n_fail l <= n_trials l)%nat) by (unfold n_fail, n_trials; apply filter_len_le).
  assert (P : 0 < inject_Z (Z.of_nat (n_trials l))) by (unfold Qlt; cbn; lia).
  split.
  - apply Qle_shift_div_l; [assumption|]. rewrite Qmult_0_l. unfold Qle; cbn; lia.
  - apply Qle_shift_div_r; [assumption|]. rewrite Qmult_1_l. rewrite <- Zle_Qle. lia.
Qed.
Close Scope Q_scope.

(** ** word error rate over R: p_word = 1 - (1-p)^(1/k), i.e. (1 - p_word)^k = 1 - p *)
Local Open Scope R_scope.
Definition p_word (p : R) (k : nat) : R := 1 - Rpower (1 - p) (/ INR k).
Theorem p_word_formula p k : p < 1 -> (0 < k)%nat -> (1 - p_word p k) ^ k = 1 - p.
Proof.
  intros Hp Hk. unfold p_word. replace (1 - (1 - Rpower (1 - p) (/ INR k))) with (Rpower (1 - p) (/ INR k)) by lra.
  rewrite <- Rpower_pow by apply exp_pos. rewrite Rpower_mult.
  rewrite Rinv_l by (apply not_0_INR; lia). apply Rpower_1. lra.
Qed.
Close Scope R_scope.

(** ** checkers for the correspondence run *)
Definition counts_ok (k : nat) (l : list trial) (nt nf ncs fx fz : nat) : bool :=
  Nat.eqb (n_trials l) nt && Nat.eqb (n_fail l) nf && Nat.eqb (n_cs l) ncs
  && Nat.eqb (n_fail_sector k false l) fx && Nat.eqb (n_fail_sector k true l) fz.
(** single-logical-qubit counts: any error / X / Y / Z on logical qubit i *)
Definition sq_count (k i : nat) (kind : nat) (l : list trial) : nat :=
  length (filter (fun t => let x := nth i (eff t) false in let z := nth (k + i) (eff t) false in
                           match kind with 0 => x || z | 1 => x && negb z | 2 => x && z | _ => negb x && z end) l).
