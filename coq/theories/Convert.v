(** * Convert: models of the representation converters of [bpauli.py] and of the integer arithmetic
    of [bs_prod] (C03).

    A "bvector" is the list of its 2n entries [x_0..x_{n-1} z_0..z_{n-1}] (booleans).  *)
From Coq Require Import Arith NArith PArith Bool List Lia.
From PQ Require Import Bits Pauli.
Import ListNotations.

Inductive p4 := I4 | X4 | Y4 | Z4.
Definition isx (p : p4) : bool := match p with X4 | Y4 => true | _ => false end.
Definition isz (p : p4) : bool := match p with Z4 | Y4 => true | _ => false end.
Definition p4_of (x z : bool) : p4 :=
  match x, z with false, false => I4 | true, false => X4 | true, true => Y4 | false, true => Z4 end.
Lemma p4_of_is p : p4_of (isx p) (isz p) = p.
Proof. now destruct p. Qed.
Lemma is_p4_of x z : isx (p4_of x z) = x /\ isz (p4_of x z) = z.
Proof. now destruct x, z. Qed.

(** [pauli_string_to_bvector] / [pauli_to_bsf] *)
Definition bv_of_string (s : list p4) : list bool := map isx s ++ map isz s.
(** [bvector_to_pauli_string] / [bsf_to_pauli] (dense) *)
Fixpoint zipp (xs zs : list bool) : list p4 :=
  match xs, zs with x :: xs', z :: zs' => p4_of x z :: zipp xs' zs' | _, _ => [] end.
Definition string_of_bv (v : list bool) : list p4 :=
  let n := Nat.div2 (length v) in zipp (firstn n v) (skipn n v).

Lemma zipp_map s : zipp (map isx s) (map isz s) = s.
Proof. induction s as [|p s IH]; cbn; [reflexivity|]. now rewrite p4_of_is, IH. Qed.
Lemma div2_double n : Nat.div2 (n + n) = n.
Proof. induction n as [|n IH]; [reflexivity|]. replace (S n + S n) with (S (S (n + n))) by lia. cbn. now rewrite IH. Qed.

Theorem string_of_bv_of_string s : string_of_bv (bv_of_string s) = s.
Proof.
  unfold string_of_bv, bv_of_string. rewrite app_length, !map_length, div2_double.
  rewrite firstn_app, skipn_app, !map_length, Nat.sub_diag. cbn [firstn skipn].
  rewrite firstn_all2 by (rewrite map_length; lia). rewrite skipn_all2 by (rewrite map_length; lia).
  rewrite app_nil_r. cbn [app]. apply zipp_map.
Qed.

Lemma map_isx_zipp xs zs : length xs = length zs -> map isx (zipp xs zs) = xs /\ map isz (zipp xs zs) = zs.
Proof.
  revert zs; induction xs as [|x xs IH]; intros [|z zs] H; cbn in *; try discriminate; [auto|].
  destruct (IH zs ltac:(lia)) as [-> ->]. destruct (is_p4_of x z) as [-> ->]. auto.
Qed.

Theorem bv_of_string_of_bv v n : length v = n + n -> bv_of_string (string_of_bv v) = v.
Proof.
  intros H. unfold string_of_bv, bv_of_string. rewrite H, div2_double.
  assert (L1 : length (firstn n v) = n) by (rewrite firstn_length; lia).
  assert (L2 : length (skipn n v) = n) by (rewrite skipn_length; lia).
  assert (HL : length (firstn n v) = length (skipn n v)) by lia.
  destruct (map_isx_zipp (firstn n v) (skipn n v) HL) as [-> ->]. apply firstn_skipn.
Qed.

(** weight: [bsf_wt] counts positions where x or z is set = number of non-identity letters *)
Fixpoint wt_zip (xs zs : list bool) : nat :=
  match xs, zs with x :: xs', z :: zs' => (if x || z then 1 else 0) + wt_zip xs' zs' | _, _ => 0 end.
Definition bv_wt (v : list bool) : nat := let n := Nat.div2 (length v) in wt_zip (firstn n v) (skipn n v).
Definition string_wt (s : list p4) : nat := length (filter (fun p => match p with I4 => false | _ => true end) s).
Lemma wt_zip_map s : wt_zip (map isx s) (map isz s) = string_wt s.
Proof. unfold string_wt. induction s as [|p s IH]; [reflexivity|]. cbn [map wt_zip filter]. rewrite IH. now destruct p. Qed.
Theorem bv_wt_string s : bv_wt (bv_of_string s) = string_wt s.
Proof.
  unfold bv_wt, bv_of_string. rewrite app_length, !map_length, div2_double.
  rewrite firstn_app, skipn_app, !map_length, Nat.sub_diag. cbn [firstn skipn].
  rewrite firstn_all2 by (rewrite map_length; lia). rewrite skipn_all2 by (rewrite map_length; lia).
  rewrite app_nil_r. cbn [app]. apply wt_zip_map.
Qed.

(** ** integers: [bvector_to_int] reads the entries as a big-endian binary numeral *)
Local Open Scope N_scope.
Definition bv_to_int (v : list bool) : N := fold_left (fun (acc : N) (b : bool) => 2 * acc + (if b then 1 else 0)) v 0.
(** [int_to_bvector k n]: the m-digit big-endian binary numeral of k (format '{:0mb}') *)
Fixpoint int_to_bv (m : nat) (k : N) : list bool :=
  match m with O => [] | S m' => int_to_bv m' (N.div2 k) ++ [N.odd k] end.

Lemma fold_bv_app v b acc :
  fold_left (fun (acc : N) (b : bool) => 2 * acc + (if b then 1 else 0)) (v ++ [b]) acc
  = 2 * fold_left (fun (acc : N) (b : bool) => 2 * acc + (if b then 1 else 0)) v acc + (if b then 1 else 0).
Proof. rewrite fold_left_app. reflexivity. Qed.

Theorem bv_to_int_to_bv m : forall k, k < 2 ^ N.of_nat m -> bv_to_int (int_to_bv m k) = k.
Proof.
  unfold bv_to_int. induction m as [|m IH]; intros k Hk.
  - cbn in *. lia.
  - cbn [int_to_bv]. rewrite fold_bv_app. rewrite IH.
    + rewrite N.div2_div. pose proof (N.div_mod k 2 ltac:(lia)) as D.
      rewrite <- N.bit0_mod, N.bit0_odd in D. set (q := k / 2) in *. clearbody q.
      destruct (N.odd k); cbn [N.b2n] in D; lia.
    + rewrite N.div2_div. apply N.div_lt_upper_bound; [lia|].
      replace (N.of_nat (S m)) with (N.succ (N.of_nat m)) in Hk by lia. now rewrite N.pow_succ_r' in Hk.
Qed.

Lemma int_to_bv_length m k : length (int_to_bv m k) = m.
Proof. revert k; induction m as [|m IH]; intros k; cbn; [reflexivity|]. rewrite app_length, IH. cbn. lia. Qed.

Theorem int_to_bv_to_int v : int_to_bv (length v) (bv_to_int v) = v.
Proof.
  unfold bv_to_int. induction v as [|b v IH] using rev_ind; [reflexivity|].
  rewrite app_length, Nat.add_comm. cbn [length Nat.add int_to_bv]. rewrite fold_bv_app.
  set (a := fold_left _ v 0) in *.
  assert (E1 : N.div2 (2 * a + (if b then 1 else 0)) = a).
  { rewrite N.div2_div. destruct b; [|rewrite N.add_0_r, N.mul_comm; now apply N.div_mul].
    rewrite N.mul_comm, N.div_add_l by lia. cbn. lia. }
  assert (E2 : N.odd (2 * a + (if b then 1 else 0)) = b).
  { destruct b; [now rewrite N.add_1_r, N.odd_succ, N.even_mul, orb_true_l|].
    rewrite N.add_0_r, N.odd_mul. reflexivity. }
  now rewrite E1, E2, IH.
Qed.

Theorem bv_to_int_bound v : bv_to_int v < 2 ^ N.of_nat (length v).
Proof.
  unfold bv_to_int. induction v as [|b v IH] using rev_ind; [cbn; lia|].
  rewrite fold_bv_app, app_length. cbn [length]. replace (N.of_nat (length v + 1)) with (N.succ (N.of_nat (length v))) by lia.
  rewrite N.pow_succ_r'. destruct b; lia.
Qed.

(** ** the fixed-width integer arithmetic of the dense and sparse products is harmless:
    reducing the overlap count modulo 2^w (w >= 1) before taking it modulo 2 changes nothing *)
Theorem uint_wrap_harmless w s : 1 <= w -> (s mod 2 ^ w) mod 2 = s mod 2.
Proof.
  intros Hw. replace w with (N.succ (w - 1)) by lia. rewrite N.pow_succ_r'.
  rewrite N.mod_mul_r by (try lia; apply N.pow_nonzero; lia).
  set (t := (s / 2) mod 2 ^ (w - 1)). rewrite (N.mul_comm 2 t), N.mod_add by lia. apply N.mod_mod. lia.
Qed.

(** the dense product: overlaps are COUNTED (uint-w dot products), summed, wrapped, then reduced mod 2 *)
Definition bs_prod_dense (w : N) (a b : bsf) : N :=
  ((npop (N.land (bx a) (bz b)) + npop (N.land (bz a) (bx b))) mod 2 ^ w) mod 2.

Theorem bs_prod_dense_exact w a b : 1 <= w -> bs_prod_dense w a b = if sp a b then 1 else 0.
Proof.
  intros Hw. unfold bs_prod_dense. rewrite uint_wrap_harmless by assumption.
  unfold sp, dotN. rewrite !npar_npop.
  set (p := npop (N.land (bx a) (bz b))). set (q := npop (N.land (bz a) (bx b))).
  rewrite <- N.bit0_mod, N.bit0_odd, N.odd_add. destruct (xorb (N.odd p) (N.odd q)); reflexivity.
Qed.

(** ** row operations used by the correspondence check *)
Definition bsf_of_bv (v : list bool) : bsf :=
  let n := Nat.div2 (length v) in
  let mk := fix mk (i : N) (l : list bool) : N :=
              match l with [] => 0 | b :: r => N.lxor (if b then unit i else 0) (mk (N.succ i) r) end in
  B (mk 0 (firstn n v)) (mk 0 (skipn n v)).
Fixpoint p4list_eqb (a b : list p4) : bool :=
  match a, b with
  | [], [] => true
  | x :: a', y :: b' => (match x, y with I4, I4 | X4, X4 | Y4, Y4 | Z4, Z4 => true | _, _ => false end) && p4list_eqb a' b'
  | _, _ => false
  end.

(** ** checkers for the correspondence run *)
Fixpoint bl_eqb (a b : list bool) : bool :=
  match a, b with [], [] => true | x :: a', y :: b' => Bool.eqb x y && bl_eqb a' b' | _, _ => false end.
Definition conv_ok (s back : list p4) (v1 v2 fromint : list bool) (k : N) (wt : nat) : bool :=
  bl_eqb (bv_of_string s) v1 && bl_eqb v1 v2 && p4list_eqb (string_of_bv v1) back && p4list_eqb back s
  && (bv_to_int v1 =? k) && bl_eqb (int_to_bv (length v1) k) fromint
  && Nat.eqb (bv_wt v1) wt && Nat.eqb (string_wt s) wt.
(** value table of a product of two stacks, row-major *)
Definition stack_prod (A B : list bsf) : list bool := flat_map (fun a => map (fun b => sp a b) B) A.
Definition stack_ok (A B : list bsf) (vals : list bool) : bool :=
  bl_eqb (stack_prod A B) vals
  && bl_eqb (flat_map (fun a => map (fun b => N.eqb (bs_prod_dense 8 a b) 1) B) A) vals.
Definition out_shape (a2d b2d : bool) (ra rb : nat) : list nat :=
  match a2d, b2d with true, true => [ra; rb] | true, false => [ra] | false, true => [rb] | false, false => [1; 1]%nat end.
Definition decp (n : nat) (v : N) : bsf := B (N.land v (N.ones (N.of_nat n))) (N.shiftr v (N.of_nat n)).
Definition pair_ok (n : nat) (a b : N) (val : bool) : bool :=
  Bool.eqb (sp (decp n a) (decp n b)) val && Bool.eqb (N.eqb (bs_prod_dense 8 (decp n a) (decp n b)) 1) val
  && Bool.eqb (sp (decp n b) (decp n a)) val.
