(** * Gui: the visualizer backend's representation lookup and decoder offering rule (C20).

    The tables ([gui-config.json], the GUI's [codes] / [decoders] dicts, [allowed_codes]) are pure data
    and are regenerated from the working tree on every run; the functions below are the model of
    [stabilizer_representation] / [qubit_representation] (with the kitaev fallback) and of
    [send_decoder_names]. *)
From Coq Require Import List Bool String Arith.
Import ListNotations.
Local Open Scope string_scope.

(** an entry is "complete" when it has object, colour for both activations (names in the colormap),
    opacity and params; completeness is decided by the table generator per entry and carried as a bool *)
Definition stab_table := list (string * list (string * list (string * bool))).   (* class -> picture -> type -> complete *)
Definition qubit_table := list (string * list (string * bool)).                  (* class -> picture -> complete *)

Fixpoint assoc {A} (k : string) (l : list (string * A)) : option A :=
  match l with [] => None | (k', v) :: r => if String.eqb k k' then Some v else assoc k r end.

(** [data[code_name]['stabilizers'][picture][stab_type]], falling back to the kitaev picture when the
    requested picture does not define the type *)
Definition stab_lookup (t : stab_table) (cls picture ty : string) : option bool :=
  match assoc cls t with
  | None => None
  | Some pics =>
      match match assoc picture pics with Some tys => assoc ty tys | None => None end with
      | Some e => Some e
      | None => match assoc "kitaev" pics with Some tys => assoc ty tys | None => None end
      end
  end.
Definition qubit_lookup (t : qubit_table) (cls picture : string) : option bool :=
  match assoc cls t with None => None | Some pics => assoc picture pics end.

(** the lookup is total for BOTH pictures as soon as the kitaev picture defines the type *)
Theorem stab_lookup_total t cls pics tys ty e picture :
  assoc cls t = Some pics -> assoc "kitaev" pics = Some tys -> assoc ty tys = Some e ->
  exists e', stab_lookup t cls picture ty = Some e'.
Proof.
  intros H1 H2 H3. unfold stab_lookup. rewrite H1.
  destruct (match assoc picture pics with Some tys0 => assoc ty tys0 | None => None end) as [e0|]; [now exists e0|].
  rewrite H2, H3. now exists e.
Qed.

(** every (class, picture in {kitaev, rotated}, type the class produces) has a complete entry *)
Definition all_served (st : stab_table) (qt : qubit_table) (classes : list (string * list string)) : bool :=
  forallb (fun ct =>
    forallb (fun picture =>
      forallb (fun ty => match stab_lookup st (fst ct) picture ty with Some true => true | _ => false end) (snd ct)
      && match qubit_lookup qt (fst ct) picture with Some true => true | _ => false end)
    ["kitaev"; "rotated"]) classes.

(** decoder offering rule: exactly the decoders declaring support for the code's class *)
Definition offered (decs : list (string * option (list string))) (cls : string) : list string :=
  map fst (filter (fun d => match snd d with None => true | Some l => existsb (String.eqb cls) l end) decs).
Theorem offered_spec decs cls name :
  In name (offered decs cls) <->
  exists allowed, In (name, allowed) decs /\ (allowed = None \/ exists l, allowed = Some l /\ existsb (String.eqb cls) l = true).
Proof.
  unfold offered. rewrite in_map_iff. split.
  - intros [[n a] [E H]]. cbn in E. subst. apply filter_In in H. destruct H as [Hin Hf]. exists a. split; [assumption|].
    cbn in Hf. destruct a as [l|]; [right; exists l; auto|now left].
  - intros [a [Hin H]]. exists (name, a). split; [reflexivity|]. apply filter_In. split; [assumption|]. cbn.
    destruct H as [->|[l [-> Hl]]]; auto.
Qed.

Fixpoint sl_eqb (a b : list string) : bool :=
  match a, b with [], [] => true | x :: a', y :: b' => String.eqb x y && sl_eqb a' b' | _, _ => false end.
(** menu names map to pairwise distinct classes *)
Fixpoint distinct (l : list string) : bool :=
  match l with [] => true | x :: r => negb (existsb (String.eqb x) r) && distinct r end.
