(** * Planar3DLogicals: the logical X line and logical Z sheet of [Planar3DCode] commute with every generator
    of the other Pauli type and share exactly one qubit, for every size (Layer P). *)
From Coq Require Import ZArith List Bool Lia ZifyBool.
From PQ Require Import Toric2D Toric3D Planar3D.
Import ListNotations.
Local Open Scope Z_scope.
Ltac Zify.zify_post_hook ::= Z.to_euclidean_division_equations.

(** the listed logicals are, as lists, those of the toric code: X on the x-edges (x, 0, 0), Z on the x-edges (1, y, z) *)
Definition lx (Lx : Z) : list pt3 := Toric3D.lx1 Lx.
Definition lz (Ly Lz : Z) : list pt3 := Toric3D.lz1 Ly Lz.

Ltac decide_terms :=
  repeat match goal with
         | |- context[xorb _ ?t] =>
           lazymatch t with true => fail | false => fail
           | _ => first [replace t with false by (unfold Planar3D.is_qubit_b, on_odd, on_even; lia)
                        | replace t with true by (unfold Planar3D.is_qubit_b, on_odd, on_even; lia)] end
         end.
Ltac open_support :=
  unfold Planar3D.support, Planar3D.deltas, Planar3D.is_vertex;
  repeat match goal with |- context[(?t mod 2 =? 0)] => first [replace (t mod 2 =? 0) with true by lia | replace (t mod 2 =? 0) with false by lia] end;
  cbn [andb]; rewrite overlap3_filter; cbn [map add3 fold_left]; rewrite ?mem3_lx1, ?mem3_lz1.

Lemma vertex_vs_lx Lx Ly Lz a b c : 2 <= Lx -> 2 <= Ly -> 2 <= Lz ->
  2 <= 2 * a <= 2 * Lx - 2 -> 0 <= 2 * b <= 2 * Ly - 2 -> 0 <= 2 * c <= 2 * Lz - 2 ->
  overlap3 (Planar3D.support Lx Ly Lz (2 * a, 2 * b, 2 * c)) (lx Lx) = false.
Proof.
  intros HLx HLy HLz Ra Rb Rc. unfold lx. open_support.
  destruct (Z.eq_dec b 0) as [?|?]; destruct (Z.eq_dec c 0) as [?|?]; decide_terms; reflexivity.
Qed.
Lemma face_xy_vs_lz Lx Ly Lz d e f : 2 <= Lx -> 2 <= Ly -> 2 <= Lz ->
  1 <= 2 * d + 1 <= 2 * Lx - 1 -> 1 <= 2 * e + 1 <= 2 * Ly - 3 -> 0 <= 2 * f <= 2 * Lz - 2 ->
  overlap3 (Planar3D.support Lx Ly Lz (2 * d + 1, 2 * e + 1, 2 * f)) (lz Ly Lz) = false.
Proof. intros HLx HLy HLz Rd Re Rf. unfold lz. open_support. destruct (Z.eq_dec d 0) as [?|?]; decide_terms; reflexivity. Qed.
Lemma face_yz_vs_lz Lx Ly Lz d e f : 2 <= Lx -> 2 <= Ly -> 2 <= Lz ->
  2 <= 2 * d <= 2 * Lx - 2 -> 1 <= 2 * e + 1 <= 2 * Ly - 3 -> 1 <= 2 * f + 1 <= 2 * Lz - 3 ->
  overlap3 (Planar3D.support Lx Ly Lz (2 * d, 2 * e + 1, 2 * f + 1)) (lz Ly Lz) = false.
Proof. intros HLx HLy HLz Rd Re Rf. unfold lz. open_support. decide_terms; reflexivity. Qed.
Lemma face_xz_vs_lz Lx Ly Lz d e f : 2 <= Lx -> 2 <= Ly -> 2 <= Lz ->
  1 <= 2 * d + 1 <= 2 * Lx - 1 -> 0 <= 2 * e <= 2 * Ly - 2 -> 1 <= 2 * f + 1 <= 2 * Lz - 3 ->
  overlap3 (Planar3D.support Lx Ly Lz (2 * d + 1, 2 * e, 2 * f + 1)) (lz Ly Lz) = false.
Proof. intros HLx HLy HLz Rd Re Rf. unfold lz. open_support. destruct (Z.eq_dec d 0) as [?|?]; decide_terms; reflexivity. Qed.

Theorem planar3d_logicals_commute_with_stabilizers Lx Ly Lz s :
  2 <= Lx -> 2 <= Ly -> 2 <= Lz -> In s (Planar3D.stab_coords Lx Ly Lz) ->
  (Planar3D.is_vertex s = true -> overlap3 (Planar3D.support Lx Ly Lz s) (lx Lx) = false) /\
  (Planar3D.is_vertex s = false -> overlap3 (Planar3D.support Lx Ly Lz s) (lz Ly Lz) = false).
Proof.
  intros HLx HLy HLz Hs. destruct s as [[x y] z]. apply Planar3D.stab_cases in Hs. unfold Planar3D.is_vertex.
  destruct Hs as [(P1 & R1 & P2 & R2 & P3 & R3)|[(P1 & R1 & P2 & R2 & P3 & R3)|[(P1 & R1 & P2 & R2 & P3 & R3)|(P1 & R1 & P2 & R2 & P3 & R3)]]];
    split; intros T; try lia.
  - assert (E1 : exists a, x = 2 * a) by (exists (x / 2); lia). assert (E2 : exists b, y = 2 * b) by (exists (y / 2); lia).
    assert (E3 : exists c, z = 2 * c) by (exists (z / 2); lia). destruct E1 as [a ->], E2 as [b ->], E3 as [c ->].
    apply vertex_vs_lx; assumption.
  - assert (E1 : exists a, x = 2 * a + 1) by (exists (x / 2); lia). assert (E2 : exists b, y = 2 * b + 1) by (exists (y / 2); lia).
    assert (E3 : exists c, z = 2 * c) by (exists (z / 2); lia). destruct E1 as [a ->], E2 as [b ->], E3 as [c ->].
    apply face_xy_vs_lz; assumption.
  - assert (E1 : exists a, x = 2 * a) by (exists (x / 2); lia). assert (E2 : exists b, y = 2 * b + 1) by (exists (y / 2); lia).
    assert (E3 : exists c, z = 2 * c + 1) by (exists (z / 2); lia). destruct E1 as [a ->], E2 as [b ->], E3 as [c ->].
    apply face_yz_vs_lz; assumption.
  - assert (E1 : exists a, x = 2 * a + 1) by (exists (x / 2); lia). assert (E2 : exists b, y = 2 * b) by (exists (y / 2); lia).
    assert (E3 : exists c, z = 2 * c + 1) by (exists (z / 2); lia). destruct E1 as [a ->], E2 as [b ->], E3 as [c ->].
    apply face_xz_vs_lz; assumption.
Qed.

(** the logical X line and the logical Z sheet share exactly the qubit (1, 0, 0) *)
Theorem planar3d_logical_pairing Lx Ly Lz : 1 <= Lx -> 1 <= Ly -> 1 <= Lz -> overlap3 (lx Lx) (lz Ly Lz) = true.
Proof. intros H1 H2 H3. exact (proj1 (toric3d_logical_pairing Lx Ly Lz H1 H2 H3)). Qed.

Definition logicals_match (Lx Ly Lz : Z) (x1 z1 : list pt3) : bool := pt3l_eqb (lx Lx) x1 && pt3l_eqb (lz Ly Lz) z1.
