(** * Distance: the minimum weight of a Pauli operator that commutes with all stabilizers and acts
    non-trivially on the logical qubits (C17).

    Lower bounds are established by a verified exhaustive search over all operators of weight
    below d (for CSS codes: over pure-X and pure-Z operators only, by a proved reduction); the
    search is run inside the kernel.  Deformed codes inherit the distance of the undeformed code. *)
From Coq Require Import Arith NArith PArith Bool List Lia.
From PQ Require Import Bits Pauli Code Operator Deform.
Import ListNotations.
Local Open Scope N_scope.

(** weight = number of qubits (among the first n) carrying a non-identity Pauli *)
Definition qw (e : bsf) (i : N) : bool := N.testbit (bx e) i || N.testbit (bz e) i.
Definition wtn (n : nat) (e : bsf) : nat := length (filter (qw e) (upto n)).

Definition is_logical (c : code) (e : bsf) : bool := in_codespace c e && is_logical_error c e.

Definition Distance (c : code) (d : nat) : Prop :=
  (exists e, bbounded (nn c) e = true /\ is_logical c e = true /\ wtn (nq c) e = d) /\
  (forall e, bbounded (nn c) e = true -> is_logical c e = true -> (d <= wtn (nq c) e)%nat).

(** ** facts about [bounded] and [wtn] *)
Lemma bounded_of_bits n v : (forall i, n <= i -> N.testbit v i = false) -> bounded n v = true.
Proof.
  intros H. unfold bounded. apply N.eqb_eq. apply N.bits_inj; intro i.
  rewrite N.shiftr_spec by lia. rewrite N.bits_0. apply H. lia.
Qed.

Lemma bounded_pred k v : bounded (N.of_nat (S k)) v = true -> N.testbit v (N.of_nat k) = false ->
  bounded (N.of_nat k) v = true.
Proof.
  intros Hb Ht. apply bounded_of_bits. intros i Hi.
  destruct (N.eq_dec i (N.of_nat k)) as [->|Hne]; [assumption|].
  apply (bounded_testbit (N.of_nat (S k))); [assumption|lia].
Qed.

Lemma wtn_S k e : wtn (S k) e = (wtn k e + (if qw e (N.of_nat k) then 1 else 0))%nat.
Proof.
  unfold wtn. cbn [upto]. rewrite filter_app, app_length. cbn [filter].
  destruct (qw e (N.of_nat k)); cbn; lia.
Qed.

Lemma wtn_ext k e e' : (forall i, i < N.of_nat k -> qw e i = qw e' i) -> wtn k e = wtn k e'.
Proof.
  intros H. unfold wtn. f_equal. apply filter_ext_in. intros i Hi. apply in_upto in Hi. now apply H.
Qed.

Lemma testbit_lxor_unit a k i : i <> k -> N.testbit (N.lxor a (unit k)) i = N.testbit a i.
Proof.
  intros Hne. rewrite N.lxor_spec, testbit_unit. replace (i =? k) with false by (symmetry; now apply N.eqb_neq).
  apply xorb_false_r.
Qed.

(** ** exhaustive search over all operators supported on the first k qubits with weight <= b *)
Section Search.
  Variable bad : bsf -> bool.

  Fixpoint search (k : nat) (b : nat) (acc : bsf) : bool :=
    match k with
    | O => negb (bad acc)
    | S k' =>
        search k' b acc &&
        match b with
        | O => true
        | S b' => search k' b' (badd acc (pauli_at k' PX)) && search k' b' (badd acc (pauli_at k' PY))
                  && search k' b' (badd acc (pauli_at k' PZ))
        end
    end.

  Lemma split_top k e : bbounded (N.of_nat (S k)) e = true ->
    match pauli_of (N.testbit (bx e) (N.of_nat k)) (N.testbit (bz e) (N.of_nat k)) with
    | None => bbounded (N.of_nat k) e = true /\ wtn (S k) e = wtn k e
    | Some p => exists e', bbounded (N.of_nat k) e' = true /\ e = badd (pauli_at k p) e' /\ wtn (S k) e = S (wtn k e')
    end.
  Proof.
    intros Hb. unfold bbounded in Hb. apply andb_true_iff in Hb. destruct Hb as [Hx Hz].
    rewrite wtn_S. unfold qw.
    destruct (N.testbit (bx e) (N.of_nat k)) eqn:Tx, (N.testbit (bz e) (N.of_nat k)) eqn:Tz; cbn [pauli_of orb].
    - (* Y *) exists (badd (pauli_at k PY) e). split; [|split].
      + unfold bbounded, badd, pauli_at; cbn [bx bz]. apply andb_true_iff; split; apply bounded_of_bits; intros i Hi;
          rewrite N.lxor_spec, testbit_unit;
          (destruct (N.eq_dec i (N.of_nat k)) as [->|Hne];
           [rewrite N.eqb_refl, ?Tx, ?Tz; reflexivity
           |replace (i =? N.of_nat k) with false by (symmetry; now apply N.eqb_neq);
            rewrite xorb_false_l; apply (bounded_testbit (N.of_nat (S k))); [assumption|lia]]).
      + now rewrite badd_cancel_l.
      + rewrite (wtn_ext k e (badd (pauli_at k PY) e)); [lia|].
        intros i Hi. unfold qw, badd, pauli_at; cbn [bx bz]. rewrite !(N.lxor_comm (unit _)).
        rewrite !testbit_lxor_unit by lia. reflexivity.
    - (* X *) exists (badd (pauli_at k PX) e). split; [|split].
      + unfold bbounded, badd, pauli_at; cbn [bx bz]. rewrite N.lxor_0_l. apply andb_true_iff; split.
        * apply bounded_of_bits; intros i Hi. rewrite N.lxor_spec, testbit_unit.
          destruct (N.eq_dec i (N.of_nat k)) as [->|Hne];
           [rewrite N.eqb_refl, Tx; reflexivity
           |replace (i =? N.of_nat k) with false by (symmetry; now apply N.eqb_neq);
            rewrite xorb_false_l; apply (bounded_testbit (N.of_nat (S k))); [assumption|lia]].
        * now apply bounded_pred.
      + now rewrite badd_cancel_l.
      + rewrite (wtn_ext k e (badd (pauli_at k PX) e)); [lia|].
        intros i Hi. unfold qw, badd, pauli_at; cbn [bx bz]. rewrite N.lxor_0_l, (N.lxor_comm (unit _)).
        rewrite testbit_lxor_unit by lia. reflexivity.
    - (* Z *) exists (badd (pauli_at k PZ) e). split; [|split].
      + unfold bbounded, badd, pauli_at; cbn [bx bz]. rewrite N.lxor_0_l. apply andb_true_iff; split.
        * now apply bounded_pred.
        * apply bounded_of_bits; intros i Hi. rewrite N.lxor_spec, testbit_unit.
          destruct (N.eq_dec i (N.of_nat k)) as [->|Hne];
           [rewrite N.eqb_refl, Tz; reflexivity
           |replace (i =? N.of_nat k) with false by (symmetry; now apply N.eqb_neq);
            rewrite xorb_false_l; apply (bounded_testbit (N.of_nat (S k))); [assumption|lia]].
      + now rewrite badd_cancel_l.
      + rewrite (wtn_ext k e (badd (pauli_at k PZ) e)); [lia|].
        intros i Hi. unfold qw, badd, pauli_at; cbn [bx bz]. rewrite N.lxor_0_l, (N.lxor_comm (unit _)).
        rewrite testbit_lxor_unit by lia. reflexivity.
    - split; [|lia]. unfold bbounded. apply andb_true_iff; split; now apply bounded_pred.
  Qed.

  Theorem search_sound k : forall b acc, search k b acc = true ->
    forall e, bbounded (N.of_nat k) e = true -> (wtn k e <= b)%nat -> bad (badd acc e) = false.
  Proof.
    induction k as [|k IH]; intros b acc Hs e Hb Hw.
    - cbn in Hs. apply negb_true_iff in Hs.
      assert (e = bzero).
      { apply (bsf_nondegenerate 0); [assumption| |]; intros j Hj; lia. }
      subst e. now rewrite badd_0_r.
    - cbn [search] in Hs. apply andb_true_iff in Hs. destruct Hs as [H0 H1].
      pose proof (split_top k e Hb) as Hsp.
      destruct (pauli_of _ _) as [p|].
      + destruct Hsp as [e' [Hb' [-> Hw']]]. rewrite Hw' in Hw. destruct b as [|b']; [lia|].
        rewrite !andb_true_iff in H1. destruct H1 as [[HX HY] HZ].
        rewrite badd_assoc. destruct p; [apply (IH b' _ HX)|apply (IH b' _ HY)|apply (IH b' _ HZ)]; auto; lia.
      + destruct Hsp as [Hb' Hw']. rewrite Hw' in Hw. now apply (IH b acc H0).
  Qed.
End Search.

(** single-type search: all bitsets supported on the first k positions with at most b ones *)
Section Search1.
  Variable bad : N -> bool.
  Definition nw (k : nat) (x : N) : nat := length (filter (N.testbit x) (upto k)).
  Fixpoint search1 (k : nat) (b : nat) (acc : N) : bool :=
    match k with
    | O => negb (bad acc)
    | S k' => search1 k' b acc &&
              match b with O => true | S b' => search1 k' b' (N.lxor acc (unit (N.of_nat k'))) end
    end.
  Theorem search1_sound k : forall b acc, search1 k b acc = true ->
    forall x, bounded (N.of_nat k) x = true -> (nw k x <= b)%nat -> bad (N.lxor acc x) = false.
  Proof.
    induction k as [|k IH]; intros b acc Hs x Hb Hw.
    - cbn in Hs. apply negb_true_iff in Hs.
      assert (x = 0) by (apply (bounded_zero 0); [assumption|intros i Hi; lia]). subst. now rewrite N.lxor_0_r.
    - cbn [search1] in Hs. apply andb_true_iff in Hs. destruct Hs as [H0 H1].
      assert (WS : nw (S k) x = (nw k x + (if N.testbit x (N.of_nat k) then 1 else 0))%nat).
      { unfold nw. cbn [upto]. rewrite filter_app, app_length. cbn [filter].
        destruct (N.testbit x (N.of_nat k)); cbn; lia. }
      destruct (N.testbit x (N.of_nat k)) eqn:T.
      + destruct b as [|b']; [lia|]. set (x' := N.lxor x (unit (N.of_nat k))).
        assert (Hb' : bounded (N.of_nat k) x' = true).
        { apply bounded_of_bits. intros i Hi. unfold x'. rewrite N.lxor_spec, testbit_unit.
          destruct (N.eq_dec i (N.of_nat k)) as [->|Hne]; [now rewrite N.eqb_refl, T|].
          replace (i =? N.of_nat k) with false by (symmetry; now apply N.eqb_neq).
          rewrite xorb_false_r. apply (bounded_testbit (N.of_nat (S k))); [assumption|lia]. }
        assert (Hw' : nw k x' = nw k x).
        { unfold nw. f_equal. apply filter_ext_in. intros i Hi. apply in_upto in Hi. unfold x'.
          apply testbit_lxor_unit. lia. }
        replace (N.lxor acc x) with (N.lxor (N.lxor acc (unit (N.of_nat k))) x').
        * apply (IH b' _ H1); [assumption|lia].
        * unfold x'. apply N.bits_inj; intro i. rewrite !N.lxor_spec.
          destruct (N.testbit acc i), (N.testbit x i), (N.testbit (unit (N.of_nat k)) i); reflexivity.
      + apply (IH b acc H0); [now apply bounded_pred|lia].
  Qed.
End Search1.

(** ** CSS reduction: a logical operator of a CSS code has a pure-X or pure-Z logical part *)
Definition css_code (c : code) : bool := forallb (fun s => (bx s =? 0) || (bz s =? 0)) (stabs c).

Lemma split_xz e : e = badd (B (bx e) 0) (B 0 (bz e)).
Proof. destruct e as [x z]; unfold badd; cbn [bx bz]. now rewrite ?N.lxor_0_r, ?N.lxor_0_l. Qed.

Lemma css_parts_in_codespace c e : css_code c = true -> in_codespace c e = true ->
  in_codespace c (B (bx e) 0) = true /\ in_codespace c (B 0 (bz e)) = true.
Proof.
  intros Hc He. rewrite in_codespace_iff in He. unfold css_code in Hc. rewrite forallb_forall in Hc.
  split; apply in_codespace_iff; intros s Hs; specialize (Hc s Hs); specialize (He s Hs);
    apply orb_true_iff in Hc; unfold sp in *; cbn [bx bz] in *; destruct Hc as [Hc|Hc]; apply N.eqb_eq in Hc;
    rewrite Hc in *; rewrite ?dotN_0_r, ?dotN_0_l in *;
    repeat match goal with
           | H : context [xorb false ?b] |- _ => rewrite (xorb_false_l b) in H
           | H : context [xorb ?b false] |- _ => rewrite (xorb_false_r b) in H
           | |- context [xorb false ?b] => rewrite (xorb_false_l b)
           | |- context [xorb ?b false] => rewrite (xorb_false_r b)
           end; auto.
Qed.

Lemma existsb_xorl (a b : list bool) : length a = length b ->
  existsb (fun x => x) (xorl a b) = true -> existsb (fun x => x) a = true \/ existsb (fun x => x) b = true.
Proof.
  unfold xorl. revert b; induction a as [|x a IH]; intros [|y b] Hl H; cbn in *; try discriminate.
  apply orb_true_iff in H. destruct H as [H|H].
  - destruct x, y; cbn in *; auto; discriminate.
  - destruct (IH b ltac:(lia) H) as [Ha|Hb]; [left|right]; apply orb_true_iff; auto.
Qed.

Theorem css_reduction c e : css_code c = true -> is_logical c e = true ->
  is_logical c (B (bx e) 0) = true \/ is_logical c (B 0 (bz e)) = true.
Proof.
  unfold is_logical. intros Hc H. apply andb_true_iff in H. destruct H as [Hcs Hle].
  destruct (css_parts_in_codespace c e Hc Hcs) as [Cx Cz]. rewrite Cx, Cz. cbn [andb].
  unfold is_logical_error in *. rewrite (split_xz e), logical_errors_linear in Hle.
  apply existsb_xorl; [|exact Hle]. now rewrite !logical_errors_length.
Qed.

Lemma filter_length_le {A} (f g : A -> bool) l : (forall x, f x = true -> g x = true) ->
  (length (filter f l) <= length (filter g l))%nat.
Proof.
  intros H. induction l as [|a l IH]; [cbn; lia|]. cbn [filter].
  destruct (f a) eqn:Fa; [rewrite (H a Fa); cbn; lia|]. destruct (g a); cbn; lia.
Qed.
Lemma wtn_x_le n e : (wtn n (B (bx e) 0) <= wtn n e)%nat /\ (wtn n (B 0 (bz e)) <= wtn n e)%nat.
Proof.
  unfold wtn. split; apply filter_length_le; intros i; unfold qw; cbn [bx bz]; rewrite ?N.bits_0;
    rewrite ?orb_false_r, ?orb_false_l; intros H; rewrite H; auto using orb_true_r.
Qed.
Lemma wtn_nw_x n x : wtn n (B x 0) = nw n x.
Proof. unfold wtn, nw. apply f_equal. apply filter_ext. intro i. unfold qw; cbn [bx bz]. now rewrite ?N.bits_0, ?orb_false_r. Qed.
Lemma wtn_nw_z n z : wtn n (B 0 z) = nw n z.
Proof. unfold wtn, nw. apply f_equal. apply filter_ext. intro i. unfold qw; cbn [bx bz]. now rewrite ?N.bits_0, ?orb_false_l. Qed.

(** ** the distance checkers *)
(** general: every operator of weight < d is not a logical; witness has weight d *)
Definition distance_ok (c : code) (d : nat) (w : bsf) : bool :=
  bbounded (nn c) w && is_logical c w && Nat.eqb (wtn (nq c) w) d &&
  match d with O => false | S b => search (is_logical c) (nq c) b bzero end.

(** CSS: only pure-X and pure-Z operators of weight < d need to be searched *)
Definition distance_ok_css (c : code) (d : nat) (w : bsf) : bool :=
  css_code c && bbounded (nn c) w && is_logical c w && Nat.eqb (wtn (nq c) w) d &&
  match d with O => false
  | S b => search1 (fun x => is_logical c (B x 0)) (nq c) b 0 && search1 (fun z => is_logical c (B 0 z)) (nq c) b 0
  end.

Theorem distance_ok_sound c d w : distance_ok c d w = true -> Distance c d.
Proof.
  unfold distance_ok. rewrite !andb_true_iff. intros [[[Hb Hl] Hw] Hs]. apply Nat.eqb_eq in Hw.
  destruct d as [|b]; [discriminate|]. split; [exists w; auto|].
  intros e He Hle. destruct (Nat.le_gt_cases (S b) (wtn (nq c) e)) as [|Hlt]; [assumption|exfalso].
  pose proof (search_sound (is_logical c) (nq c) b bzero Hs e He ltac:(lia)) as Hbad.
  rewrite badd_0_l in Hbad. congruence.
Qed.

Theorem distance_ok_css_sound c d w : distance_ok_css c d w = true -> Distance c d.
Proof.
  unfold distance_ok_css. rewrite !andb_true_iff. intros [[[[Hc Hb] Hl] Hw] Hs]. apply Nat.eqb_eq in Hw.
  destruct d as [|b]; [discriminate|]. apply andb_true_iff in Hs. destruct Hs as [Sx Sz].
  split; [exists w; auto|].
  intros e He Hle. destruct (Nat.le_gt_cases (S b) (wtn (nq c) e)) as [|Hlt]; [assumption|exfalso].
  unfold bbounded in He. apply andb_true_iff in He. destruct He as [Hex Hez].
  destruct (wtn_x_le (nq c) e) as [Wx Wz].
  destruct (css_reduction c e Hc Hle) as [Hx|Hz].
  - pose proof (search1_sound _ (nq c) b 0 Sx (bx e) Hex) as Hbad. rewrite N.lxor_0_l in Hbad.
    rewrite Hbad in Hx; [discriminate|]. rewrite <- wtn_nw_x. lia.
  - pose proof (search1_sound _ (nq c) b 0 Sz (bz e) Hez) as Hbad. rewrite N.lxor_0_l in Hbad.
    rewrite Hbad in Hz; [discriminate|]. rewrite <- wtn_nw_z. lia.
Qed.

(** ** a deformed code has the distance of the undeformed code *)
Lemma perm_bits n D i : perm_ok n D = true -> i < n ->
  xorb (N.testbit (da D) i && N.testbit (dd D) i) (N.testbit (db D) i && N.testbit (dc D) i) = true.
Proof.
  unfold perm_ok, det. intros H Hi. apply N.eqb_eq in H.
  assert (E : N.testbit (N.land (N.lxor (N.land (da D) (dd D)) (N.land (db D) (dc D))) (N.ones n)) i = N.testbit (N.ones n) i)
    by now rewrite H.
  rewrite N.land_spec, N.lxor_spec, !N.land_spec, N.ones_spec_low, andb_true_r in E by lia. exact E.
Qed.

Lemma qw_apply n D e i : perm_ok n D = true -> i < n -> qw (apply D e) i = qw e i.
Proof.
  intros H Hi. pose proof (perm_bits n D i H Hi) as P. unfold qw, apply; cbn [bx bz].
  rewrite !N.lxor_spec, !N.land_spec.
  destruct (N.testbit (da D) i), (N.testbit (db D) i), (N.testbit (dc D) i), (N.testbit (dd D) i),
           (N.testbit (bx e) i), (N.testbit (bz e) i); cbn in *; try reflexivity; discriminate.
Qed.

Lemma wtn_apply n D e : perm_ok (N.of_nat n) D = true -> wtn n (apply D e) = wtn n e.
Proof.
  intros H. apply wtn_ext. intros i Hi. now apply (qw_apply (N.of_nat n)).
Qed.

Lemma bbounded_unitX n j : j < n -> bbounded n (unitX j) = true.
Proof. intros H. unfold bbounded, unitX; cbn [bx bz]. now rewrite bounded_unit, bounded_0. Qed.
Lemma bbounded_unitZ n j : j < n -> bbounded n (unitZ j) = true.
Proof. intros H. unfold bbounded, unitZ; cbn [bx bz]. now rewrite bounded_unit, bounded_0. Qed.

Theorem distance_deform c D E d :
  perm_ok (nn c) D = true -> inv_ok (nn c) E D = true -> perm_ok (nn c) E = true ->
  (forall r, In r (stabs c ++ lgx c ++ lgz c) -> bbounded (nn c) r = true) ->
  Distance c d -> Distance (deform D c) d.
Proof.
  intros HD HE HPE Hb [[w [Hwb [Hwl Hww]]] Hmin].
  assert (L : forall e, bbounded (nn c) e = true -> is_logical (deform D c) (apply D e) = is_logical c e).
  { intros e He. unfold is_logical, in_codespace, is_logical_error.
    rewrite syndrome_deform, logical_errors_deform; auto; intros r Hr; apply Hb; rewrite !in_app_iff in *; tauto. }
  split.
  - exists (apply D w). repeat split.
    + now apply apply_bounded.
    + now rewrite L.
    + unfold deform; cbn [nq]. now rewrite wtn_apply.
  - intros e He Hl. unfold deform in He; cbn [nq] in He. fold (nn c) in He.
    assert (He' : bbounded (nn c) (apply E e) = true) by now apply apply_bounded.
    (* e = D (E e)) on bounded operators: E is a left inverse of D, and D is injective *)
    assert (Hinj : apply D (apply E e) = e).
    { assert (H1 : apply E (apply D (apply E e)) = apply E e) by now apply (apply_inv (nn c)).
      (* apply E is injective on bounded operators because it preserves weight-zero-ness: use sp non-degeneracy *)
      apply badd_eq_zero. apply (bsf_nondegenerate (nn c)).
      - apply bbounded_add; [apply apply_bounded; assumption|assumption].
      - intros j Hj. rewrite <- (sp_apply_invariant (nn c) E) by
          (auto; try (apply bbounded_add; [apply apply_bounded; assumption|assumption]);
           now apply bbounded_unitX).
        rewrite apply_add, H1, badd_nilpotent. apply sp_0_l.
      - intros j Hj. rewrite <- (sp_apply_invariant (nn c) E) by
          (auto; try (apply bbounded_add; [apply apply_bounded; assumption|assumption]);
           now apply bbounded_unitZ).
        rewrite apply_add, H1, badd_nilpotent. apply sp_0_l. }
    rewrite <- Hinj in Hl. rewrite L in Hl by assumption.
    specialize (Hmin _ He' Hl). unfold deform; cbn [nq].
    rewrite <- Hinj, wtn_apply by assumption. exact Hmin.
Qed.

(** ** refutation: a bounded logical operator lighter than d shows that d is NOT the distance
    (used with witnesses found by an untrusted integer-programming search on instances that are out
    of reach of the exhaustive search) *)
Definition lighter_logical (c : code) (d : nat) (w : bsf) : bool :=
  bbounded (nn c) w && is_logical c w && Nat.ltb (wtn (nq c) w) d.
Theorem lighter_logical_refutes c d w : lighter_logical c d w = true -> ~ Distance c d.
Proof.
  unfold lighter_logical. rewrite !andb_true_iff. intros [[Hb Hl] Hw] [_ Hmin].
  apply Nat.ltb_lt in Hw. specialize (Hmin w Hb Hl). lia.
Qed.
