(** * RotatedPlanar2D: parametric model of [RotatedPlanar2DCode] (Layer P); for EVERY size
    L_x, L_y >= 2 all stabilizer generators pairwise commute.  Qubits sit at (odd, odd); vertices at
    (even, even) with (x + y) mod 4 = 2, faces with (x + y) mod 4 = 0; supports are the diagonal
    neighbours that are qubits. *)
From Coq Require Import ZArith List Bool Lia ZifyBool.
From PQ Require Import Toric2D Planar2D.
Import ListNotations.
Local Open Scope Z_scope.
Ltac Zify.zify_post_hook ::= Z.to_euclidean_division_equations.

Definition qubits (Lx Ly : Z) : list pt :=
  flat_map (fun x => map (fun y => (x, y)) (range2 1 (Z.to_nat Ly))) (range2 1 (Z.to_nat Lx)).
Definition stab_coords (Lx Ly : Z) : list pt :=
  flat_map (fun x => flat_map (fun y => if (x + y) mod 4 =? 2 then [(x, y)] else []) (range2 0 (Z.to_nat (Ly + 1)))) (range2 2 (Z.to_nat (Lx - 1)))
  ++ flat_map (fun x => flat_map (fun y => if (x + y) mod 4 =? 0 then [(x, y)] else []) (range2 2 (Z.to_nat (Ly - 1)))) (range2 0 (Z.to_nat (Lx + 1))).

Definition dnbrs (p : pt) : list pt := let '(x, y) := p in [(x - 1, y - 1); (x - 1, y + 1); (x + 1, y - 1); (x + 1, y + 1)].
Definition is_qubit_b (Lx Ly : Z) (q : pt) : bool :=
  let '(x, y) := q in (x mod 2 =? 1) && (1 <=? x) && (x <=? 2 * Lx - 1) && (y mod 2 =? 1) && (1 <=? y) && (y <=? 2 * Ly - 1).
Definition support (Lx Ly : Z) (loc : pt) : list pt := filter (is_qubit_b Lx Ly) (dnbrs loc).
Definition is_vertex (loc : pt) : bool := (fst loc + snd loc) mod 4 =? 2.

Lemma is_qubit_spec Lx Ly q : 1 <= Lx -> 1 <= Ly -> is_qubit_b Lx Ly q = true <-> In q (qubits Lx Ly).
Proof.
  intros HLx HLy. destruct q as [x y]. unfold qubits, is_qubit_b. rewrite in_flat_map. split.
  - intros H. exists x. split; [apply in_range2; exists ((x - 1) / 2); lia|].
    apply in_map_iff. exists y. split; [reflexivity|]. apply in_range2. exists ((y - 1) / 2). lia.
  - intros [x' [Hx Hy]]. rewrite in_map_iff in Hy. destruct Hy as [y' [E Hy]]. injection E as -> ->.
    rewrite in_range2 in Hx, Hy. destruct Hx as [k [Hk ->]], Hy as [j [Hj ->]]. lia.
Qed.
Lemma is_qubit_b_ext Lx Ly a b : pt_eqb a b = true -> is_qubit_b Lx Ly a = is_qubit_b Lx Ly b.
Proof. destruct a as [a1 a2], b as [b1 b2]. unfold pt_eqb; cbn [fst snd]. intros H. assert (a1 = b1 /\ a2 = b2) as [-> ->] by lia. reflexivity. Qed.

Lemma mem_dnbrs qx qy fx fy : mem (qx, qy) (dnbrs (fx, fy)) = adjp fx qx && adjp fy qy.
Proof.
  unfold mem, dnbrs, adjp, pt_eqb; cbn [existsb fst snd].
  rewrite (Z.eqb_sym qx (fx - 1)), (Z.eqb_sym qx (fx + 1)), (Z.eqb_sym qy (fy - 1)), (Z.eqb_sym qy (fy + 1)).
  destruct (fx - 1 =? qx) eqn:A, (fx + 1 =? qx) eqn:B, (fy - 1 =? qy) eqn:C, (fy + 1 =? qy) eqn:D; reflexivity.
Qed.

Lemma stab_range Lx Ly x y : In (x, y) (stab_coords Lx Ly) ->
  ((x + y) mod 4 = 2 /\ x mod 2 = 0 /\ y mod 2 = 0 /\ 2 <= x <= 2 * Lx - 2 /\ 0 <= y <= 2 * Ly) \/
  ((x + y) mod 4 = 0 /\ x mod 2 = 0 /\ y mod 2 = 0 /\ 0 <= x <= 2 * Lx /\ 2 <= y <= 2 * Ly - 2).
Proof.
  intros H. unfold stab_coords in H. rewrite in_app_iff, !in_flat_map in H.
  destruct H as [[x' [Hx Hy]]|[x' [Hx Hy]]]; rewrite in_flat_map in Hy; destruct Hy as [y' [Hy Hc]];
    rewrite in_range2 in Hx, Hy; destruct Hx as [k [Hk ->]], Hy as [j [Hj ->]].
  - left. destruct ((2 + 2 * k + (0 + 2 * j)) mod 4 =? 2) eqn:E; [|destruct Hc]. destruct Hc as [Hc|[]]. apply pair_equal_spec in Hc. destruct Hc as [<- <-]. lia.
  - right. destruct ((0 + 2 * k + (2 + 2 * j)) mod 4 =? 0) eqn:E; [|destruct Hc]. destruct Hc as [Hc|[]]. apply pair_equal_spec in Hc. destruct Hc as [<- <-]. lia.
Qed.

Theorem rotated_cross_overlap_even Lx Ly vx vy fx fy :
  2 <= Lx -> 2 <= Ly -> In (vx, vy) (stab_coords Lx Ly) -> In (fx, fy) (stab_coords Lx Ly) ->
  (vx + vy) mod 4 <> (fx + fy) mod 4 ->
  overlap_par (support Lx Ly (vx, vy)) (support Lx Ly (fx, fy)) = false.
Proof.
  intros HLx HLy Hv Hf Hpar.
  pose proof (stab_range _ _ _ _ Hv) as RV. pose proof (stab_range _ _ _ _ Hf) as RF. clear Hv Hf.
  unfold support. rewrite overlap_filter. remember (dnbrs (fx, fy)) as F eqn:EF. cbn [dnbrs map fold_left]. subst F.
  rewrite !(mem_filter (is_qubit_b Lx Ly)) by apply is_qubit_b_ext. rewrite !mem_dnbrs.
  (* a common diagonal neighbour of the two locations is a qubit of the lattice *)
  assert (Q1 : is_qubit_b Lx Ly (vx - 1, vy - 1) && (is_qubit_b Lx Ly (vx - 1, vy - 1) && (adjp fx (vx - 1) && adjp fy (vy - 1))) = adjp fx (vx - 1) && adjp fy (vy - 1)).
  { unfold is_qubit_b, adjp. lia. }
  assert (Q2 : is_qubit_b Lx Ly (vx - 1, vy + 1) && (is_qubit_b Lx Ly (vx - 1, vy + 1) && (adjp fx (vx - 1) && adjp fy (vy + 1))) = adjp fx (vx - 1) && adjp fy (vy + 1)).
  { unfold is_qubit_b, adjp. lia. }
  assert (Q3 : is_qubit_b Lx Ly (vx + 1, vy - 1) && (is_qubit_b Lx Ly (vx + 1, vy - 1) && (adjp fx (vx + 1) && adjp fy (vy - 1))) = adjp fx (vx + 1) && adjp fy (vy - 1)).
  { unfold is_qubit_b, adjp. lia. }
  assert (Q4 : is_qubit_b Lx Ly (vx + 1, vy + 1) && (is_qubit_b Lx Ly (vx + 1, vy + 1) && (adjp fx (vx + 1) && adjp fy (vy + 1))) = adjp fx (vx + 1) && adjp fy (vy + 1)).
  { unfold is_qubit_b, adjp. lia. }
  rewrite Q1, Q2, Q3, Q4. clear Q1 Q2 Q3 Q4.
  (* sum over the four corners factorises; the two factors cannot both be odd *)
  set (a1 := adjp fx (vx - 1)). set (a2 := adjp fx (vx + 1)). set (b1 := adjp fy (vy - 1)). set (b2 := adjp fy (vy + 1)).
  assert (Hfac : fold_left xorb [a1 && b2; a2 && b1; a2 && b2] (xorb false (a1 && b1)) = xorb a1 a2 && xorb b1 b2)
    by (destruct a1, a2, b1, b2; reflexivity).
  cbn [fold_left] in Hfac. 
  replace (if a1 && b1 then true else false) with (xorb false (a1 && b1)) by (destruct (a1 && b1); reflexivity).
  rewrite Hfac. unfold a1, a2, b1, b2, adjp. lia.
Qed.

Theorem rotated_planar2d_stabilizers_commute Lx Ly s s' :
  2 <= Lx -> 2 <= Ly -> In s (stab_coords Lx Ly) -> In s' (stab_coords Lx Ly) ->
  ops_commute (is_vertex s) (support Lx Ly s) (is_vertex s') (support Lx Ly s') = true.
Proof.
  intros HLx HLy Hs Hs'. unfold ops_commute. destruct (Bool.eqb (is_vertex s) (is_vertex s')) eqn:E; [reflexivity|].
  apply negb_true_iff. destruct s as [vx vy], s' as [fx fy]. unfold is_vertex in E; cbn [fst snd] in E.
  apply rotated_cross_overlap_even; try assumption.
  pose proof (stab_range _ _ _ _ Hs) as RV. pose proof (stab_range _ _ _ _ Hs') as RF.
  destruct ((vx + vy) mod 4 =? 2) eqn:A, ((fx + fy) mod 4 =? 2) eqn:B; cbn in E; try discriminate; lia.
Qed.

Definition table_matches (Lx Ly : Z) (qs ss : list pt) (supports : list (list pt)) : bool :=
  ptl_eqb (qubits Lx Ly) qs && ptl_eqb (stab_coords Lx Ly) ss && ptll_eqb (map (support Lx Ly) (stab_coords Lx Ly)) supports.
