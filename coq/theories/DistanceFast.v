(** * DistanceFast: the single-type exhaustive search of Distance.v with an incrementally maintained
    syndrome.  Instead of recomputing [is_logical c (B x 0)] at every leaf, the search carries
    the syndrome and the logical effect of the operator built so far as bitsets and xors in one
    precomputed column per added qubit.  Proved equivalent to the verdict of [is_logical]. *)
From Coq Require Import Arith NArith PArith Bool List Lia.
From PQ Require Import Bits Pauli Code Operator Deform Distance.
Import ListNotations.
Local Open Scope N_scope.

(** a list of booleans as a bitset (entry i = bit i) *)
Fixpoint enc (l : list bool) : N :=
  match l with [] => 0 | b :: r => N.lor (if b then 1 else 0) (N.double (enc r)) end.

Lemma enc_xorl a b : length a = length b -> enc (xorl a b) = N.lxor (enc a) (enc b).
Proof.
  unfold xorl. revert b; induction a as [|x a IH]; intros [|y b] H; cbn in H; try discriminate; [reflexivity|].
  cbn [combine map fst snd enc]. rewrite IH by lia.
  apply N.bits_inj; intro i. rewrite N.lxor_spec, !N.lor_spec.
  destruct (N.eq_dec i 0) as [->|Hi].
  - rewrite !N.double_spec, !N.testbit_even_0. destruct x, y; reflexivity.
  - replace i with (N.succ (N.pred i)) by lia. rewrite !N.double_spec, !N.testbit_even_succ by lia.
    rewrite N.lxor_spec.
    assert (T : forall b0 : bool, N.testbit (if b0 then 1 else 0) (N.succ (N.pred i)) = false)
      by (intros [|]; [apply N.bits_above_log2; cbn; lia|apply N.bits_0]).
    rewrite !T. reflexivity.
Qed.

Lemma enc_zero l : enc l = 0 <-> forallb negb l = true.
Proof.
  induction l as [|b l IH]; cbn [enc forallb]; [tauto|]. split.
  - intros H. apply N.lor_eq_0_iff in H. destruct H as [H1 H2]. destruct b; [discriminate|]. cbn.
    apply IH. destruct (enc l); [reflexivity|discriminate].
  - intros H. apply andb_true_iff in H. destruct H as [H1 H2]. destruct b; [discriminate|]. cbn.
    apply IH in H2. now rewrite H2.
Qed.

Section Fast.
  Variable c : code.
  Variable mk : N -> bsf.                       (* x |-> B x 0   or   z |-> B 0 z *)
  Hypothesis mk_lin : forall a b, mk (N.lxor a b) = badd (mk a) (mk b).
  Hypothesis mk_0 : mk 0 = bzero.

  Definition syn_of (x : N) : N := enc (syndrome c (mk x)).
  Definition log_of (x : N) : N := enc (logical_errors c (mk x)).
  (** columns: syndrome / logical effect of the single-qubit operator on qubit i *)
  Definition cols (n : nat) : list (N * N) := map (fun i => (syn_of (unit (N.of_nat i)), log_of (unit (N.of_nat i)))) (seq 0 n).

  Lemma syn_of_lxor a b : syn_of (N.lxor a b) = N.lxor (syn_of a) (syn_of b).
  Proof. unfold syn_of. rewrite mk_lin, syndrome_linear. apply enc_xorl. unfold syndrome. now rewrite !map_length. Qed.
  Lemma log_of_lxor a b : log_of (N.lxor a b) = N.lxor (log_of a) (log_of b).
  Proof. unfold log_of. rewrite mk_lin, logical_errors_linear. apply enc_xorl. now rewrite !logical_errors_length. Qed.

  Lemma is_logical_enc x : is_logical c (mk x) = (syn_of x =? 0) && negb (log_of x =? 0).
  Proof.
    unfold is_logical, in_codespace, is_logical_error, syn_of, log_of.
    f_equal.
    - destruct (N.eqb_spec (enc (syndrome c (mk x))) 0) as [E|E].
      + now apply enc_zero.
      + destruct (forallb negb (syndrome c (mk x))) eqn:F; [|reflexivity]. apply enc_zero in F. contradiction.
    - rewrite <- (negb_involutive (existsb (fun b => b) (logical_errors c (mk x)))). f_equal.
      set (l := logical_errors c (mk x)).
      assert (H : negb (existsb (fun b => b) l) = forallb negb l).
      { clear. induction l as [|b l IH]; [reflexivity|]. cbn. rewrite negb_orb, IH. reflexivity. }
      rewrite H. destruct (N.eqb_spec (enc l) 0) as [E|E].
      + now apply enc_zero.
      + destruct (forallb negb l) eqn:F; [|reflexivity]. apply enc_zero in F. contradiction.
  Qed.

  (** the search: [cs] are the columns of qubits k-1, k-2, ..., 0 (reversed), [s], [l] the running bitsets *)
  Fixpoint fsearch (cs : list (N * N)) (b : nat) (s l : N) : bool :=
    match cs with
    | [] => negb ((s =? 0) && negb (l =? 0))
    | (cs_, cl_) :: r =>
        fsearch r b s l && match b with O => true | S b' => fsearch r b' (N.lxor s cs_) (N.lxor l cl_) end
    end.

  Lemma rev_cols_S k : rev (cols (S k)) = (syn_of (unit (N.of_nat k)), log_of (unit (N.of_nat k))) :: rev (cols k).
  Proof. unfold cols. rewrite seq_S, map_app, rev_app_distr. reflexivity. Qed.

  (** the fast search computes exactly the slow one *)
  Lemma fsearch_eq k : forall b acc,
    fsearch (rev (cols k)) b (syn_of acc) (log_of acc) = search1 (fun x => is_logical c (mk x)) k b acc.
  Proof.
    induction k as [|k IH]; intros b acc.
    - cbn [cols seq map rev fsearch search1]. now rewrite is_logical_enc.
    - rewrite rev_cols_S. cbn [fsearch search1]. rewrite IH. f_equal.
      destruct b as [|b']; [reflexivity|]. rewrite <- syn_of_lxor, <- log_of_lxor. apply IH.
  Qed.

  Theorem fsearch_sound k b : fsearch (rev (cols k)) b 0 0 = true ->
    forall x, bounded (N.of_nat k) x = true -> (nw k x <= b)%nat -> is_logical c (mk x) = false.
  Proof.
    intros H x Hx Hw.
    assert (E : fsearch (rev (cols k)) b (syn_of 0) (log_of 0) = true).
    { unfold syn_of, log_of. rewrite mk_0.
      assert (Z1 : enc (syndrome c bzero) = 0).
      { apply enc_zero. unfold syndrome. induction (stabs c) as [|s l IHl]; [reflexivity|]. cbn. now rewrite sp_0_r. }
      assert (Z2 : enc (logical_errors c bzero) = 0).
      { apply enc_zero. unfold logical_errors. rewrite forallb_app. apply andb_true_iff. split.
        - induction (lgz c) as [|s l IHl]; [reflexivity|]. cbn. now rewrite sp_0_r.
        - induction (lgx c) as [|s l IHl]; [reflexivity|]. cbn. now rewrite sp_0_r. }
      now rewrite Z1, Z2. }
    rewrite fsearch_eq in E. pose proof (search1_sound _ k b 0 E x Hx Hw) as R. now rewrite N.lxor_0_l in R.
  Qed.
End Fast.

Definition mkx (x : N) : bsf := B x 0.
Definition mkz (z : N) : bsf := B 0 z.
Lemma mkx_lin a b : mkx (N.lxor a b) = badd (mkx a) (mkx b).
Proof. unfold mkx, badd; cbn [bx bz]. now rewrite ?N.lxor_0_r. Qed.
Lemma mkz_lin a b : mkz (N.lxor a b) = badd (mkz a) (mkz b).
Proof. unfold mkz, badd; cbn [bx bz]. now rewrite ?N.lxor_0_r. Qed.

(** CSS distance checker with the fast search *)
Definition distance_ok_css_fast (c : code) (d : nat) (w : bsf) : bool :=
  css_code c && bbounded (nn c) w && is_logical c w && Nat.eqb (wtn (nq c) w) d &&
  match d with O => false
  | S b => fsearch (rev (cols c mkx (nq c))) b 0 0 && fsearch (rev (cols c mkz (nq c))) b 0 0
  end.

Theorem distance_ok_css_fast_sound c d w : distance_ok_css_fast c d w = true -> Distance c d.
Proof.
  unfold distance_ok_css_fast. rewrite !andb_true_iff. intros [[[[Hc Hb] Hl] Hw] Hs]. apply Nat.eqb_eq in Hw.
  destruct d as [|b]; [discriminate|]. apply andb_true_iff in Hs. destruct Hs as [Sx Sz].
  split; [exists w; auto|].
  intros e He Hle. destruct (Nat.le_gt_cases (S b) (wtn (nq c) e)) as [|Hlt]; [assumption|exfalso].
  unfold bbounded in He. apply andb_true_iff in He. destruct He as [Hex Hez].
  destruct (wtn_x_le (nq c) e) as [Wx Wz].
  destruct (css_reduction c e Hc Hle) as [Hx|Hz].
  - pose proof (fsearch_sound c mkx mkx_lin eq_refl (nq c) b Sx (bx e) Hex) as Hbad.
    unfold mkx in Hbad. rewrite Hbad in Hx; [discriminate|]. rewrite <- wtn_nw_x. lia.
  - pose proof (fsearch_sound c mkz mkz_lin eq_refl (nq c) b Sz (bz e) Hez) as Hbad.
    unfold mkz in Hbad. rewrite Hbad in Hz; [discriminate|]. rewrite <- wtn_nw_z. lia.
Qed.
