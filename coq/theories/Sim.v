(** * Sim: one Monte-Carlo trial and the bookkeeping of [DirectSimulation] (C11). *)
From Coq Require Import Arith NArith List Bool Lia.
From PQ Require Import Bits Pauli Code.
Import ListNotations.

(** ** one trial: error -> syndrome -> correction -> residual -> verdict *)
Record shot := Shot { s_error : bsf; s_syndrome : list bool; s_correction : bsf; s_effective : list bool;
                      s_codespace : bool; s_success : bool }.

Definition run_once (c : code) (decode : list bool -> bsf) (e : bsf) : shot :=
  let syn := syndrome c e in
  let corr := decode syn in
  let total := badd e corr in
  let effv := logical_errors c total in
  let cs := in_codespace c total in
  Shot e syn corr effv cs (forallb negb effv && cs).

Lemma forallb_negb_existsb l : forallb negb l = negb (existsb (fun b => b) l).
Proof. induction l as [|b l IH]; [reflexivity|]. cbn. rewrite IH. now destruct b. Qed.

(** the recorded fields satisfy the relations of the property, for every decoder and every error *)
Theorem run_once_consistent c decode e :
  let s := run_once c decode e in
  s_syndrome s = syndrome c (s_error s) /\
  s_effective s = logical_errors c (badd (s_error s) (s_correction s)) /\
  (s_codespace s = true <-> forallb negb (syndrome c (badd (s_error s) (s_correction s))) = true) /\
  (s_success s = true <-> s_codespace s = true /\ forallb negb (s_effective s) = true) /\
  s_success s = is_success c (badd (s_error s) (s_correction s)).
Proof.
  cbn. repeat split; try reflexivity. all: try (let H := fresh in intros H; exact H).
  - match goal with H : _ && _ = true |- _ => apply andb_true_iff in H; tauto end.
  - match goal with H : _ && _ = true |- _ => apply andb_true_iff in H; tauto end.
  - intros [H1 H2]. now rewrite H1, H2.
  - unfold is_success, is_logical_error. rewrite forallb_negb_existsb. apply andb_comm.
Qed.

(** ** stream discipline: a trial on n qubits consumes exactly n variates, in qubit order;
    a run is a function of the variate stream (hence reproducible from the seed) *)
Section Stream.
  Variables (A : Type) (n : nat) (trial : list A -> bool).   (* verdict of one trial from its n variates *)
  Fixpoint run_stream (k : nat) (us : list A) : list bool * list A :=
    match k with
    | O => ([], us)
    | S k' => let r := run_stream k' (skipn n us) in (trial (firstn n us) :: fst r, snd r)
    end.
  Theorem run_stream_consumes k us : k * n <= length us -> length (snd (run_stream k us)) = length us - k * n.
  Proof.
    revert us; induction k as [|k IH]; intros us H; cbn [run_stream snd]; [lia|].
    rewrite IH; rewrite skipn_length; lia.
  Qed.
  Theorem run_stream_length k us : length (fst (run_stream k us)) = k.
  Proof. revert us; induction k as [|k IH]; intros us; cbn; [reflexivity|]. now rewrite IH. Qed.
  (** run(k1) then run(k2) on the rest of the stream = run(k1+k2) *)
  Theorem run_stream_split k1 k2 us :
    fst (run_stream (k1 + k2) us) = fst (run_stream k1 us) ++ fst (run_stream k2 (snd (run_stream k1 us))) /\
    snd (run_stream (k1 + k2) us) = snd (run_stream k2 (snd (run_stream k1 us))).
  Proof.
    revert us; induction k1 as [|k1 IH]; intros us; cbn [Nat.add run_stream fst snd app]; [auto|].
    destruct (IH (skipn n us)) as [H1 H2]. rewrite H1, H2. auto.
  Qed.
End Stream.

(** ** bookkeeping: result lists, n_runs, estimator *)
Record simstate := SS { n_runs : nat; succs : list bool; css : list bool; effs : list (list bool) }.
Definition sim_init : simstate := SS 0 [] [] [].
Definition record (st : simstate) (s : shot) : simstate :=
  SS (S (n_runs st)) (succs st ++ [s_success s]) (css st ++ [s_codespace s]) (effs st ++ [s_effective s]).
Definition sim_run (st : simstate) (shots : list shot) : simstate := fold_left record shots st.

Definition WellFormed (st : simstate) : Prop :=
  length (succs st) = n_runs st /\ length (css st) = n_runs st /\ length (effs st) = n_runs st.

Lemma record_wf st s : WellFormed st -> WellFormed (record st s).
Proof. intros (A & B & C). unfold WellFormed, record; cbn. rewrite !app_length; cbn. lia. Qed.

(** for any interleaving of run(k_1) ... run(k_m): all result lists have length n_runs = sum k_i *)
Theorem sim_runs_wellformed (batches : list (list shot)) :
  let st := fold_left sim_run batches sim_init in
  WellFormed st /\ n_runs st = length (concat batches).
Proof.
  assert (G : forall bs st, WellFormed st ->
            WellFormed (fold_left sim_run bs st) /\ n_runs (fold_left sim_run bs st) = n_runs st + length (concat bs)).
  { induction bs as [|b bs IH]; intros st W; cbn [fold_left concat]; [split; [assumption|cbn; lia]|].
    assert (Wb : forall b st, WellFormed st -> WellFormed (sim_run st b) /\ n_runs (sim_run st b) = n_runs st + length b).
    { clear. unfold sim_run. induction b as [|s b IHb]; intros st W; cbn [fold_left length]; [split; [assumption|lia]|].
      destruct (IHb (record st s) (record_wf st s W)) as [W1 N1]. split; [assumption|]. rewrite N1. cbn [record n_runs]. lia. }
    destruct (Wb b st W) as [W1 N1]. destruct (IH _ W1) as [W2 N2]. split; [assumption|]. rewrite N2, N1, app_length. lia. }
  cbn zeta. destruct (G batches sim_init) as [W N]; [unfold WellFormed; cbn; auto|]. split; [assumption|]. rewrite N. reflexivity.
Qed.

(** splitting the same shots into different run(k) calls gives the same state *)
Theorem sim_run_concat batches : fold_left sim_run batches sim_init = sim_run sim_init (concat batches).
Proof.
  assert (G : forall bs st, fold_left sim_run bs st = sim_run st (concat bs)).
  { induction bs as [|b bs IH]; intros st; cbn [fold_left concat]; [reflexivity|]. rewrite IH. unfold sim_run. now rewrite fold_left_app. }
  apply G.
Qed.

Definition n_fail (st : simstate) : nat := length (filter negb (succs st)).
(** n_fail + n_success = n_runs; the estimator n_fail / n_runs is a frequency *)
Theorem n_fail_plus_success st : WellFormed st -> n_fail st + length (filter (fun b => b) (succs st)) = n_runs st.
Proof.
  intros (A & _ & _). rewrite <- A. unfold n_fail. clear A. induction (succs st) as [|b l IH]; [reflexivity|].
  cbn [filter length negb]. destruct b; cbn [negb length]; lia.
Qed.

(** ** checker for recorded trials of the implementation *)
Definition trial_ok (c : code) (e corr : bsf) (syn eff : list bool) (cs succ : bool) : bool :=
  let s := run_once c (fun _ => corr) e in
  lbeq (s_syndrome s) syn && lbeq (s_effective s) eff && Bool.eqb (s_codespace s) cs && Bool.eqb (s_success s) succ.

(** bookkeeping correspondence: the verdict lists split into run(k) batches, against what the
    implementation reports after the last run *)
Definition mkshot (succ cs : bool) (eff : list bool) : shot := Shot bzero [] bzero eff cs succ.
Definition book_ok (batches : list (list shot)) (nruns nfail nsucc : nat) : bool :=
  let st := fold_left sim_run batches sim_init in
  Nat.eqb (n_runs st) nruns && Nat.eqb (n_fail st) nfail && Nat.eqb (length (filter (fun b => b) (succs st))) nsucc
  && Nat.eqb (length (succs st)) nruns && Nat.eqb (length (css st)) nruns && Nat.eqb (length (effs st)) nruns.
