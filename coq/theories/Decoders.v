(** * Decoders: the glue code of the library decoders around third-party solvers (C05, C06, C09).

    The solvers (PyMatching, the union-find clustering, ldpc's BP+OSD) are section variables with an
    explicit contract; the theorems are about what panqec's own wrappers do with their answers:
    which part of the syndrome goes to which solver, which half of the correction vector the answer
    is written to, and the [z|x] column order of the non-CSS BP-OSD mode. *)
From Coq Require Import Arith NArith List Bool Lia.
From PQ Require Import Bits Pauli Code Operator Distance.
Import ListNotations.
Local Open Scope N_scope.

(** boolean-mask indexing [a[mask]] *)
Fixpoint pick {A} (mask : list bool) (l : list A) : list A :=
  match mask, l with
  | m :: mask', x :: l' => if m then x :: pick mask' l' else pick mask' l'
  | _, _ => []
  end.

Definition xm (rows : list bsf) : list bool := map (fun r => negb (bx r =? 0)) rows.   (* x_indices *)
Definition zm (rows : list bsf) : list bool := map (fun r => negb (bz r =? 0)) rows.   (* z_indices *)
Definition Hx (rows : list bsf) : list N := map bx (pick (xm rows) rows).
Definition Hz (rows : list bsf) : list N := map bz (pick (zm rows) rows).
Definition mulH (H : list N) (v : N) : list bool := map (fun h => dotN h v) H.
(** every row is pure X or pure Z (CSS) *)
Definition css_rows (rows : list bsf) : bool := forallb (fun r => (bx r =? 0) || (bz r =? 0)) rows.

(** *** CSS glue: if the X-correction reproduces the Z-part of the syndrome through Hz and the
    Z-correction reproduces the X-part through Hx, the assembled correction (cx | cz) has exactly the
    given syndrome *)
Lemma css_glue_rows rows cx cz : css_rows rows = true -> forall S, length S = length rows ->
  mulH (Hx rows) cz = pick (xm rows) S -> mulH (Hz rows) cx = pick (zm rows) S ->
  (forall r s, In (r, s) (combine rows S) -> bx r = 0 -> bz r = 0 -> s = false) ->
  map (fun r => sp r (B cx cz)) rows = S.
Proof.
  unfold Hx, Hz, mulH, xm, zm. induction rows as [|r rows IH]; intros Hc S Hl H1 H2 H0.
  - destruct S; [reflexivity|discriminate].
  - destruct S as [|s S]; [discriminate|]. cbn [css_rows forallb] in Hc. apply andb_true_iff in Hc. destruct Hc as [Hr Hc].
    cbn [map pick] in *. unfold sp; cbn [bx bz].
    assert (Htail : map (fun r0 => sp r0 (B cx cz)) rows = S).
    { apply IH; [assumption|cbn in Hl; lia| | |].
      - destruct (bx r =? 0); cbn [negb] in H1; [exact H1|]. cbn [map] in H1. now injection H1.
      - destruct (bz r =? 0); cbn [negb] in H2; [exact H2|]. cbn [map] in H2. now injection H2.
      - intros r0 s0 Hin. apply H0. now right. }
    f_equal; [|exact Htail].
    destruct (N.eqb_spec (bx r) 0) as [Ex|Ex], (N.eqb_spec (bz r) 0) as [Ez|Ez]; cbn [negb map] in H1, H2.
    + rewrite Ex, Ez. cbn. symmetry. apply (H0 r s); [now left|assumption|assumption].
    + injection H2 as E2 _. rewrite Ex, dotN_0_l, xorb_false_l. exact E2.
    + injection H1 as E1 _. rewrite Ez, dotN_0_l, xorb_false_r. exact E1.
    + cbn in Hr. discriminate.
Qed.

Lemma xorl_self_zero l : forallb negb (xorl l l) = true.
Proof. unfold xorl. induction l as [|b l IH]; [reflexivity|]. cbn. rewrite xorb_nilpotent. exact IH. Qed.

Section Glue.
  Variable c : code.
  Hypothesis Hcss : css_rows (stabs c) = true.
  Hypothesis Hnonempty : forallb (fun r => negb (beqb r bzero)) (stabs c) = true.
  (** the two sector solvers (matching / union-find / BP-OSD in CSS mode) *)
  Variables solve_x solve_z : list bool -> N.

  (** [MatchingDecoder.decode] / [UnionFindDecoder.decode] / CSS mode of [BeliefPropagationOSDDecoder.decode] *)
  Definition css_decode (syn : list bool) : bsf :=
    B (solve_x (pick (zm (stabs c)) syn)) (solve_z (pick (xm (stabs c)) syn)).

  (** solver contract: the answer reproduces the sector syndrome it was given *)
  Definition complete_x : Prop := forall e, mulH (Hz (stabs c)) (solve_x (pick (zm (stabs c)) (syndrome c e))) = pick (zm (stabs c)) (syndrome c e).
  Definition complete_z : Prop := forall e, mulH (Hx (stabs c)) (solve_z (pick (xm (stabs c)) (syndrome c e))) = pick (xm (stabs c)) (syndrome c e).

  (** *** C05 (glue part): with complete sector solvers the returned correction has exactly the
      measured syndrome, for the syndrome of ANY Pauli error *)
  Theorem css_decode_reproduces_syndrome e : complete_x -> complete_z ->
    syndrome c (css_decode (syndrome c e)) = syndrome c e.
  Proof.
    intros Cx Cz. unfold css_decode, syndrome at 1.
    apply css_glue_rows; [assumption|unfold syndrome; now rewrite map_length|apply Cz|apply Cx|].
    intros r s Hin Ex Ez. exfalso. apply in_combine_l in Hin. rewrite forallb_forall in Hnonempty.
    specialize (Hnonempty r Hin). destruct r as [x z]; cbn in Ex, Ez; subst. discriminate.
  Qed.

  (** hence error + correction is back in the code space *)
  Corollary css_decode_returns_to_codespace e : complete_x -> complete_z ->
    in_codespace c (badd e (css_decode (syndrome c e))) = true.
  Proof.
    intros Cx Cz. unfold in_codespace. rewrite syndrome_linear, css_decode_reproduces_syndrome by assumption.
    apply xorl_self_zero.
  Qed.

  (** the trivial syndrome yields the trivial correction when the solvers map 0 to 0 *)
  Theorem css_decode_trivial : (forall l, forallb negb l = true -> solve_x l = 0) -> (forall l, forallb negb l = true -> solve_z l = 0) ->
    forall syn, forallb negb syn = true -> css_decode syn = bzero.
  Proof.
    intros Zx Zz syn H. unfold css_decode, bzero.
    assert (P : forall mask, forallb negb (pick mask syn) = true).
    { clear - H. intros mask. revert syn H. induction mask as [|m mask IH]; intros syn H; [reflexivity|].
      destruct syn as [|s syn]; [reflexivity|]. cbn [forallb] in H. apply andb_true_iff in H. destruct H as [H1 H2].
      cbn [pick]. destruct m; [cbn [forallb]; rewrite H1; cbn [andb]; now apply IH|now apply IH]. }
    now rewrite Zx, Zz.
  Qed.

  (** the decoder is a pure function of the syndrome when the solvers are (C06, model side):
      whatever was decoded before, the answer for syn is css_decode syn *)
  Definition dstate := list (list bool).    (* history of syndromes seen by the object *)
  Definition decode_step (st : dstate) (syn : list bool) : dstate * bsf := (syn :: st, css_decode syn).
  Theorem decode_history_independent hist syn :
    snd (decode_step (fold_left (fun st s => fst (decode_step st s)) hist []) syn) = snd (decode_step [] syn).
  Proof. reflexivity. Qed.
End Glue.

(** *** non-CSS mode of BP-OSD: the solver works on the full matrix with columns ordered [z | x]:
    it returns v = (v1 | v2) with  H[:, :n] . v1 + H[:, n:] . v2 = s;  the wrapper returns (v2 | v1) *)
Definition plain_dot (r : bsf) (v1 v2 : N) : bool := xorb (dotN (bx r) v1) (dotN (bz r) v2).
Theorem bposd_noncss_swap r v1 v2 : sp r (B v2 v1) = plain_dot r v1 v2.
Proof. reflexivity. Qed.
Theorem bposd_noncss_reproduces_syndrome (c : code) (solve : list bool -> N * N) :
  (forall s, map (fun r => plain_dot r (fst (solve s)) (snd (solve s))) (stabs c) = s) ->
  forall e, syndrome c (B (snd (solve (syndrome c e))) (fst (solve (syndrome c e)))) = syndrome c e.
Proof. intros H e. unfold syndrome at 1. apply (H (syndrome c e)). Qed.

(** *** a buffer that the solver refreshes only on some calls (ldpc's [osdw_decoding] when BP converges)
    is NOT history independent: the decoder of the code before the fix *)
Definition stale_step (fresh : list bool -> option N) (st : N) (syn : list bool) : N * N :=
  match fresh syn with Some v => (v, v) | None => (st, st) end.
Example stale_buffer_refuted :
  let fresh := fun s => match s with [true] => Some 1 | _ => None end in
  snd (stale_step fresh (fst (stale_step fresh 0 [true])) [false]) <> snd (stale_step fresh 0 [false]).
Proof. cbv. discriminate. Qed.

(** ** C09: a minimum-weight sector solver corrects every error of weight <= (d-1)/2 *)
Section MinWeight.
  Variable c : code.
  Variable d : nat.
  Hypothesis Hcss : css_rows (stabs c) = true.
  Hypothesis Hdist : Distance c d.
  Hypothesis Hb : forall r, In r (stabs c ++ lgx c ++ lgz c) -> bbounded (nn c) r = true.

  Lemma nw_lxor_le k a b : (nw k (N.lxor a b) <= nw k a + nw k b)%nat.
  Proof.
    unfold nw. induction (upto k) as [|i l IH]; [cbn; lia|]. cbn [filter]. rewrite N.lxor_spec.
    destruct (N.testbit a i), (N.testbit b i); cbn [xorb length]; lia.
  Qed.

  (** a pure-X (resp. pure-Z) operator in the code space of weight < d has no logical effect *)
  Lemma light_pure_no_logical_error x : bounded (nn c) x = true -> in_codespace c (B x 0) = true ->
    (nw (nq c) x < d)%nat -> is_logical_error c (B x 0) = false.
  Proof.
    intros Hbx Hcs Hw. destruct (is_logical_error c (B x 0)) eqn:E; [|reflexivity]. exfalso.
    destruct Hdist as [_ Hmin].
    assert (Hl : is_logical c (B x 0) = true) by (unfold is_logical; now rewrite Hcs, E).
    assert (Hbb : bbounded (nn c) (B x 0) = true) by (unfold bbounded; cbn; now rewrite Hbx, bounded_0).
    specialize (Hmin _ Hbb Hl). rewrite wtn_nw_x in Hmin. lia.
  Qed.
  Lemma light_pure_z_no_logical_error z : bounded (nn c) z = true -> in_codespace c (B 0 z) = true ->
    (nw (nq c) z < d)%nat -> is_logical_error c (B 0 z) = false.
  Proof.
    intros Hbz Hcs Hw. destruct (is_logical_error c (B 0 z)) eqn:E; [|reflexivity]. exfalso.
    destruct Hdist as [_ Hmin].
    assert (Hl : is_logical c (B 0 z) = true) by (unfold is_logical; now rewrite Hcs, E).
    assert (Hbb : bbounded (nn c) (B 0 z) = true) by (unfold bbounded; cbn; now rewrite Hbz, bounded_0).
    specialize (Hmin _ Hbb Hl). rewrite wtn_nw_z in Hmin. lia.
  Qed.

  (** *** any correction (cx | cz) with the syndrome of e, whose sectors are no heavier than the
      sectors of e (a minimum-weight solver with uniform weights), corrects e when 2 wt(e) < d *)
  Theorem min_weight_correction_succeeds e cx cz :
    bbounded (nn c) e = true -> bounded (nn c) cx = true -> bounded (nn c) cz = true ->
    syndrome c (B cx cz) = syndrome c e ->
    (nw (nq c) cx <= nw (nq c) (bx e))%nat -> (nw (nq c) cz <= nw (nq c) (bz e))%nat ->
    (2 * wtn (nq c) e < d)%nat ->
    is_success c (badd e (B cx cz)) = true.
  Proof.
    intros He Hcx Hcz Hsyn Hwx Hwz Hlight.
    unfold bbounded in He. apply andb_true_iff in He. destruct He as [Hex Hez].
    set (rx := N.lxor (bx e) cx). set (rz := N.lxor (bz e) cz).
    assert (Hr : badd e (B cx cz) = B rx rz) by reflexivity.
    assert (Hcs : in_codespace c (B rx rz) = true).
    { rewrite <- Hr. unfold in_codespace. rewrite syndrome_linear, Hsyn. apply xorl_self_zero. }
    assert (Hcss' : css_code c = true) by exact Hcss.
    destruct (css_parts_in_codespace c (B rx rz) Hcss' Hcs) as [Cx Cz]. cbn [bx bz] in Cx, Cz.
    destruct (wtn_x_le (nq c) e) as [Wx Wz]. rewrite wtn_nw_x in Wx. rewrite wtn_nw_z in Wz.
    assert (Lx : is_logical_error c (B rx 0) = false).
    { apply light_pure_no_logical_error; [now apply bounded_lxor|assumption|].
      pose proof (nw_lxor_le (nq c) (bx e) cx). unfold rx. lia. }
    assert (Lz : is_logical_error c (B 0 rz) = false).
    { apply light_pure_z_no_logical_error; [now apply bounded_lxor|assumption|].
      pose proof (nw_lxor_le (nq c) (bz e) cz). unfold rz. lia. }
    rewrite Hr. unfold is_success. rewrite Hcs. cbn [andb]. apply negb_true_iff.
    unfold is_logical_error in *. rewrite (split_xz (B rx rz)). cbn [bx bz]. rewrite logical_errors_linear.
    destruct (existsb (fun b => b) (xorl (logical_errors c (B rx 0)) (logical_errors c (B 0 rz)))) eqn:E; [|reflexivity].
    apply existsb_xorl in E; [|now rewrite !logical_errors_length]. destruct E; congruence.
  Qed.
End MinWeight.

(** ** checkers on recorded decodes *)
Definition decode_ok (c : code) (syn : list bool) (corr : bsf) : bool :=
  lbeq (syndrome c corr) syn && bbounded (nn c) corr.

(** ** C09: verified optimality checker for one sector.
    [H] sector parity-check rows, [odds] per-qubit odds m_i/(1-m_i) of the flip marginal (the matching
    weight is -ln of it, so minimum total weight = maximum product of odds), [s] sector syndrome,
    [c] the correction returned.  Every bitset on n qubits is visited (by [search1] with budget n). *)
From Coq Require Import QArith.
Fixpoint prod_odds (odds : list Q) (i : N) (x : N) : Q :=
  match odds with
  | [] => 1%Q
  | o :: r => ((if N.testbit x i then o else 1) * prod_odds r (N.succ i) x)%Q
  end.
Definition beats (H : list N) (odds : list Q) (s : list bool) (limit : Q) (x : N) : bool :=
  lbeq (mulH H x) s && negb (Qle_bool (prod_odds odds 0 x) limit).
Definition opt_ok (n : nat) (H : list N) (odds : list Q) (s : list bool) (c : N) (slack : Q) : bool :=
  lbeq (mulH H c) s && bounded (N.of_nat n) c
  && search1 (beats H odds s (prod_odds odds 0 c * slack)%Q) n n 0.

Lemma nw_le k x : (nw k x <= k)%nat.
Proof.
  unfold nw. transitivity (length (upto k)); [|clear; induction k as [|k IH]; cbn; [lia|rewrite app_length; cbn; lia]].
  induction (upto k) as [|i l IH]; cbn; [lia|]. destruct (N.testbit x i); cbn; lia.
Qed.
Lemma lbeq_eq a b : lbeq a b = true -> a = b.
Proof.
  revert b; induction a as [|x a IH]; intros [|y b] H; cbn in H; try discriminate; [reflexivity|].
  apply andb_true_iff in H. destruct H as [H1 H2]. apply eqb_prop in H1. subst. f_equal. auto.
Qed.
Lemma lbeq_refl a : lbeq a a = true.
Proof. induction a as [|x a IH]; [reflexivity|]. cbn. now rewrite eqb_reflx, IH. Qed.

(** *** soundness: an accepted correction has the sector syndrome and no solution on n qubits has a
    product of odds exceeding that of the correction by more than the slack factor - i.e. it is a
    maximum-likelihood = minimum-total-LLR-weight correction among ALL corrections with that syndrome *)
Theorem opt_ok_sound n H odds s c slack : opt_ok n H odds s c slack = true ->
  mulH H c = s /\
  forall x, bounded (N.of_nat n) x = true -> mulH H x = s -> (prod_odds odds 0 x <= prod_odds odds 0 c * slack)%Q.
Proof.
  unfold opt_ok. rewrite !andb_true_iff. intros [[Hc Hb] Hs]. split; [now apply lbeq_eq|].
  intros x Hx Hsx. pose proof (search1_sound _ n n 0 Hs x Hx (nw_le n x)) as Hbad.
  rewrite N.lxor_0_l in Hbad. unfold beats in Hbad. rewrite Hsx, lbeq_refl in Hbad. cbn [andb] in Hbad.
  apply negb_false_iff in Hbad. now apply Qle_bool_iff.
Qed.
