(** * Fss: the finite-size-scaling ansatz and the fit-status decision rule (C16, partial).

    f(p, d) = A + B x + C x^2  with  x = (p - p_th) d^nu.  What can be proved here is about the
    ansatz and about the rule that flags a fit as successful; convergence of the least-squares
    optimiser (MINPACK) and the bootstrap are outside the reach of the technique. *)
From Coq Require Import Reals Lra List Permutation QArith Qabs.
Import ListNotations.
Local Open Scope R_scope.

Definition xvar (pth nu p d : R) : R := (p - pth) * Rpower d nu.
Definition ansatz (pth nu A B C p d : R) : R := A + B * xvar pth nu p d + C * (xvar pth nu p d) ^ 2.

(** the planted parameters reproduce the data exactly: zero residual *)
Theorem residual_zero_at_planted pth nu A B C (data : list (R * R)) :
  fold_right (fun pd acc => (ansatz pth nu A B C (fst pd) (snd pd) - ansatz pth nu A B C (fst pd) (snd pd)) ^ 2 + acc) 0 data = 0.
Proof. induction data as [|pd data IH]; cbn [fold_right]; [reflexivity|]. rewrite IH. ring. Qed.

(** the least-squares objective does not depend on the order of the rows *)
Definition sse (f : R * R -> R) (rows : list (R * R * R)) : R :=
  fold_right (fun r acc => (f (fst r) - snd r) ^ 2 + acc) 0 rows.
Theorem objective_order_independent f rows rows' : Permutation rows rows' -> sse f rows = sse f rows'.
Proof.
  unfold sse. induction 1 as [|x a b P IH|x y a|a b c P1 IH1 P2 IH2]; cbn [fold_right]; try reflexivity.
  - now rewrite IH.
  - ring.
  - now rewrite IH1.
Qed.

(** partial identifiability: for fixed (p_th, nu) the coefficients (A, B, C) are determined by the
    values at three distinct scaled variables x (what is missing for full identifiability of the
    planted threshold: the joint determination of p_th and nu from two or more distances) *)
Theorem fss_identifiable_partial A B C A' B' C' x1 x2 x3 :
  x1 <> x2 -> x1 <> x3 -> x2 <> x3 ->
  A + B * x1 + C * x1 ^ 2 = A' + B' * x1 + C' * x1 ^ 2 ->
  A + B * x2 + C * x2 ^ 2 = A' + B' * x2 + C' * x2 ^ 2 ->
  A + B * x3 + C * x3 ^ 2 = A' + B' * x3 + C' * x3 ^ 2 ->
  A = A' /\ B = B' /\ C = C'.
Proof.
  intros H12 H13 H23 E1 E2 E3.
  set (a := A - A'). set (b := B - B'). set (c := C - C').
  assert (F1 : a + b * x1 + c * x1 ^ 2 = 0) by (unfold a, b, c; lra).
  assert (F2 : a + b * x2 + c * x2 ^ 2 = 0) by (unfold a, b, c; lra).
  assert (F3 : a + b * x3 + c * x3 ^ 2 = 0) by (unfold a, b, c; lra).
  assert (G1 : (x1 - x2) * (b + c * (x1 + x2)) = 0) by (ring_simplify; lra).
  assert (G2 : (x1 - x3) * (b + c * (x1 + x3)) = 0) by (ring_simplify; lra).
  apply Rmult_integral in G1. destruct G1 as [G1|G1]; [lra|].
  apply Rmult_integral in G2. destruct G2 as [G2|G2]; [lra|].
  assert (G3 : c * (x2 - x3) = 0) by lra.
  apply Rmult_integral in G3. destruct G3 as [G3|G3]; [|lra].
  assert (b = 0) by (rewrite G3 in G1; lra).
  assert (a = 0) by (rewrite G3, H in F1; lra).
  unfold a, b, c in *. repeat split; lra.
Qed.
Close Scope R_scope.

(** ** the fit-status rule of [Analysis.get_fit_status], over Q ([None] = NaN) *)
Local Open Scope Q_scope.
Record fit := Fit { f_params : option (Q * Q * Q * Q * Q);     (* p_th, nu, A, B, C of the best fit *)
                    f_pth : option Q; f_left : option Q; f_right : option Q; f_se : option Q;
                    f_pleft : Q; f_pright : Q }.
(** numpy.isclose(a, b) with default tolerances *)
Definition isclose (a b : Q) : bool := Qle_bool (Qabs (a - b)) ((1 # 100000000) + (1 # 100000) * Qabs b).
Definition in01 (x : Q) : bool := Qle_bool 0 x && Qle_bool x 1.

Definition fit_success (e : fit) : bool :=
  match f_params e, f_pth e, f_left e, f_right e, f_se e with
  | Some (pth, nu, A, B, C), Some t, Some l, Some r, Some s =>
      negb (isclose l r) && negb (isclose s 0)
      && in01 t && in01 l && in01 r && in01 s
      && in01 A
      && Qle_bool (f_pleft e) t && Qle_bool t (f_pright e)
      && negb (isclose A 0 && isclose B 0 && isclose C 0)
  | _, _, _, _, _ => false
  end.

(** a fit flagged successful has its threshold inside the data range used and inside [0,1], a
    non-degenerate confidence interval, a logical error rate at threshold in [0,1] and a non-flat curve *)
Theorem fit_success_implies e : fit_success e = true ->
  exists pth nu A B C t l r s,
    f_params e = Some (pth, nu, A, B, C) /\ f_pth e = Some t /\ f_left e = Some l /\ f_right e = Some r /\ f_se e = Some s /\
    f_pleft e <= t /\ t <= f_pright e /\ 0 <= t /\ t <= 1 /\ 0 <= A /\ A <= 1 /\
    isclose l r = false /\ isclose s 0 = false /\ (isclose A 0 && isclose B 0 && isclose C 0) = false.
Proof.
  unfold fit_success. destruct (f_params e) as [[[[[pth nu] A] B] C]|]; [|discriminate].
  destruct (f_pth e) as [t|]; [|discriminate]. destruct (f_left e) as [l|]; [|discriminate].
  destruct (f_right e) as [r|]; [|discriminate]. destruct (f_se e) as [s|]; [|discriminate].
  rewrite !andb_true_iff, !negb_true_iff. unfold in01. rewrite !andb_true_iff, !Qle_bool_iff.
  intros H. exists pth, nu, A, B, C, t, l, r, s. intuition.
Qed.
