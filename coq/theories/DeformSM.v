(** * DeformSM: [StabilizerCode.deform] as a state machine on one object (C08, history clause).

    Model of the object state touched by [deform] and by the cached properties:
    - [cur]   : the operator getters currently bound on the object (get_stabilizer / get_logicals_x/z);
    - [saved] : [_get_undeformed_*], bound once by the [hasattr] guard and never rebound;
    - [cache] : the derived data (stabilizer_matrix, logicals, Hx, Hz, d, ...), filled lazily by
                property accesses and emptied by the [self.__init__] re-run call in [deform].
    [T] is the type of getter triples, [wrap d t] the getters deformed by name/axis [d] on top of
    [t], [compute t] every derived table.  All three are abstract: the theorem holds for any code
    class. *)
From Coq Require Import List.
Import ListNotations.

Section SM.
  Variables (T name table : Type) (base : T) (wrap : name -> T -> T) (compute : T -> table).

  Record st := St { cur : T; saved : option T; cache : option table }.
  Inductive op := Deform (d : name) | Access.

  Definition init : st := St base None None.

  Definition step (s : st) (o : op) : st :=
    match o with
    | Deform d =>
        let u := match saved s with Some t => t | None => cur s end in   (* hasattr guard *)
        St (wrap d u) (Some u) None                                        (* re-running __init__ empties caches *)
    | Access => St (cur s) (saved s) (Some (match cache s with Some t => t | None => compute (cur s) end))
    end.

  Definition observe (s : st) : table := match cache s with Some t => t | None => compute (cur s) end.

  Fixpoint last_deform (ops : list op) (acc : option name) : option name :=
    match ops with [] => acc | Deform d :: r => last_deform r (Some d) | Access :: r => last_deform r acc end.

  Definition fresh (d : option name) : T := match d with None => base | Some n => wrap n base end.

  Definition Inv (s : st) (d : option name) : Prop :=
    cur s = fresh d /\ (saved s = None \/ saved s = Some base) /\ (d = None -> saved s = None \/ saved s = Some base)
    /\ (saved s = None -> d = None)
    /\ (cache s = None \/ cache s = Some (compute (cur s))).

  Lemma step_inv s d o : Inv s d -> Inv (step s o) (match o with Deform n => Some n | Access => d end).
  Proof.
    intros (Hc & Hs & _ & Hn & Hk). destruct o as [n|]; cbn [step].
    - unfold Inv; cbn [cur saved cache fresh]. destruct Hs as [Hs|Hs]; rewrite Hs.
      + rewrite Hc, (Hn Hs). cbn [fresh]. repeat split; auto. discriminate.
      + repeat split; auto. discriminate.
    - unfold Inv; cbn [cur saved cache]. repeat split; auto.
      right. destruct Hk as [-> | ->]; reflexivity.
  Qed.

  Lemma run_inv ops : forall s d, Inv s d -> Inv (fold_left step ops s) (last_deform ops d).
  Proof.
    induction ops as [|o ops IH]; intros s d H; [exact H|]. cbn [fold_left last_deform].
    destruct o as [n|]; apply IH; [exact (step_inv s d (Deform n) H)|exact (step_inv s d Access H)].
  Qed.

  (** *** whatever the history of deform calls and property accesses, what the object exposes is what
      a fresh object deformed once by the last requested deformation exposes *)
  Theorem deform_history_independent ops :
    observe (fold_left step ops init) = compute (fresh (last_deform ops None)).
  Proof.
    assert (H0 : Inv init None) by (unfold Inv, init; cbn; repeat split; auto).
    destruct (run_inv ops init None H0) as (Hc & _ & _ & _ & Hk).
    unfold observe. destruct Hk as [-> | ->]; now rewrite Hc.
  Qed.

  (** *** variants that are NOT history independent *)
  (** (a) the guard re-saves the current (possibly already deformed) getters on every call *)
  Definition step_resave (s : st) (o : op) : st :=
    match o with
    | Deform d => St (wrap d (cur s)) (Some (cur s)) None
    | Access => step s Access
    end.
  (** (b) deform forgets to empty a cache *)
  Definition step_stale (s : st) (o : op) : st :=
    match o with
    | Deform d => let u := match saved s with Some t => t | None => cur s end in St (wrap d u) (Some u) (cache s)
    | Access => step s Access
    end.
End SM.

(** witnesses: getters = list of applied names, compute = identity *)
Definition L := list nat.
Definition wr (d : nat) (t : L) : L := d :: t.
Definition cp (t : L) : L := t.
Example resave_variant_refuted :
  exists ops, observe L L cp (fold_left (step_resave L nat L wr cp) ops (init L L []))
              <> cp (fresh L nat [] wr (last_deform nat ops None)).
Proof. exists [Deform nat 1; Deform nat 2]. cbn. discriminate. Qed.
Example stale_variant_refuted :
  exists ops, observe L L cp (fold_left (step_stale L nat L wr cp) ops (init L L []))
              <> cp (fresh L nat [] wr (last_deform nat ops None)).
Proof. exists [Access nat; Deform nat 1]. cbn. discriminate. Qed.
(** non-vacuity: the real step function satisfies the theorem on the same histories *)
Example real_step_on_witnesses :
  observe L L cp (fold_left (step L nat L wr cp) [Deform nat 1; Deform nat 2] (init L L [])) = [2]
  /\ observe L L cp (fold_left (step L nat L wr cp) [Access nat; Deform nat 1] (init L L [])) = [1].
Proof. split; reflexivity. Qed.
