(** * RotatedPlanar3D: parametric model of [RotatedPlanar3DCode] (Layer P): for EVERY size L_x, L_y, L_z >= 2 all
    stabilizer generators pairwise commute.  Coordinates, the (x + y) mod 4 selection rules, the delta lists and the
    [is_qubit] filter at the open boundaries mirror the Python; tied to the implementation on the grid in C01. *)
From Coq Require Import ZArith List Bool Lia ZifyBool.
From PQ Require Import Toric2D Toric3D Planar3D.
Import ListNotations.
Local Open Scope Z_scope.
Ltac Zify.zify_post_hook ::= Z.to_euclidean_division_equations.

Definition sel (r : Z) (p : pt3) : bool := let '(x, y, z) := p in (x + y) mod 4 =? r.
Definition qubits (Lx Ly Lz : Z) : list pt3 :=
  grid3 (rg 1 Lx) (rg 1 Ly) (rg 1 Lz) ++ filter (sel 2) (grid3 (rg 2 (Lx - 1)) (rg 0 (Ly + 1)) (rg 2 (Lz - 1))).
Definition stab_coords (Lx Ly Lz : Z) : list pt3 :=
  filter (sel 2) (grid3 (rg 2 (Lx - 1)) (rg 0 (Ly + 1)) (rg 1 Lz))
  ++ filter (sel 0) (grid3 (rg 0 (Lx + 1)) (rg 2 (Ly - 1)) (rg 1 Lz))
  ++ grid3 (rg 1 Lx) (rg 1 Ly) (rg 2 (Lz - 1)).
Definition is_vertex (loc : pt3) : bool := let '(x, y, z) := loc in ((x + y) mod 4 =? 2) && (z mod 2 =? 1).
Definition deltas (loc : pt3) : list pt3 :=
  let '(x, y, z) := loc in
  if is_vertex loc then [(-1, -1, 0); (-1, 1, 0); (1, -1, 0); (1, 1, 0); (0, 0, -1); (0, 0, 1)]
  else if z mod 2 =? 1 then [(-1, -1, 0); (1, 1, 0); (-1, 1, 0); (1, -1, 0)]
  else if (x + y) mod 4 =? 0 then [(-1, -1, 0); (1, 1, 0); (0, 0, -1); (0, 0, 1)]
  else [(-1, 1, 0); (1, -1, 0); (0, 0, -1); (0, 0, 1)].
Definition is_qubit_b (Lx Ly Lz : Z) (q : pt3) : bool :=
  let '(x, y, z) := q in
  ((x mod 2 =? 1) && (1 <=? x) && (x <=? 2 * Lx - 1) && (y mod 2 =? 1) && (1 <=? y) && (y <=? 2 * Ly - 1) && (z mod 2 =? 1) && (1 <=? z) && (z <=? 2 * Lz - 1))
  || ((x mod 2 =? 0) && (2 <=? x) && (x <=? 2 * Lx - 2) && (y mod 2 =? 0) && (0 <=? y) && (y <=? 2 * Ly) && (z mod 2 =? 0) && (2 <=? z) && (z <=? 2 * Lz - 2)
      && ((x + y) mod 4 =? 2)).
Definition support (Lx Ly Lz : Z) (loc : pt3) : list pt3 := filter (is_qubit_b Lx Ly Lz) (map (add3 loc) (deltas loc)).

(** [is_qubit_b] is membership in the generated qubit list *)
Lemma is_qubit_spec Lx Ly Lz q : 1 <= Lx -> 1 <= Ly -> 1 <= Lz -> is_qubit_b Lx Ly Lz q = true <-> In q (qubits Lx Ly Lz).
Proof.
  intros HLx HLy HLz. destruct q as [[x y] z]. unfold qubits, is_qubit_b. rewrite in_app_iff, filter_In, !in_grid3, !in_rg. unfold sel. split.
  - intros H. apply orb_true_iff in H. destruct H as [H|H].
    + left. repeat split; [exists ((x - 1) / 2)|exists ((y - 1) / 2)|exists ((z - 1) / 2)]; lia.
    + right. split; [repeat split; [exists ((x - 2) / 2)|exists (y / 2)|exists ((z - 2) / 2)]; lia|lia].
  - intros [([a [Ha ->]] & [b [Hb ->]] & [c [Hc ->]])|[([a [Ha ->]] & [b [Hb ->]] & [c [Hc ->]]) S]]; lia.
Qed.

Lemma stab_cases Lx Ly Lz x y z : In (x, y, z) (stab_coords Lx Ly Lz) ->
  (x mod 2 = 0 /\ 2 <= x <= 2 * Lx - 2 /\ y mod 2 = 0 /\ 0 <= y <= 2 * Ly /\ (x + y) mod 4 = 2 /\ z mod 2 = 1 /\ 1 <= z <= 2 * Lz - 1) \/
  (x mod 2 = 0 /\ 0 <= x <= 2 * Lx /\ y mod 2 = 0 /\ 2 <= y <= 2 * Ly - 2 /\ (x + y) mod 4 = 0 /\ z mod 2 = 1 /\ 1 <= z <= 2 * Lz - 1) \/
  (x mod 2 = 1 /\ 1 <= x <= 2 * Lx - 1 /\ y mod 2 = 1 /\ 1 <= y <= 2 * Ly - 1 /\ z mod 2 = 0 /\ 2 <= z <= 2 * Lz - 2).
Proof.
  unfold stab_coords, sel. rewrite !in_app_iff, !filter_In, !in_grid3, !in_rg.
  intros [[([a [Ha ->]] & [b [Hb ->]] & [c [Hc ->]]) S]|[[([a [Ha ->]] & [b [Hb ->]] & [c [Hc ->]]) S]|([a [Ha ->]] & [b [Hb ->]] & [c [Hc ->]])]]; lia.
Qed.

Ltac decide_eqbs' :=
  repeat match goal with
         | |- context[(?a =? ?b)] => first [replace (a =? b) with false by lia | replace (a =? b) with true by lia]
         end.
Ltac decide_false' := repeat match goal with |- context[(?a =? ?b)] => replace (a =? b) with false by lia end.
Ltac qubit_true' :=
  repeat match goal with
         | |- context[is_qubit_b ?Lx ?Ly ?Lz ?q] => replace (is_qubit_b Lx Ly Lz q) with true by (unfold is_qubit_b; lia)
         end.
Ltac cross_tac' a b c d e f :=
  unfold support, deltas, is_vertex;
  repeat match goal with |- context[(?t mod ?m =? ?r)] => first [replace (t mod m =? r) with true by lia | replace (t mod m =? r) with false by lia] end;
  cbn [andb]; rewrite overlap3_filter; cbn [map add3 fold_left]; rewrite !mem3_filter; cbn [mem3 existsb pt3_eqb];
  decide_false'; cbn [andb orb]; rewrite ?andb_false_r; cbn [orb];
  (destruct (Z.eq_dec d a) as [?|?]; [|destruct (Z.eq_dec (d + 1) a) as [?|?]; [|destruct (Z.eq_dec (d - 1) a) as [?|?]]]);
  (destruct (Z.eq_dec e b) as [?|?]; [|destruct (Z.eq_dec (e + 1) b) as [?|?]; [|destruct (Z.eq_dec (e - 1) b) as [?|?]]]);
  (destruct (Z.eq_dec f c) as [?|?]; [|destruct (Z.eq_dec (f + 1) c) as [?|?]; [|destruct (Z.eq_dec (f - 1) c) as [?|?]]]);
  decide_eqbs'; cbn [andb orb]; rewrite ?andb_false_r, ?andb_true_r; cbn [xorb]; qubit_true'; reflexivity.

(** vertex (2a, 2b, 2c+1) with a + b odd, against the three kinds of face *)
Lemma cross_h Lx Ly Lz a b c d e f k j : 2 <= Lx -> 2 <= Ly -> 2 <= Lz -> a + b = 2 * k + 1 -> d + e = 2 * j ->
  2 <= 2 * a <= 2 * Lx - 2 -> 0 <= 2 * b <= 2 * Ly -> 1 <= 2 * c + 1 <= 2 * Lz - 1 ->
  0 <= 2 * d <= 2 * Lx -> 2 <= 2 * e <= 2 * Ly - 2 -> 1 <= 2 * f + 1 <= 2 * Lz - 1 ->
  overlap3 (support Lx Ly Lz (2 * a, 2 * b, 2 * c + 1)) (support Lx Ly Lz (2 * d, 2 * e, 2 * f + 1)) = false.
Proof. intros HLx HLy HLz Pv Pf Ra Rb Rc Rd Re Rf. cross_tac' a b c d e f. Qed.
Lemma cross_v0 Lx Ly Lz a b c d e f k j : 2 <= Lx -> 2 <= Ly -> 2 <= Lz -> a + b = 2 * k + 1 -> d + e = 2 * j + 1 ->
  2 <= 2 * a <= 2 * Lx - 2 -> 0 <= 2 * b <= 2 * Ly -> 1 <= 2 * c + 1 <= 2 * Lz - 1 ->
  1 <= 2 * d + 1 <= 2 * Lx - 1 -> 1 <= 2 * e + 1 <= 2 * Ly - 1 -> 2 <= 2 * f <= 2 * Lz - 2 ->
  overlap3 (support Lx Ly Lz (2 * a, 2 * b, 2 * c + 1)) (support Lx Ly Lz (2 * d + 1, 2 * e + 1, 2 * f)) = false.
Proof. intros HLx HLy HLz Pv Pf Ra Rb Rc Rd Re Rf. cross_tac' a b c d e f. Qed.
Lemma cross_v2 Lx Ly Lz a b c d e f k j : 2 <= Lx -> 2 <= Ly -> 2 <= Lz -> a + b = 2 * k + 1 -> d + e = 2 * j ->
  2 <= 2 * a <= 2 * Lx - 2 -> 0 <= 2 * b <= 2 * Ly -> 1 <= 2 * c + 1 <= 2 * Lz - 1 ->
  1 <= 2 * d + 1 <= 2 * Lx - 1 -> 1 <= 2 * e + 1 <= 2 * Ly - 1 -> 2 <= 2 * f <= 2 * Lz - 2 ->
  overlap3 (support Lx Ly Lz (2 * a, 2 * b, 2 * c + 1)) (support Lx Ly Lz (2 * d + 1, 2 * e + 1, 2 * f)) = false.
Proof. intros HLx HLy HLz Pv Pf Ra Rb Rc Rd Re Rf. cross_tac' a b c d e f. Qed.

Theorem rotated_planar3d_vertex_face_commute Lx Ly Lz v f :
  2 <= Lx -> 2 <= Ly -> 2 <= Lz -> In v (stab_coords Lx Ly Lz) -> In f (stab_coords Lx Ly Lz) ->
  is_vertex v = true -> is_vertex f = false ->
  overlap3 (support Lx Ly Lz v) (support Lx Ly Lz f) = false.
Proof.
  intros HLx HLy HLz Hv Hf Tv Tf. destruct v as [[vx vy] vz], f as [[fx fy] fz].
  apply stab_cases in Hv. apply stab_cases in Hf. unfold is_vertex in Tv, Tf.
  assert (V : vx mod 2 = 0 /\ 2 <= vx <= 2 * Lx - 2 /\ vy mod 2 = 0 /\ 0 <= vy <= 2 * Ly /\ (vx + vy) mod 4 = 2 /\ vz mod 2 = 1 /\ 1 <= vz <= 2 * Lz - 1) by lia.
  clear Hv Tv. destruct V as (P1 & R1 & P2 & R2 & P4 & P3 & R3).
  assert (E1 : exists a, vx = 2 * a) by (exists (vx / 2); lia). assert (E2 : exists b, vy = 2 * b) by (exists (vy / 2); lia).
  assert (E3 : exists c, vz = 2 * c + 1) by (exists (vz / 2); lia).
  destruct E1 as [a ->], E2 as [b ->], E3 as [c ->]. clear P1 P2 P3.
  assert (E4 : exists k, a + b = 2 * k + 1) by (exists ((a + b) / 2); lia). destruct E4 as [k Pv]. clear P4.
  destruct Hf as [Hf|[Hf|Hf]]; [lia| |].
  - destruct Hf as (Q1 & S1 & Q2 & S2 & Q4 & Q3 & S3); clear Tf.
    assert (F1 : exists d, fx = 2 * d) by (exists (fx / 2); lia). assert (F2 : exists e, fy = 2 * e) by (exists (fy / 2); lia).
    assert (F3 : exists f, fz = 2 * f + 1) by (exists (fz / 2); lia).
    destruct F1 as [d ->], F2 as [e ->], F3 as [f ->]. clear Q1 Q2 Q3.
    assert (F4 : exists j, d + e = 2 * j) by (exists ((d + e) / 2); lia). destruct F4 as [j Pf]. clear Q4.
    apply (cross_h Lx Ly Lz a b c d e f k j); assumption.
  - destruct Hf as (Q1 & S1 & Q2 & S2 & Q3 & S3); clear Tf.
    assert (F1 : exists d, fx = 2 * d + 1) by (exists (fx / 2); lia). assert (F2 : exists e, fy = 2 * e + 1) by (exists (fy / 2); lia).
    assert (F3 : exists f, fz = 2 * f) by (exists (fz / 2); lia).
    destruct F1 as [d ->], F2 as [e ->], F3 as [f ->]. clear Q1 Q2 Q3.
    destruct (Z.eq_dec ((d + e) mod 2) 0) as [Ev|Od].
    + assert (F4 : exists j, d + e = 2 * j) by (exists ((d + e) / 2); lia). destruct F4 as [j Pf].
      apply (cross_v2 Lx Ly Lz a b c d e f k j); assumption.
    + assert (F4 : exists j, d + e = 2 * j + 1) by (exists ((d + e) / 2); lia). destruct F4 as [j Pf].
      apply (cross_v0 Lx Ly Lz a b c d e f k j); assumption.
Qed.

Lemma support_nodup Lx Ly Lz s : NoDup (support Lx Ly Lz s).
Proof.
  destruct s as [[x y] z]. unfold support. apply NoDup_filter. unfold deltas, is_vertex.
  destruct (((x + y) mod 4 =? 2) && (z mod 2 =? 1)); [|destruct (z mod 2 =? 1); [|destruct ((x + y) mod 4 =? 0)]]; cbn [map add3]; nodup3.
Qed.

Theorem rotated_planar3d_stabilizers_commute Lx Ly Lz s s' :
  2 <= Lx -> 2 <= Ly -> 2 <= Lz -> In s (stab_coords Lx Ly Lz) -> In s' (stab_coords Lx Ly Lz) ->
  ops_commute3 (is_vertex s) (support Lx Ly Lz s) (is_vertex s') (support Lx Ly Lz s') = true.
Proof.
  intros HLx HLy HLz Hs Hs'. unfold ops_commute3.
  destruct (is_vertex s) eqn:E, (is_vertex s') eqn:E'; cbn [Bool.eqb]; try reflexivity; apply negb_true_iff.
  - apply rotated_planar3d_vertex_face_commute; assumption.
  - rewrite overlap3_sym by apply support_nodup. apply rotated_planar3d_vertex_face_commute; assumption.
Qed.

Definition table_matches (Lx Ly Lz : Z) (qs ss : list pt3) (supports : list (list pt3)) : bool :=
  pt3l_eqb (qubits Lx Ly Lz) qs && pt3l_eqb (stab_coords Lx Ly Lz) ss
  && pt3ll_eqb (map (support Lx Ly Lz) (stab_coords Lx Ly Lz)) supports.
