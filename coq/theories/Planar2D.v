(** * Planar2D: parametric model of [Planar2DCode] (Layer P) and a proof, for EVERY lattice size
    L_x, L_y >= 2, that all stabilizer generators pairwise commute (open boundaries: the [is_qubit]
    filter drops the missing neighbours).  Tied to the implementation on the grid in C01. *)
From Coq Require Import ZArith List Bool Lia ZifyBool.
From PQ Require Import Toric2D.
Import ListNotations.
Local Open Scope Z_scope.
Ltac Zify.zify_post_hook ::= Z.to_euclidean_division_equations.

(** [range(start, stop, 2)] with [n] elements *)
Definition qubits (Lx Ly : Z) : list pt :=
  flat_map (fun x => map (fun y => (x, y)) (range2 0 (Z.to_nat Ly))) (range2 1 (Z.to_nat Lx))
  ++ flat_map (fun x => map (fun y => (x, y)) (range2 1 (Z.to_nat (Ly - 1)))) (range2 2 (Z.to_nat (Lx - 1))).
Definition stab_coords (Lx Ly : Z) : list pt :=
  flat_map (fun x => map (fun y => (x, y)) (range2 0 (Z.to_nat Ly))) (range2 2 (Z.to_nat (Lx - 1)))
  ++ flat_map (fun x => map (fun y => (x, y)) (range2 1 (Z.to_nat (Ly - 1)))) (range2 1 (Z.to_nat Lx)).

Definition nbrs (p : pt) : list pt := let '(x, y) := p in [(x - 1, y); (x + 1, y); (x, y - 1); (x, y + 1)].
(** membership in the qubit list, as a decidable predicate on coordinates *)
Definition is_qubit_b (Lx Ly : Z) (q : pt) : bool :=
  let '(x, y) := q in
  ((x mod 2 =? 1) && (1 <=? x) && (x <=? 2 * Lx - 1) && (y mod 2 =? 0) && (0 <=? y) && (y <=? 2 * Ly - 2))
  || ((x mod 2 =? 0) && (2 <=? x) && (x <=? 2 * Lx - 2) && (y mod 2 =? 1) && (1 <=? y) && (y <=? 2 * Ly - 3)).
Definition support (Lx Ly : Z) (loc : pt) : list pt := filter (is_qubit_b Lx Ly) (nbrs loc).

Lemma is_qubit_spec Lx Ly q : 1 <= Lx -> 1 <= Ly -> is_qubit_b Lx Ly q = true <-> In q (qubits Lx Ly).
Proof.
  intros HLx HLy. destruct q as [x y]. unfold qubits, is_qubit_b. rewrite in_app_iff, !in_flat_map. split.
  - intros H. apply orb_true_iff in H. destruct H as [H|H].
    + left. exists x. split; [apply in_range2; exists ((x - 1) / 2); lia|].
      apply in_map_iff. exists y. split; [reflexivity|]. apply in_range2. exists (y / 2). lia.
    + right. exists x. split; [apply in_range2; exists ((x - 2) / 2); lia|].
      apply in_map_iff. exists y. split; [reflexivity|]. apply in_range2. exists ((y - 1) / 2). lia.
  - intros [[x' [Hx Hy]]|[x' [Hx Hy]]]; rewrite in_map_iff in Hy; destruct Hy as [y' [E Hy]]; injection E as -> ->;
      rewrite in_range2 in Hx, Hy; destruct Hx as [k [Hk ->]], Hy as [j [Hj ->]]; lia.
Qed.

Definition adjp (a b : Z) : bool := (a - 1 =? b) || (a + 1 =? b).
Lemma adjp_sym a b : adjp a b = adjp b a.
Proof. unfold adjp. lia. Qed.
Lemma mem_nbrs qx qy fx fy : mem (qx, qy) (nbrs (fx, fy)) = (adjp fx qx && (qy =? fy)) || ((qx =? fx) && adjp fy qy).
Proof.
  unfold mem, nbrs, adjp, pt_eqb; cbn [existsb fst snd].
  rewrite (Z.eqb_sym qx (fx - 1)), (Z.eqb_sym qx (fx + 1)), (Z.eqb_sym qy (fy - 1)), (Z.eqb_sym qy (fy + 1)).
  destruct (fx - 1 =? qx), (fx + 1 =? qx), (qy =? fy), (qx =? fx), (fy - 1 =? qy), (fy + 1 =? qy); reflexivity.
Qed.

Lemma mem_filter (p : pt -> bool) q l : (forall a b, pt_eqb a b = true -> p a = p b) -> mem q (filter p l) = p q && mem q l.
Proof.
  intros Hp. unfold mem. induction l as [|a l IH]; cbn [filter existsb]; [now rewrite andb_false_r|].
  destruct (p a) eqn:Pa; cbn [existsb]; rewrite IH.
  - destruct (pt_eqb q a) eqn:E; cbn [orb]; [rewrite (Hp q a E), Pa; reflexivity|reflexivity].
  - destruct (pt_eqb q a) eqn:E; cbn [orb]; [rewrite (Hp q a E), Pa; reflexivity|reflexivity].
Qed.
Lemma is_qubit_b_ext Lx Ly a b : pt_eqb a b = true -> is_qubit_b Lx Ly a = is_qubit_b Lx Ly b.
Proof. destruct a as [a1 a2], b as [b1 b2]. unfold pt_eqb; cbn [fst snd]. intros H. assert (a1 = b1 /\ a2 = b2) as [-> ->] by lia. reflexivity. Qed.

Lemma overlap_filter (p : pt -> bool) l b :
  overlap_par (filter p l) b = fold_left xorb (map (fun q => p q && mem q b) l) false.
Proof.
  unfold overlap_par. generalize false. induction l as [|a l IH]; intros acc; cbn [filter map fold_left]; [reflexivity|].
  destruct (p a); cbn [map fold_left andb]; [apply IH|]. rewrite xorb_false_r. apply IH.
Qed.

Definition is_vertex (loc : pt) : bool := (fst loc) mod 2 =? 0.
Definition ops_commute (za : bool) (sa : list pt) (zb : bool) (sb : list pt) : bool :=
  if Bool.eqb za zb then true else negb (overlap_par sa sb).

(** a stabilizer location and a qubit location q next to it: when q is also next to a stabilizer
    location of the other type, q is a qubit of the lattice *)
Theorem planar2d_cross_overlap_even Lx Ly vx vy fx fy :
  2 <= Lx -> 2 <= Ly -> In (vx, vy) (stab_coords Lx Ly) -> In (fx, fy) (stab_coords Lx Ly) ->
  vx mod 2 <> fx mod 2 ->
  overlap_par (support Lx Ly (vx, vy)) (support Lx Ly (fx, fy)) = false.
Proof.
  intros HLx HLy Hv Hf Hpar.
  assert (R : forall x y, In (x, y) (stab_coords Lx Ly) ->
            (x mod 2 = 0 /\ 2 <= x <= 2 * Lx - 2 /\ y mod 2 = 0 /\ 0 <= y <= 2 * Ly - 2) \/
            (x mod 2 = 1 /\ 1 <= x <= 2 * Lx - 1 /\ y mod 2 = 1 /\ 1 <= y <= 2 * Ly - 3)).
  { intros x y H. unfold stab_coords in H. rewrite in_app_iff, !in_flat_map in H.
    destruct H as [[x' [Hx Hy]]|[x' [Hx Hy]]]; rewrite in_map_iff in Hy; destruct Hy as [y' [E Hy]]; injection E as -> ->;
      rewrite in_range2 in Hx, Hy; destruct Hx as [k [Hk ->]], Hy as [j [Hj ->]]; [left|right]; lia. }
  pose proof (R _ _ Hv) as RV. pose proof (R _ _ Hf) as RF. clear R Hv Hf.
  unfold support. rewrite overlap_filter. remember (nbrs (fx, fy)) as F eqn:EF. cbn [nbrs map fold_left]. subst F.
  rewrite !(mem_filter (is_qubit_b Lx Ly)) by apply is_qubit_b_ext. rewrite !mem_nbrs.
  assert (E1 : (vy =? fy) = false) by lia. assert (E2 : (vx =? fx) = false) by lia.
  rewrite E1, E2, !andb_false_r, !andb_false_l, !orb_false_l, !orb_false_r. cbn [xorb].
  (* every neighbour of (vx,vy) that is also next to (fx,fy) is a qubit of the lattice *)
  assert (Q1 : is_qubit_b Lx Ly (vx - 1, vy) && (is_qubit_b Lx Ly (vx - 1, vy) && ((vx - 1 =? fx) && adjp fy vy)) = (vx - 1 =? fx) && adjp fy vy).
  { unfold is_qubit_b, adjp. lia. }
  assert (Q2 : is_qubit_b Lx Ly (vx + 1, vy) && (is_qubit_b Lx Ly (vx + 1, vy) && ((vx + 1 =? fx) && adjp fy vy)) = (vx + 1 =? fx) && adjp fy vy).
  { unfold is_qubit_b, adjp. lia. }
  assert (Q3 : is_qubit_b Lx Ly (vx, vy - 1) && (is_qubit_b Lx Ly (vx, vy - 1) && (adjp fx vx && (vy - 1 =? fy))) = adjp fx vx && (vy - 1 =? fy)).
  { unfold is_qubit_b, adjp. lia. }
  assert (Q4 : is_qubit_b Lx Ly (vx, vy + 1) && (is_qubit_b Lx Ly (vx, vy + 1) && (adjp fx vx && (vy + 1 =? fy))) = adjp fx vx && (vy + 1 =? fy)).
  { unfold is_qubit_b, adjp. lia. }
  rewrite Q1, Q2, Q3, Q4. clear Q1 Q2 Q3 Q4.
  replace (if (vx - 1 =? fx) && adjp fy vy then true else false) with ((vx - 1 =? fx) && adjp fy vy)
    by (destruct ((vx - 1 =? fx) && adjp fy vy); reflexivity).
  set (A := adjp fy vy). set (B := adjp fx vx).
  assert (X : xorb ((vx - 1 =? fx) && A) ((vx + 1 =? fx) && A) = adjp vx fx && A).
  { unfold adjp. destruct A; rewrite ?andb_true_r, ?andb_false_r; [|reflexivity]. lia. }
  assert (Y : xorb (B && (vy - 1 =? fy)) (B && (vy + 1 =? fy)) = B && adjp vy fy).
  { unfold adjp. destruct B; cbn [andb]; [|reflexivity]. lia. }
  rewrite X, xorb_assoc, Y. unfold A, B. rewrite (adjp_sym vx fx), (adjp_sym vy fy), (andb_comm (adjp fx vx)). apply xorb_nilpotent.
Qed.

Theorem planar2d_stabilizers_commute Lx Ly s s' :
  2 <= Lx -> 2 <= Ly -> In s (stab_coords Lx Ly) -> In s' (stab_coords Lx Ly) ->
  ops_commute (is_vertex s) (support Lx Ly s) (is_vertex s') (support Lx Ly s') = true.
Proof.
  intros HLx HLy Hs Hs'. unfold ops_commute. destruct (Bool.eqb (is_vertex s) (is_vertex s')) eqn:E; [reflexivity|].
  apply negb_true_iff. destruct s as [vx vy], s' as [fx fy]. unfold is_vertex in E; cbn [fst] in E.
  apply planar2d_cross_overlap_even; try assumption.
  destruct (vx mod 2 =? 0) eqn:A, (fx mod 2 =? 0) eqn:B; cbn in E; try discriminate; lia.
Qed.

Definition table_matches (Lx Ly : Z) (qs ss : list pt) (supports : list (list pt)) : bool :=
  ptl_eqb (qubits Lx Ly) qs && ptl_eqb (stab_coords Lx Ly) ss && ptll_eqb (map (support Lx Ly) (stab_coords Lx Ly)) supports.
