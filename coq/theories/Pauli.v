(** * Pauli: binary symplectic form (BSF) of Pauli operators over [N] bitsets.

    Model of the algebra behind [panqec/bpauli.py] ([bs_prod]) : an n-qubit Pauli operator is a
    pair of bitsets (X part, Z part); the commutation product is the symplectic form. *)
From Coq Require Import NArith PArith Bool List Lia.
From PQ Require Import Bits.
Import ListNotations.
Local Open Scope N_scope.

Record bsf := B { bx : N; bz : N }.

Definition bzero : bsf := B 0 0.
Definition badd (a b : bsf) : bsf := B (N.lxor (bx a) (bx b)) (N.lxor (bz a) (bz b)).
Definition beqb (a b : bsf) : bool := (bx a =? bx b) && (bz a =? bz b).
Definition bbounded (n : N) (a : bsf) : bool := bounded n (bx a) && bounded n (bz a).

(** symplectic form  x_a.z_b + z_a.x_b  (mod 2):  [true] = anticommute *)
Definition sp (a b : bsf) : bool := xorb (dotN (bx a) (bz b)) (dotN (bz a) (bx b)).

Lemma beqb_eq a b : beqb a b = true <-> a = b.
Proof.
  destruct a as [ax az], b as [bx0 bz0]; unfold beqb; cbn.
  rewrite andb_true_iff, !N.eqb_eq. split; [intros [-> ->]; reflexivity | intros H; inversion H; auto].
Qed.

Lemma badd_comm a b : badd a b = badd b a.
Proof. unfold badd. now rewrite (N.lxor_comm (bx a)), (N.lxor_comm (bz a)). Qed.
Lemma badd_assoc a b c : badd a (badd b c) = badd (badd a b) c.
Proof. unfold badd; cbn. now rewrite !N.lxor_assoc. Qed.
Lemma badd_0_l a : badd bzero a = a.
Proof. destruct a as [x z]; unfold badd, bzero; cbn [bx bz]. now rewrite !N.lxor_0_l. Qed.
Lemma badd_0_r a : badd a bzero = a.
Proof. rewrite badd_comm. apply badd_0_l. Qed.
Lemma badd_nilpotent a : badd a a = bzero.
Proof. unfold badd, bzero. now rewrite !N.lxor_nilpotent. Qed.
Lemma badd_eq_zero a b : badd a b = bzero -> a = b.
Proof.
  destruct a as [ax az], b as [bx0 bz0]; unfold badd, bzero; cbn [bx bz]; intros H.
  injection H as H1 H2. apply N.lxor_eq in H1. apply N.lxor_eq in H2. now subst.
Qed.
Lemma badd_cancel_l a b : badd a (badd a b) = b.
Proof. now rewrite badd_assoc, badd_nilpotent, badd_0_l. Qed.

(** ** the symplectic form is bilinear, symmetric and alternating (C03) *)
Lemma sp_comm a b : sp a b = sp b a.
Proof. unfold sp. rewrite (dotN_comm (bx a)), (dotN_comm (bz a)). apply xorb_comm. Qed.
Lemma sp_self a : sp a a = false.
Proof. unfold sp. rewrite (dotN_comm (bz a)). apply xorb_nilpotent. Qed.
Lemma sp_add_l a b c : sp (badd a b) c = xorb (sp a c) (sp b c).
Proof.
  unfold sp, badd; cbn. rewrite !dotN_lxor_l.
  destruct (dotN (bx a) (bz c)), (dotN (bx b) (bz c)), (dotN (bz a) (bx c)), (dotN (bz b) (bx c));
    reflexivity.
Qed.
Lemma sp_add_r a b c : sp c (badd a b) = xorb (sp c a) (sp c b).
Proof. rewrite !(sp_comm c). apply sp_add_l. Qed.
Lemma sp_0_l a : sp bzero a = false.
Proof. reflexivity. Qed.
Lemma sp_0_r a : sp a bzero = false.
Proof. now rewrite sp_comm. Qed.

Lemma bbounded_add n a b : bbounded n a = true -> bbounded n b = true -> bbounded n (badd a b) = true.
Proof.
  unfold bbounded; rewrite !andb_true_iff; intros [? ?] [? ?]; split; cbn; now apply bounded_lxor.
Qed.
Lemma bbounded_0 n : bbounded n bzero = true.
Proof. unfold bbounded; cbn. now rewrite bounded_0. Qed.

(** unit vectors: X on qubit j, Z on qubit j *)
Definition unitX (j : N) : bsf := B (unit j) 0.
Definition unitZ (j : N) : bsf := B 0 (unit j).

Lemma sp_unitX v j : sp v (unitX j) = N.testbit (bz v) j.
Proof. unfold sp, unitX; cbn [bx bz]. now rewrite dotN_0_r, dotN_unit, xorb_false_l. Qed.
Lemma sp_unitZ v j : sp v (unitZ j) = N.testbit (bx v) j.
Proof. unfold sp, unitZ; cbn [bx bz]. now rewrite dotN_0_r, dotN_unit, xorb_false_r. Qed.

(** a bounded operator commuting with every single-qubit X and Z is the identity *)
Lemma bsf_nondegenerate n v :
  bbounded n v = true ->
  (forall j, j < n -> sp v (unitX j) = false) ->
  (forall j, j < n -> sp v (unitZ j) = false) -> v = bzero.
Proof.
  unfold bbounded; rewrite andb_true_iff; intros [Hx Hz] HX HZ.
  destruct v as [x z]; cbn in *. unfold bzero; f_equal.
  - apply (bounded_zero n); [assumption|]. intros i Hi. rewrite <- (sp_unitZ (B x z)). now apply HZ.
  - apply (bounded_zero n); [assumption|]. intros i Hi. rewrite <- (sp_unitX (B x z)). now apply HX.
Qed.

(** ** GF(2) span of a list of operators *)
Inductive span (S : list bsf) : bsf -> Prop :=
| span_zero : span S bzero
| span_add : forall r v, In r S -> span S v -> span S (badd r v).

Lemma span_in S r : In r S -> span S r.
Proof. intros H. rewrite <- (badd_0_r r). apply span_add; [assumption|constructor]. Qed.
Lemma span_plus S u v : span S u -> span S v -> span S (badd u v).
Proof.
  induction 1 as [|r u Hr Hu IH]; intros Hv.
  - now rewrite badd_0_l.
  - rewrite <- badd_assoc. apply span_add; auto.
Qed.
Lemma span_incl S T v : (forall r, In r S -> span T r) -> span S v -> span T v.
Proof.
  intros H. induction 1 as [|r v Hr Hv IH]; [constructor|]. apply span_plus; auto.
Qed.
Lemma span_mono S T v : incl S T -> span S v -> span T v.
Proof. intros H. apply span_incl. intros r Hr. apply span_in. now apply H. Qed.

(** anything commuting with every generator commutes with the whole span *)
Lemma sp_span_r S e v : (forall r, In r S -> sp e r = false) -> span S v -> sp e v = false.
Proof.
  intros H. induction 1 as [|r v Hr Hv IH]; [apply sp_0_r|].
  rewrite sp_add_r, IH, H by assumption. reflexivity.
Qed.
Lemma sp_span_l S e v : (forall r, In r S -> sp r e = false) -> span S v -> sp v e = false.
Proof. intros H Hv. rewrite sp_comm. apply (sp_span_r S); [|assumption]. intros r Hr. rewrite sp_comm; auto. Qed.
Lemma bbounded_span n S v : (forall r, In r S -> bbounded n r = true) -> span S v -> bbounded n v = true.
Proof.
  intros H. induction 1 as [|r v Hr Hv IH]; [apply bbounded_0|]. apply bbounded_add; auto.
Qed.

(** explicit linear combinations *)
Fixpoint combo (cs : list bool) (rows : list bsf) : bsf :=
  match cs, rows with
  | c :: cs', r :: rows' => if c then badd r (combo cs' rows') else combo cs' rows'
  | _, _ => bzero
  end.

Lemma combo_span cs rows : span rows (combo cs rows).
Proof.
  revert cs; induction rows as [|r rows IH]; intros [|c cs]; cbn [combo]; try constructor.
  destruct c.
  - apply span_add; [now left|]. apply (span_mono rows); [intros x Hx; now right|apply IH].
  - apply (span_mono rows); [intros x Hx; now right|apply IH].
Qed.

Lemma span_combo rows v : span rows v -> exists cs, length cs = length rows /\ combo cs rows = v.
Proof.
  assert (Hsingle : forall rows r, In r rows -> exists cs, length cs = length rows /\ combo cs rows = r).
  { clear. induction rows as [|r0 rows IH]; intros r Hin; [destruct Hin|]. destruct Hin as [->|Hin].
    - exists (true :: repeat false (length rows)). cbn [length combo]. rewrite repeat_length. split; [reflexivity|].
      assert (Hz : forall l m, combo (repeat false m) l = bzero).
      { clear. induction l as [|x l IH]; intros [|m]; cbn; auto. }
      now rewrite Hz, badd_0_r.
    - destruct (IH r Hin) as [cs [Hl Hc]]. exists (false :: cs). cbn [length combo]. now rewrite Hl, Hc. }
  assert (Hadd : forall rows cs ds, length cs = length rows -> length ds = length rows ->
            combo (map (fun p => xorb (fst p) (snd p)) (combine cs ds)) rows = badd (combo cs rows) (combo ds rows)).
  { clear. induction rows as [|r rows IH]; intros [|c cs] [|d ds] Hc Hd; cbn in Hc, Hd; try discriminate;
      cbn [combine map combo fst snd]; [now rewrite badd_0_l|].
    rewrite IH by lia. destruct c, d; cbn [xorb].
    - rewrite <- !badd_assoc. rewrite (badd_assoc (combo cs rows)), (badd_comm (combo cs rows) r), <- (badd_assoc r).
      now rewrite (badd_assoc r r), badd_nilpotent, badd_0_l.
    - now rewrite badd_assoc.
    - now rewrite !badd_assoc, (badd_comm (combo cs rows) r).
    - reflexivity. }
  induction 1 as [|r v Hr Hv [ds [Hl Hd]]].
  - exists (repeat false (length rows)). rewrite repeat_length. split; [reflexivity|].
    clear. generalize (length rows) at 1. induction rows as [|x l IH]; intros [|m]; cbn; auto.
  - destruct (Hsingle rows r Hr) as [cs [Hlc Hc]].
    exists (map (fun p => xorb (fst p) (snd p)) (combine cs ds)). split.
    + rewrite map_length, combine_length. lia.
    + rewrite Hadd by assumption. now rewrite Hc, Hd.
Qed.

(** weight = number of qubits on which the operator acts non-trivially *)
Definition bwt (a : bsf) : N := npop (N.lor (bx a) (bz a)).
