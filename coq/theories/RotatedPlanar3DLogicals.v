(** * RotatedPlanar3DLogicals: the logical X line {(x, 1, 1)} and logical Z sheet {(1, y, z)} of [RotatedPlanar3DCode]
    commute with every generator of the other Pauli type and share exactly one qubit, for every size (Layer P). *)
From Coq Require Import ZArith List Bool Lia ZifyBool.
From PQ Require Import Toric2D Toric3D Planar3D RotatedPlanar3D.
Import ListNotations.
Local Open Scope Z_scope.
Ltac Zify.zify_post_hook ::= Z.to_euclidean_division_equations.

Definition lx (Lx : Z) : list pt3 := map (fun x => (x, 1, 1)) (odds Lx).
Definition lz (Ly Lz : Z) : list pt3 := flat_map (fun z => map (fun y => (1, y, z)) (odds Ly)) (odds Lz).

Lemma mem3_lx Lx x y z : mem3 (x, y, z) (lx Lx) = (y =? 1) && (z =? 1) && on_odd Lx x.
Proof.
  apply Bool.eq_true_iff_eq. rewrite mem3_In. unfold lx. rewrite in_map_iff, !andb_true_iff, <- in_odds_iff. split.
  - intros [a [E Ha]]. inversion E; subst. repeat split; try lia; assumption.
  - intros [[E1 E2] Ha]. exists x. split; [|assumption]. repeat (apply pair_equal_spec; split); lia.
Qed.
Lemma mem3_lz Ly Lz x y z : mem3 (x, y, z) (lz Ly Lz) = (x =? 1) && on_odd Ly y && on_odd Lz z.
Proof.
  apply Bool.eq_true_iff_eq. rewrite mem3_In. unfold lz. rewrite in_flat_map, !andb_true_iff, <- !in_odds_iff. split.
  - intros [c [Hc H]]. apply in_map_iff in H. destruct H as [b [E Hb]]. inversion E; subst. repeat split; try lia; assumption.
  - intros [[E1 Hy] Hz]. exists z. split; [assumption|]. apply in_map_iff. exists y. split; [|assumption].
    repeat (apply pair_equal_spec; split); lia.
Qed.

Ltac decide_terms :=
  repeat match goal with
         | |- context[xorb _ ?t] =>
           lazymatch t with true => fail | false => fail
           | _ => first [replace t with false by (unfold RotatedPlanar3D.is_qubit_b, on_odd, on_even; lia)
                        | replace t with true by (unfold RotatedPlanar3D.is_qubit_b, on_odd, on_even; lia)] end
         end.
Ltac open_support :=
  unfold RotatedPlanar3D.support, RotatedPlanar3D.deltas, RotatedPlanar3D.is_vertex;
  repeat match goal with |- context[(?t mod ?m =? ?r)] => first [replace (t mod m =? r) with true by lia | replace (t mod m =? r) with false by lia] end;
  cbn [andb]; rewrite overlap3_filter; cbn [map add3 fold_left]; rewrite ?mem3_lx, ?mem3_lz.

Lemma vertex_vs_lx Lx Ly Lz a b c k : 2 <= Lx -> 2 <= Ly -> 2 <= Lz -> a + b = 2 * k + 1 ->
  2 <= 2 * a <= 2 * Lx - 2 -> 0 <= 2 * b <= 2 * Ly -> 1 <= 2 * c + 1 <= 2 * Lz - 1 ->
  overlap3 (RotatedPlanar3D.support Lx Ly Lz (2 * a, 2 * b, 2 * c + 1)) (lx Lx) = false.
Proof.
  intros HLx HLy HLz Pv Ra Rb Rc. open_support.
  destruct (Z.eq_dec b 0) as [?|?]; [|destruct (Z.eq_dec b 1) as [?|?]]; destruct (Z.eq_dec c 0) as [?|?]; decide_terms; reflexivity.
Qed.
Lemma face_h_vs_lz Lx Ly Lz d e f j : 2 <= Lx -> 2 <= Ly -> 2 <= Lz -> d + e = 2 * j ->
  0 <= 2 * d <= 2 * Lx -> 2 <= 2 * e <= 2 * Ly - 2 -> 1 <= 2 * f + 1 <= 2 * Lz - 1 ->
  overlap3 (RotatedPlanar3D.support Lx Ly Lz (2 * d, 2 * e, 2 * f + 1)) (lz Ly Lz) = false.
Proof.
  intros HLx HLy HLz Pf Rd Re Rf. open_support.
  destruct (Z.eq_dec d 0) as [?|?]; [|destruct (Z.eq_dec d 1) as [?|?]]; decide_terms; reflexivity.
Qed.
Lemma face_v0_vs_lz Lx Ly Lz d e f j : 2 <= Lx -> 2 <= Ly -> 2 <= Lz -> d + e = 2 * j + 1 ->
  1 <= 2 * d + 1 <= 2 * Lx - 1 -> 1 <= 2 * e + 1 <= 2 * Ly - 1 -> 2 <= 2 * f <= 2 * Lz - 2 ->
  overlap3 (RotatedPlanar3D.support Lx Ly Lz (2 * d + 1, 2 * e + 1, 2 * f)) (lz Ly Lz) = false.
Proof. intros HLx HLy HLz Pf Rd Re Rf. open_support. destruct (Z.eq_dec d 0) as [?|?]; decide_terms; reflexivity. Qed.
Lemma face_v2_vs_lz Lx Ly Lz d e f j : 2 <= Lx -> 2 <= Ly -> 2 <= Lz -> d + e = 2 * j ->
  1 <= 2 * d + 1 <= 2 * Lx - 1 -> 1 <= 2 * e + 1 <= 2 * Ly - 1 -> 2 <= 2 * f <= 2 * Lz - 2 ->
  overlap3 (RotatedPlanar3D.support Lx Ly Lz (2 * d + 1, 2 * e + 1, 2 * f)) (lz Ly Lz) = false.
Proof. intros HLx HLy HLz Pf Rd Re Rf. open_support. destruct (Z.eq_dec d 0) as [?|?]; decide_terms; reflexivity. Qed.

Theorem rotated_planar3d_logicals_commute_with_stabilizers Lx Ly Lz s :
  2 <= Lx -> 2 <= Ly -> 2 <= Lz -> In s (RotatedPlanar3D.stab_coords Lx Ly Lz) ->
  (RotatedPlanar3D.is_vertex s = true -> overlap3 (RotatedPlanar3D.support Lx Ly Lz s) (lx Lx) = false) /\
  (RotatedPlanar3D.is_vertex s = false -> overlap3 (RotatedPlanar3D.support Lx Ly Lz s) (lz Ly Lz) = false).
Proof.
  intros HLx HLy HLz Hs. destruct s as [[x y] z]. apply RotatedPlanar3D.stab_cases in Hs. unfold RotatedPlanar3D.is_vertex.
  destruct Hs as [(P1 & R1 & P2 & R2 & P4 & P3 & R3)|[(P1 & R1 & P2 & R2 & P4 & P3 & R3)|(P1 & R1 & P2 & R2 & P3 & R3)]];
    split; intros T; try lia.
  - assert (E1 : exists a, x = 2 * a) by (exists (x / 2); lia). assert (E2 : exists b, y = 2 * b) by (exists (y / 2); lia).
    assert (E3 : exists c, z = 2 * c + 1) by (exists (z / 2); lia). destruct E1 as [a ->], E2 as [b ->], E3 as [c ->].
    assert (E4 : exists k, a + b = 2 * k + 1) by (exists ((a + b) / 2); lia). destruct E4 as [k Pv].
    apply (vertex_vs_lx Lx Ly Lz a b c k); assumption.
  - assert (E1 : exists a, x = 2 * a) by (exists (x / 2); lia). assert (E2 : exists b, y = 2 * b) by (exists (y / 2); lia).
    assert (E3 : exists c, z = 2 * c + 1) by (exists (z / 2); lia). destruct E1 as [a ->], E2 as [b ->], E3 as [c ->].
    assert (E4 : exists j, a + b = 2 * j) by (exists ((a + b) / 2); lia). destruct E4 as [j Pf].
    apply (face_h_vs_lz Lx Ly Lz a b c j); assumption.
  - assert (E1 : exists a, x = 2 * a + 1) by (exists (x / 2); lia). assert (E2 : exists b, y = 2 * b + 1) by (exists (y / 2); lia).
    assert (E3 : exists c, z = 2 * c) by (exists (z / 2); lia). destruct E1 as [a ->], E2 as [b ->], E3 as [c ->].
    destruct (Z.eq_dec ((a + b) mod 2) 0) as [Ev|Od].
    + assert (E4 : exists j, a + b = 2 * j) by (exists ((a + b) / 2); lia). destruct E4 as [j Pf].
      apply (face_v2_vs_lz Lx Ly Lz a b c j); assumption.
    + assert (E4 : exists j, a + b = 2 * j + 1) by (exists ((a + b) / 2); lia). destruct E4 as [j Pf].
      apply (face_v0_vs_lz Lx Ly Lz a b c j); assumption.
Qed.

(** the logical X line and the logical Z sheet share exactly the qubit (1, 1, 1): they anticommute *)
Theorem rotated_planar3d_logical_pairing Lx Ly Lz : 1 <= Lx -> 1 <= Ly -> 1 <= Lz -> overlap3 (lx Lx) (lz Ly Lz) = true.
Proof.
  intros HLx HLy HLz. unfold lx. rewrite overlap3_map.
  apply fold_first_only; [assumption| |intros a Ha]; rewrite mem3_lz; unfold on_odd; lia.
Qed.

Definition logicals_match (Lx Ly Lz : Z) (x1 z1 : list pt3) : bool := pt3l_eqb (lx Lx) x1 && pt3l_eqb (lz Ly Lz) z1.
