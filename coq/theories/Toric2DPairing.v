(** * Toric2DPairing: the X_i / Z_j pairing of the Toric2DCode logicals for every size (Layer P) *)
From Coq Require Import ZArith List Bool Lia ZifyBool.
From PQ Require Import Toric2D.
Import ListNotations.
Local Open Scope Z_scope.
Ltac Zify.zify_post_hook ::= Z.to_euclidean_division_equations.

Lemma fold_xorb_all_false2 {A} (g : A -> bool) l acc : (forall a, In a l -> g a = false) -> fold_left xorb (map g l) acc = acc.
Proof.
  revert acc; induction l as [|a l IH]; intros acc H; cbn [map fold_left]; [reflexivity|].
  rewrite (H a) by now left. rewrite xorb_false_r. apply IH. intros b Hb. apply H. now right.
Qed.
Lemma overlap_par_map {A} (f : A -> pt) l b : overlap_par (map f l) b = fold_left xorb (map (fun a => mem (f a) b) l) false.
Proof. unfold overlap_par. rewrite map_map. reflexivity. Qed.
Lemma odds_cons2 L : 1 <= L -> odds L = 1 :: range2 3 (Z.to_nat (L - 1)).
Proof. intros H. unfold odds. replace (Z.to_nat L) with (S (Z.to_nat (L - 1))) by lia. reflexivity. Qed.
Lemma fold_first_only2 L (g : Z -> bool) : 1 <= L -> g 1 = true -> (forall a, 3 <= a -> g a = false) ->
  fold_left xorb (map g (odds L)) false = true.
Proof.
  intros HL H1 Hr. rewrite odds_cons2 by assumption. cbn [map fold_left]. rewrite H1. cbn [xorb].
  apply fold_xorb_all_false2. intros a Ha. apply Hr. apply in_range2 in Ha. destruct Ha as [k [Hk ->]]. lia.
Qed.

(** logical X_i and Z_j of Toric2DCode share one qubit when i = j and none otherwise *)
Theorem toric2d_logical_pairing Lx Ly : 1 <= Lx -> 1 <= Ly ->
  overlap_par (lx1 Lx) (lz1 Ly) = true /\ overlap_par (lx1 Lx) (lz2 Lx) = false /\
  overlap_par (lx2 Ly) (lz1 Ly) = false /\ overlap_par (lx2 Ly) (lz2 Lx) = true.
Proof.
  intros HLx HLy. unfold lx1, lx2. rewrite !overlap_par_map.
  repeat match goal with |- _ /\ _ => split end;
    first [ apply fold_first_only2; [assumption| |intros a Ha]; rewrite ?mem_lz1, ?mem_lz2 by lia; lia
          | apply fold_xorb_all_false2; intros a Ha; rewrite ?mem_lz1, ?mem_lz2 by lia; lia ].
Qed.
