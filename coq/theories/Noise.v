(** * Noise: the i.i.d. Pauli channel, its deformation, inverse-CDF sampling, error probabilities
    (C07, C18; the noise clause of C08).

    Model over [Q] of [PauliErrorModel.probability_distribution], [fast_choice], [generate],
    [BaseErrorModel.error_probability] and of the priors handed to decoders. *)
From Coq Require Import QArith Qabs Qfield Lqa NArith List Bool Lia.
Import ListNotations.
Local Open Scope Q_scope.

Inductive p4 := I4 | X4 | Y4 | Z4.
Record dist := D4 { pI : Q; pX : Q; pY : Q; pZ : Q }.
Definition get (t : dist) (s : p4) : Q := match s with I4 => pI t | X4 => pX t | Y4 => pY t | Z4 => pZ t end.

(** the undeformed channel: (1-p, p r_x, p r_y, p r_z) *)
Definition chan (p rx ry rz : Q) : dist := D4 (1 - p) (p * rx) (p * ry) (p * rz).

(** a deformation dictionary: the images of X, Y, Z *)
Record ddict := DD { dX : p4; dY : p4; dZ : p4 }.
Definition dapply (d : ddict) (s : p4) : p4 := match s with I4 => I4 | X4 => dX d | Y4 => dY d | Z4 => dZ d end.
Definition did : ddict := DD X4 Y4 Z4.
Definition is_perm (d : ddict) : bool :=
  match dX d, dY d, dZ d with
  | X4, Y4, Z4 | X4, Z4, Y4 | Y4, X4, Z4 | Y4, Z4, X4 | Z4, X4, Y4 | Z4, Y4, X4 => true
  | _, _, _ => false
  end.
(** [p[pauli][i] = previous_p[deformation[pauli]]] *)
Definition permute (d : ddict) (t : dist) : dist := D4 (pI t) (get t (dX d)) (get t (dY d)) (get t (dZ d)).

Definition nonneg (t : dist) : Prop := 0 <= pI t /\ 0 <= pX t /\ 0 <= pY t /\ 0 <= pZ t.
Definition total (t : dist) : Q := pI t + pX t + pY t + pZ t.

(** ** C07: the channel is a probability distribution, and so is every deformed channel *)
Theorem chan_is_distribution p rx ry rz :
  0 <= p -> p <= 1 -> 0 <= rx -> 0 <= ry -> 0 <= rz -> rx + ry + rz == 1 ->
  nonneg (chan p rx ry rz) /\ total (chan p rx ry rz) == 1.
Proof.
  intros Hp0 Hp1 Hx Hy Hz Hs. unfold nonneg, total, chan; cbn [pI pX pY pZ]. repeat split.
  - lra.
  - now apply Qmult_le_0_compat.
  - now apply Qmult_le_0_compat.
  - now apply Qmult_le_0_compat.
  - setoid_replace (1 - p + p * rx + p * ry + p * rz) with (1 - p + p * (rx + ry + rz)) by ring.
    rewrite Hs. ring.
Qed.

(** the deformed model assigns to sigma the probability the undeformed model assigns to D(sigma) *)
Theorem permute_is_relabelling d t s : get (permute d t) s = get t (dapply d s).
Proof. destruct s; reflexivity. Qed.

Theorem permute_is_distribution d t : is_perm d = true -> nonneg t -> total t == 1 ->
  nonneg (permute d t) /\ total (permute d t) == 1.
Proof.
  intros Hd (H0 & H1 & H2 & H3) Ht. unfold nonneg, total, permute, is_perm in *.
  destruct d as [a b c]; cbn [dX dY dZ pI pX pY pZ get] in *.
  destruct a, b, c; try discriminate; cbn [get]; (split; [tauto|]); unfold total in Ht; cbn in Ht; rewrite <- Ht; ring.
Qed.

(** ** inverse-CDF sampling: [fast_choice(('I','X','Y','Z'), [pI,pX,pY,pZ])] on variate u *)
Definition fast_choice (u : Q) (t : dist) : p4 :=
  if Qlt_le_dec u (pI t) then I4
  else if Qlt_le_dec u (pI t + pX t) then X4
  else if Qlt_le_dec u (pI t + pX t + pY t) then Y4
  else if Qlt_le_dec u (pI t + pX t + pY t + pZ t) then Z4
  else Z4.   (* falls through to options[-1] *)

(** the half-open interval of variates mapped to sigma *)
Definition ivl (t : dist) (s : p4) : Q * Q :=
  match s with
  | I4 => (0, pI t)
  | X4 => (pI t, pI t + pX t)
  | Y4 => (pI t + pX t, pI t + pX t + pY t)
  | Z4 => (pI t + pX t + pY t, pI t + pX t + pY t + pZ t)
  end.

(** for EVERY value of the uniform variate in [0,1): the sample is sigma iff u lies in sigma's interval *)
Theorem fast_choice_interval t u s : nonneg t -> total t == 1 -> 0 <= u -> u < 1 ->
  (fast_choice u t = s <-> fst (ivl t s) <= u /\ u < snd (ivl t s)).
Proof.
  intros (H0 & H1 & H2 & H3) Ht Hu0 Hu1. unfold total in Ht. unfold fast_choice.
  destruct (Qlt_le_dec u (pI t)) as [A|A]; [|destruct (Qlt_le_dec u (pI t + pX t)) as [B|B];
    [|destruct (Qlt_le_dec u (pI t + pX t + pY t)) as [C|C];
      [|destruct (Qlt_le_dec u (pI t + pX t + pY t + pZ t)) as [E|E]]]];
    destruct s; cbn [ivl fst snd]; split; intros H; try discriminate; try reflexivity; try (split; lra);
    try (exfalso; destruct H as [Ha Hb]; lra).
Qed.

(** the interval of sigma has length exactly the channel probability of sigma (its measure) *)
Theorem ivl_length t s : snd (ivl t s) - fst (ivl t s) == get t s.
Proof. destruct s; cbn; ring. Qed.

Corollary no_error_at_rate_zero rx ry rz u : 0 <= u -> u < 1 -> fast_choice u (chan 0 rx ry rz) = I4.
Proof. intros H0 H1. unfold fast_choice, chan; cbn [pI]. destruct (Qlt_le_dec u (1 - 0)); [reflexivity|lra]. Qed.

Corollary error_everywhere_at_rate_one rx ry rz u : 0 <= u -> u < 1 -> fast_choice u (chan 1 rx ry rz) <> I4.
Proof.
  intros H0 H1. unfold fast_choice, chan; cbn [pI pX pY pZ]. destruct (Qlt_le_dec u (1 - 1)); [lra|].
  repeat match goal with |- context [Qlt_le_dec ?a ?b] => destruct (Qlt_le_dec a b) end; discriminate.
Qed.

(** sampling a register: qubit i depends only on variate i and on the distribution of qubit i *)
Fixpoint generate (us : list Q) (ds : list dist) : list p4 :=
  match us, ds with u :: us', d :: ds' => fast_choice u d :: generate us' ds' | _, _ => [] end.
Theorem generate_length us ds : length us = length ds -> length (generate us ds) = length ds.
Proof. revert ds; induction us as [|u us IH]; intros [|d ds] H; cbn in *; try discriminate; auto. Qed.
Theorem generate_independent us ds i : length us = length ds -> (i < length ds)%nat ->
  nth i (generate us ds) I4 = fast_choice (nth i us 0) (nth i ds (D4 0 0 0 0)).
Proof.
  revert ds i; induction us as [|u us IH]; intros [|d ds] i H Hi; cbn in *; try discriminate; try lia.
  destruct i as [|i]; [reflexivity|]. apply IH; lia.
Qed.

(** ** C18: the probability of an error is the product of the per-qubit channel probabilities *)
Fixpoint error_probability (ds : list dist) (e : list p4) : Q :=
  match ds, e with d :: ds', s :: e' => get d s * error_probability ds' e' | _, _ => 1 end.
(** ... it equals the volume of the box of variates that [generate] maps to e (consistency with sampling) *)
Fixpoint box_volume (ds : list dist) (e : list p4) : Q :=
  match ds, e with d :: ds', s :: e' => (snd (ivl d s) - fst (ivl d s)) * box_volume ds' e' | _, _ => 1 end.
Theorem error_probability_is_sampling_measure ds e : box_volume ds e == error_probability ds e.
Proof.
  revert e; induction ds as [|d ds IH]; intros [|s e]; cbn; try reflexivity. now rewrite ivl_length, IH.
Qed.

(** all 4^n errors *)
Fixpoint all_errors (n : nat) : list (list p4) :=
  match n with O => [[]] | S m => flat_map (fun s => map (cons s) (all_errors m)) [I4; X4; Y4; Z4] end.
Fixpoint qsum (l : list Q) : Q := match l with [] => 0 | x :: r => x + qsum r end.

Lemma qsum_app a b : qsum (a ++ b) == qsum a + qsum b.
Proof. induction a as [|x a IH]; cbn [app qsum]; [ring|]. rewrite IH. ring. Qed.
Lemma qsum_scale c (f : list p4 -> Q) l : qsum (map (fun e => c * f e) l) == c * qsum (map f l).
Proof. induction l as [|x l IH]; cbn [map qsum]; [ring|]. rewrite IH. ring. Qed.

Theorem error_probabilities_sum_to_one ds : (forall d, In d ds -> total d == 1) ->
  qsum (map (error_probability ds) (all_errors (length ds))) == 1.
Proof.
  induction ds as [|d ds IH]; intros H; [cbn [length all_errors map qsum error_probability]; ring|].
  assert (IH' : qsum (map (error_probability ds) (all_errors (length ds))) == 1) by (apply IH; intros; apply H; now right).
  assert (Hd : total d == 1) by (apply H; now left). unfold total in Hd.
  cbn [length all_errors flat_map]. rewrite !map_app, !qsum_app, !map_map. cbn [map app qsum].
  cbn [error_probability]. rewrite !qsum_scale, IH'. cbn [get].
  transitivity (pI d + pX d + pY d + pZ d); [ring|exact Hd].
Qed.

(** the log form is the sum of the logs of the same factors: stated on the factor list *)
Fixpoint factors (ds : list dist) (e : list p4) : list Q :=
  match ds, e with d :: ds', s :: e' => get d s :: factors ds' e' | _, _ => [] end.
Theorem error_probability_is_product_of_factors ds e : error_probability ds e == fold_right Qmult 1 (factors ds e).
Proof. revert e; induction ds as [|d ds IH]; intros [|s e]; cbn; try reflexivity. now rewrite IH. Qed.

(** Metropolis ratio uses true likelihood ratios: ratio of products = product of per-qubit ratios where they differ;
    in particular replacing the Pauli on one qubit changes the probability by exactly that qubit's ratio *)
Theorem single_qubit_change_ratio d ds s s' e :
  error_probability (d :: ds) (s' :: e) * get d s == error_probability (d :: ds) (s :: e) * get d s'.
Proof. cbn. ring. Qed.

(** *** the Y-mask of the code before the fix: [x == z] also matches identity qubits *)
Definition get_buggy (t : dist) (s : p4) : Q :=
  match s with I4 => pI t + pY t | X4 => pX t | Y4 => pY t | Z4 => pZ t end.
Example y_mask_refuted :
  let t := chan (1#4) (1#4) (1#2) (1#4) in
  ~ (get_buggy t I4 + get_buggy t X4 + get_buggy t Y4 + get_buggy t Z4 == 1).
Proof. cbn. intros H. vm_compute in H. discriminate. Qed.

(** ** priors handed to decoders *)
(** X-flip marginal p_x + p_y, Z-flip marginal p_z + p_y *)
Definition mx (t : dist) : Q := pX t + pY t.
Definition mz (t : dist) : Q := pZ t + pY t.
(** BP channel probabilities in CSS mode: (m_x | m_z); in full symplectic mode the vector is [m_z | m_x] *)
Definition bp_css (ds : list dist) : list Q * list Q := (map mx ds, map mz ds).
Definition bp_full (ds : list dist) : list Q := map mz ds ++ map mx ds.
(** conditional update: P(X-flip | Z-flip) = p_y / (p_z + p_y),  P(X-flip | no Z-flip) = p_x / (1 - p_z - p_y) *)
Definition upd_zx (t : dist) (zflip : bool) : Q :=
  if zflip then (if Qeq_bool (pZ t + pY t) 0 then 0 else pY t / (pZ t + pY t)) else pX t / (1 - pZ t - pY t).
Definition upd_xz (t : dist) (xflip : bool) : Q :=
  if xflip then (if Qeq_bool (pX t + pY t) 0 then 0 else pY t / (pX t + pY t)) else pZ t / (1 - pX t - pY t).

(** these are the conditional probabilities of the channel: joint / marginal *)
Theorem upd_zx_is_conditional t : total t == 1 ->
  (~ mz t == 0 -> upd_zx t true * mz t == pY t) /\ (~ 1 - mz t == 0 -> upd_zx t false * (pI t + pX t) == pX t).
Proof.
  intros Ht. unfold total in Ht. unfold upd_zx, mz. split; intros Hn.
  - destruct (Qeq_bool (pZ t + pY t) 0) eqn:E; [apply Qeq_bool_iff in E; contradiction|]. field. exact Hn.
  - setoid_replace (pI t + pX t) with (1 - pZ t - pY t) by (rewrite <- Ht; ring). field.
    intros H. apply Hn. rewrite <- H. ring.
Qed.

(** odds used by the matching weights: w = -ln(m / (1 - m)); larger marginal <-> larger odds, and
    odds < 1 (positive weight) exactly when the marginal is below 1/2 *)
Definition odds (m : Q) : Q := m / (1 - m).
Lemma Qdiv_lt_iff a b c : 0 < c -> (a / c < b <-> a < b * c).
Proof.
  intros Hc. split; intros H.
  - setoid_replace a with (a / c * c) by (field; lra). now apply Qmult_lt_compat_r.
  - apply Qlt_shift_div_r; assumption.
Qed.
Theorem odds_monotone m m' : 0 <= m -> m < m' -> m' < 1 -> odds m < odds m'.
Proof.
  intros H0 H1 H2. unfold odds.
  assert (A : 0 < 1 - m) by lra. assert (B : 0 < 1 - m') by lra.
  apply Qdiv_lt_iff; [assumption|].
  setoid_replace (m' / (1 - m') * (1 - m)) with ((m' * (1 - m)) / (1 - m')) by (field; lra).
  apply Qlt_shift_div_l; [assumption|]. nra.
Qed.
Theorem odds_below_one_iff m : 0 <= m -> m < 1 -> (odds m < 1 <-> m < 1 # 2).
Proof.
  intros H0 H1. unfold odds. assert (A : 0 < 1 - m) by lra.
  rewrite (Qdiv_lt_iff m 1 (1 - m) A). split; intros H; lra.
Qed.

(** ** boolean checkers for the correspondence runs *)
Definition dist_eqb (a b : dist) : bool :=
  Qeq_bool (pI a) (pI b) && Qeq_bool (pX a) (pX b) && Qeq_bool (pY a) (pY b) && Qeq_bool (pZ a) (pZ b).
Fixpoint forallb2 {A B} (f : A -> B -> bool) (l : list A) (m : list B) : bool :=
  match l, m with [], [] => true | x :: l', y :: m' => f x y && forallb2 f l' m' | _, _ => false end.
(** implementation's per-qubit distributions = model channel relabelled by the per-qubit dictionaries *)
Definition dists_ok (p rx ry rz : Q) (dicts : list ddict) (impl : list dist) : bool :=
  forallb is_perm dicts && forallb2 (fun d t => dist_eqb (permute d (chan p rx ry rz)) t) dicts impl.
Definition p4_eqb (a b : p4) : bool := match a, b with I4, I4 | X4, X4 | Y4, Y4 | Z4, Z4 => true | _, _ => false end.
Definition sample_ok (us : list Q) (ds : list dist) (out : list p4) : bool := forallb2 p4_eqb (generate us ds) out.
Definition close (a b : Q) : bool := Qle_bool (Qabs (a - b)) (1 # 1125899906842624).   (* 2^-50 *)
Definition upd_ok (ds : list dist) (corr : list bool) (zx xz : list Q) : bool :=
  forallb2 (fun p v => close (upd_zx (fst p) (snd p)) v) (combine ds corr) zx
  && forallb2 (fun p v => close (upd_xz (fst p) (snd p)) v) (combine ds corr) xz.
Definition bp_css_ok (ds : list dist) (cx cz : list Q) : bool :=
  forallb2 Qeq_bool (fst (bp_css ds)) cx && forallb2 Qeq_bool (snd (bp_css ds)) cz.
Definition bp_full_ok (ds : list dist) (c : list Q) : bool := forallb2 Qeq_bool (bp_full ds) c.
(** C18: the implementation's probabilities of ALL 4^n errors (in integer order: bit i of v = entry i of [x|z]) *)
Definition err_of (n : nat) (v : N) : list p4 :=
  map (fun i => match N.testbit v (N.of_nat i), N.testbit v (N.of_nat (n + i)) with
                | false, false => I4 | true, false => X4 | true, true => Y4 | false, true => Z4 end) (seq 0 n).
Definition probs_ok (ds : list dist) (vals : list Q) : bool :=
  let n := length ds in
  forallb2 (fun k v => Qeq_bool (error_probability ds (err_of n (N.of_nat k))) v) (seq 0 (length vals)) vals
  && Qeq_bool (qsum vals) 1 && Nat.eqb (length vals) (4 ^ n).
