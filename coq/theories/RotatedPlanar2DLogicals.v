(** * RotatedPlanar2DLogicals: the logical X row and the logical Z column of [RotatedPlanar2DCode] commute with every
    generator of the other Pauli type, lie on qubits of the lattice and share exactly one qubit, for every size (Layer P). *)
From Coq Require Import ZArith List Bool Lia ZifyBool.
From PQ Require Import Toric2D Toric2DPairing Planar2D RotatedPlanar2D.
Import ListNotations.
Local Open Scope Z_scope.
Ltac Zify.zify_post_hook ::= Z.to_euclidean_division_equations.

(** `get_logicals_x`: X on (x, 1) for x in range(1, 2 L_x + 1, 2); `get_logicals_z`: Z on (1, y) for y in range(1, 2 L_y + 1, 2) *)
Definition lx (Lx : Z) : list pt := map (fun x => (x, 1)) (odds Lx).
Definition lz (Ly : Z) : list pt := map (fun y => (1, y)) (odds Ly).

Lemma mem_lx Lx x y : 0 < Lx -> mem (x, y) (lx Lx) = ((y =? 1) && (0 <=? x) && (x <? 2 * Lx) && (x mod 2 =? 1)).
Proof.
  intros H. apply Bool.eq_true_iff_eq. rewrite mem_In. unfold lx, odds. rewrite in_map_iff. split.
  - intros [x' [E Hx]]. injection E as -> <-. apply in_range2 in Hx. destruct Hx as [k [Hk ->]]. lia.
  - intros Hb. exists x. split; [f_equal; lia|]. apply in_range2. exists (x / 2). lia.
Qed.
Lemma mem_lz Ly x y : 0 < Ly -> mem (x, y) (lz Ly) = ((x =? 1) && (0 <=? y) && (y <? 2 * Ly) && (y mod 2 =? 1)).
Proof.
  intros H. apply Bool.eq_true_iff_eq. rewrite mem_In. unfold lz, odds. rewrite in_map_iff. split.
  - intros [y' [E Hy]]. injection E as <- ->. apply in_range2 in Hy. destruct Hy as [k [Hk ->]]. lia.
  - intros Hb. exists y. split; [f_equal; lia|]. apply in_range2. exists (y / 2). lia.
Qed.

Ltac decide_terms_r :=
  repeat match goal with
         | |- context[xorb _ ?t] =>
           lazymatch t with true => fail | false => fail
           | _ => first [replace t with false by (unfold RotatedPlanar2D.is_qubit_b; lia)
                        | replace t with true by (unfold RotatedPlanar2D.is_qubit_b; lia)] end
         end.

(** a vertex generator (Z-type) meets the logical X row on 0 or 2 qubits (2 exactly when it sits at y = 0 or y = 2) *)
Lemma vertex_vs_lx Lx Ly a b : 2 <= Lx -> 2 <= Ly ->
  2 <= 2 * a <= 2 * Lx - 2 -> 0 <= 2 * b <= 2 * Ly ->
  overlap_par (RotatedPlanar2D.support Lx Ly (2 * a, 2 * b)) (lx Lx) = false.
Proof.
  intros HLx HLy Ra Rb. unfold RotatedPlanar2D.support. rewrite Planar2D.overlap_filter.
  cbn [RotatedPlanar2D.dnbrs map fold_left]. rewrite !mem_lx by lia.
  destruct (Z.eq_dec b 0) as [?|?]; [|destruct (Z.eq_dec b 1) as [?|?]]; decide_terms_r; reflexivity.
Qed.
(** a face generator (X-type) meets the logical Z column on 0 or 2 qubits (2 exactly when it sits at x = 0 or x = 2) *)
Lemma face_vs_lz Lx Ly d e : 2 <= Lx -> 2 <= Ly ->
  0 <= 2 * d <= 2 * Lx -> 2 <= 2 * e <= 2 * Ly - 2 ->
  overlap_par (RotatedPlanar2D.support Lx Ly (2 * d, 2 * e)) (lz Ly) = false.
Proof.
  intros HLx HLy Rd Re. unfold RotatedPlanar2D.support. rewrite Planar2D.overlap_filter.
  cbn [RotatedPlanar2D.dnbrs map fold_left]. rewrite !mem_lz by lia.
  destruct (Z.eq_dec d 0) as [?|?]; [|destruct (Z.eq_dec d 1) as [?|?]]; decide_terms_r; reflexivity.
Qed.

Theorem rotated_planar2d_logicals_commute_with_stabilizers Lx Ly s :
  2 <= Lx -> 2 <= Ly -> In s (RotatedPlanar2D.stab_coords Lx Ly) ->
  (RotatedPlanar2D.is_vertex s = true -> overlap_par (RotatedPlanar2D.support Lx Ly s) (lx Lx) = false) /\
  (RotatedPlanar2D.is_vertex s = false -> overlap_par (RotatedPlanar2D.support Lx Ly s) (lz Ly) = false).
Proof.
  intros HLx HLy Hs. destruct s as [x y]. apply RotatedPlanar2D.stab_range in Hs. unfold RotatedPlanar2D.is_vertex; cbn [fst snd].
  destruct Hs as [(P0 & P1 & P2 & R1 & R2)|(P0 & P1 & P2 & R1 & R2)]; split; intros T; try lia.
  - assert (E1 : exists a, x = 2 * a) by (exists (x / 2); lia). assert (E2 : exists b, y = 2 * b) by (exists (y / 2); lia).
    destruct E1 as [a ->], E2 as [b ->]. apply vertex_vs_lx; assumption.
  - assert (E1 : exists a, x = 2 * a) by (exists (x / 2); lia). assert (E2 : exists b, y = 2 * b) by (exists (y / 2); lia).
    destruct E1 as [a ->], E2 as [b ->]. apply face_vs_lz; assumption.
Qed.

(** the logical X row and the logical Z column share exactly the qubit (1, 1) *)
Theorem rotated_planar2d_logical_pairing Lx Ly : 1 <= Lx -> 1 <= Ly -> overlap_par (lx Lx) (lz Ly) = true.
Proof.
  intros H1 H2. unfold lx. rewrite overlap_par_map.
  apply fold_first_only2; [assumption| |intros a Ha]; rewrite mem_lz by lia; lia.
Qed.

(** every qubit of both logicals is a qubit of the lattice *)
Theorem rotated_planar2d_logicals_on_qubits Lx Ly q : 1 <= Lx -> 1 <= Ly ->
  (mem q (lx Lx) = true -> RotatedPlanar2D.is_qubit_b Lx Ly q = true) /\ (mem q (lz Ly) = true -> RotatedPlanar2D.is_qubit_b Lx Ly q = true).
Proof.
  intros H1 H2. destruct q as [x y]. rewrite mem_lx, mem_lz by lia. unfold RotatedPlanar2D.is_qubit_b. split; intros H; lia.
Qed.

Definition logicals_match (Lx Ly : Z) (x1 z1 : list pt) : bool := ptl_eqb (lx Lx) x1 && ptl_eqb (lz Ly) z1.
