(** * Spec: expansion of input specifications into simulations (C13).

    Model of [_parse_parameters_range], [_parse_all_ranges] and [get_simulations]: a "ranges"
    specification is four axes (code parameter sets, noise parameter sets, decoder parameter sets,
    error rates); the simulations are their Cartesian product in [itertools.product] order; a list
    of ranges is the concatenation; explicit "runs" are taken one by one. *)
From Coq Require Import Arith List Bool Lia FinFun.
Import ListNotations.

Section Expand.
  Variables A B C D : Type.

  Definition expand (cs : list A) (ns : list B) (ds : list C) (rs : list D) : list (A * B * C * D) :=
    flat_map (fun c => flat_map (fun n => flat_map (fun d => map (fun r => (c, n, d, r)) rs) ds) ns) cs.

  Lemma flat_map_length_const {X Y} (f : X -> list Y) (l : list X) k :
    (forall x, In x l -> length (f x) = k) -> length (flat_map f l) = length l * k.
  Proof.
    induction l as [|x l IH]; intros H; [reflexivity|]. cbn [flat_map length]. rewrite app_length, IH, (H x); [lia|now left|].
    intros y Hy. apply H. now right.
  Qed.

  (** one simulation per element of the product: the count is the product of the axis lengths *)
  Theorem expand_length cs ns ds rs :
    length (expand cs ns ds rs) = length cs * length ns * length ds * length rs.
  Proof.
    unfold expand.
    rewrite (flat_map_length_const _ cs (length ns * length ds * length rs)); [lia|]. intros c _.
    rewrite (flat_map_length_const _ ns (length ds * length rs)); [lia|]. intros n _.
    rewrite (flat_map_length_const _ ds (length rs)); [lia|]. intros d _. apply map_length.
  Qed.

  (** none dropped, nothing else: a tuple is produced iff each component was requested on its axis *)
  Theorem expand_In cs ns ds rs c n d r :
    In (c, n, d, r) (expand cs ns ds rs) <-> In c cs /\ In n ns /\ In d ds /\ In r rs.
  Proof.
    unfold expand. rewrite in_flat_map. split.
    - intros [c' [Hc H]]. rewrite in_flat_map in H. destruct H as [n' [Hn H]].
      rewrite in_flat_map in H. destruct H as [d' [Hd H]]. rewrite in_map_iff in H. destruct H as [r' [E Hr]].
      injection E as -> -> -> ->. auto.
    - intros (Hc & Hn & Hd & Hr). exists c. split; [assumption|]. rewrite in_flat_map. exists n. split; [assumption|].
      rewrite in_flat_map. exists d. split; [assumption|]. rewrite in_map_iff. exists r. auto.
  Qed.

  (** none duplicated when no axis lists a value twice *)
  Theorem expand_NoDup cs ns ds rs :
    NoDup cs -> NoDup ns -> NoDup ds -> NoDup rs -> NoDup (expand cs ns ds rs).
  Proof.
    intros Hc Hn Hd Hr. unfold expand.
    assert (ND : forall {X Y} (f : X -> list Y) (l : list X),
               NoDup l -> (forall x, In x l -> NoDup (f x)) ->
               (forall x x' y, In x l -> In x' l -> In y (f x) -> In y (f x') -> x = x') -> NoDup (flat_map f l)).
    { clear. intros X Y f l H. induction H as [|x l Hx Hl IH]; intros Hf Hdis; [constructor|]. cbn [flat_map].
      assert (Happ : forall (a b : list Y), NoDup a -> NoDup b -> (forall y, In y a -> ~ In y b) -> NoDup (a ++ b)).
      { clear. induction a as [|y a IHa]; intros b Ha Hb Hab; [assumption|]. cbn. inversion Ha; subst. constructor.
        - rewrite in_app_iff. intros [H|H]; [contradiction|]. apply (Hab y); [now left|assumption].
        - apply IHa; auto. intros z Hz. apply Hab. now right. }
      apply Happ.
      - apply Hf. now left.
      - apply IH; [intros y Hy; apply Hf; now right|]. intros a b y Ha Hb. apply Hdis; now right.
      - intros y Hy Hin. apply in_flat_map in Hin. destruct Hin as [x' [Hx' Hy']].
        assert (x = x') by (apply (Hdis x x' y); [now left|now right|assumption|assumption]). subst. contradiction. }
    apply ND; [assumption| |].
    - intros c _. apply ND; [assumption| |].
      + intros n _. apply ND; [assumption| |].
        * intros d _. apply Injective_map_NoDup; [|assumption]. intros r r' E. now injection E.
        * intros d d' y _ _ H1 H2. apply in_map_iff in H1, H2. destruct H1 as [r [<- _]], H2 as [r' [E _]]. now injection E.
      + intros n n' y _ _ H1 H2. apply in_flat_map in H1, H2. destruct H1 as [d [_ H1]], H2 as [d' [_ H2]].
        apply in_map_iff in H1, H2. destruct H1 as [r [<- _]], H2 as [r' [E _]]. now injection E.
    - intros c c' y _ _ H1 H2. apply in_flat_map in H1, H2. destruct H1 as [n [_ H1]], H2 as [n' [_ H2]].
      apply in_flat_map in H1, H2. destruct H1 as [d [_ H1]], H2 as [d' [_ H2]].
      apply in_map_iff in H1, H2. destruct H1 as [r [<- _]], H2 as [r' [E _]]. now injection E.
  Qed.

  (** a list of ranges is the concatenation of the expansions of its members *)
  Definition expand_many (specs : list (list A * list B * list C * list D)) : list (A * B * C * D) :=
    flat_map (fun s => match s with (cs, ns, ds, rs) => expand cs ns ds rs end) specs.
  Theorem expand_many_length specs :
    length (expand_many specs) =
    fold_right (fun s acc => match s with (cs, ns, ds, rs) => length cs * length ns * length ds * length rs end + acc) 0 specs.
  Proof.
    induction specs as [|[[[cs ns] ds] rs] specs IH]; [reflexivity|]. cbn [expand_many flat_map fold_right].
    rewrite app_length, expand_length. unfold expand_many in IH. now rewrite IH.
  Qed.
End Expand.

(** [_parse_parameters_range]: an empty container means one default parameter set; a list is a range;
    a single dict is a range of one *)
Inductive pform (P : Type) := PEmpty | PList (l : list P) | PSingle (p : P).
Arguments PEmpty {P}. Arguments PList {P}. Arguments PSingle {P}.
Definition parse_range {P} (dflt : P) (f : pform P) : list P :=
  match f with PEmpty => [dflt] | PList [] => [dflt] | PList l => l | PSingle p => [p] end.
Theorem parse_range_nonempty {P} (dflt : P) f : parse_range dflt f <> [].
Proof. destruct f as [|[|x l]|p]; discriminate. Qed.

(** index form used by the correspondence check: positions on each axis *)
Definition expand_idx (a b c d : nat) : list (nat * nat * nat * nat) := expand nat nat nat nat (seq 0 a) (seq 0 b) (seq 0 c) (seq 0 d).
Fixpoint idx_eqb (x y : list (nat * nat * nat * nat)) : bool :=
  match x, y with
  | [], [] => true
  | (a, b, c, d) :: x', (a', b', c', d') :: y' => Nat.eqb a a' && Nat.eqb b b' && Nat.eqb c c' && Nat.eqb d d' && idx_eqb x' y'
  | _, _ => false
  end.
