(** * Resume: batch simulation run / checkpoint / stop / restart as a state machine (C12).

    Model of [BatchSimulation._run] with the atomic checkpoint write ([save_json] writes a temporary
    file and renames it over the results file, so the file on disk is always the last COMPLETED save):
    - [load]: every simulation of the specification adopts the trials of the first entry on disk whose
      recorded inputs are EQUAL to its own ([_find_current_simulation]), else starts empty;
    - iterations i = m .. T-1 (m = fewest trials loaded): each simulation with fewer than T trials
      runs one more; after iteration i the whole memory state is saved if the save schedule says so
      or i = T-1;
    - a stop (KeyboardInterrupt, kill, kill inside a checkpoint write) after any number of iterations
      leaves on disk either the old file or the memory state of one of the save points.
    Trials are abstract values produced by an arbitrary generator. *)
From Coq Require Import Arith List Bool Lia.
Import ListNotations.

Section Resume.
  Variables key tok : Type.
  Variable keq : key -> key -> bool.
  Hypothesis keq_spec : forall a b, keq a b = true <-> a = b.
  Variable gen : nat -> key -> nat -> tok.     (* run id, simulation, index of the trial *)

  Definition sim := (key * list tok)%type.
  Local Notation disk := (list sim).

  Fixpoint lookup (k : key) (d : disk) : option (list tok) :=
    match d with [] => None | (k', t) :: r => if keq k' k then Some t else lookup k r end.
  Definition get (k : key) (d : disk) : list tok := match lookup k d with Some t => t | None => [] end.

  Definition load (spec : list key) (d : disk) : list sim := map (fun k => (k, get k d)) spec.

  Definition step1 (T run : nat) (s : sim) : sim :=
    if length (snd s) <? T then (fst s, snd s ++ [gen run (fst s) (length (snd s))]) else s.
  Definition iter (T run : nat) (mem : list sim) : list sim := map (step1 T run) mem.

  Fixpoint grow (T run n : nat) (s : sim) : sim := match n with O => s | S n' => grow T run n' (step1 T run s) end.

  Definition minlen (mem : list sim) : nat :=
    match mem with [] => 0 | s :: r => fold_right (fun x acc => Nat.min (length (snd x)) acc) (length (snd s)) r end.

  (** [n] iterations starting at index [i]; returns (memory, disk) *)
  Fixpoint loop (n i T run : nat) (sched : nat -> bool) (mem : list sim) (d : disk) : list sim * disk :=
    match n with
    | O => (mem, d)
    | S n' =>
        let mem' := iter T run mem in
        let d' := if sched i || (i =? T - 1) then mem' else d in
        loop n' (S i) T run sched mem' d'
    end.

  (** a run stopped after at most [stop] iterations (stop >= T - m: runs to completion) *)
  Definition run_batch (spec : list key) (d : disk) (T run : nat) (sched : nat -> bool) (stop : nat) : disk :=
    let mem := load spec d in
    let m := minlen mem in
    snd (loop (Nat.min stop (T - m)) m T run sched mem d).

  (** ** one simulation *)
  Lemma step1_fst T run s : fst (step1 T run s) = fst s.
  Proof. unfold step1. destruct (length (snd s) <? T); reflexivity. Qed.
  Lemma grow_fst T run n s : fst (grow T run n s) = fst s.
  Proof. revert s; induction n as [|n IH]; intros s; cbn; [reflexivity|]. now rewrite IH, step1_fst. Qed.

  Lemma step1_len T run s : length (snd (step1 T run s)) = if length (snd s) <? T then S (length (snd s)) else length (snd s).
  Proof. unfold step1. destruct (length (snd s) <? T); cbn; [rewrite app_length; cbn; lia|reflexivity]. Qed.

  Lemma grow_len T run n s : length (snd (grow T run n s)) = Nat.max (length (snd s)) (Nat.min T (length (snd s) + n)).
  Proof.
    revert s; induction n as [|n IH]; intros s; cbn [grow]; [lia|]. rewrite IH, step1_len.
    destruct (Nat.ltb_spec (length (snd s)) T); lia.
  Qed.

  Lemma step1_prefix T run s : exists fresh, snd (step1 T run s) = snd s ++ fresh.
  Proof. unfold step1. destruct (length (snd s) <? T); [eexists; reflexivity|exists []; now rewrite app_nil_r]. Qed.
  Lemma grow_prefix T run n s : exists fresh, snd (grow T run n s) = snd s ++ fresh.
  Proof.
    revert s; induction n as [|n IH]; intros s; cbn [grow]; [exists []; now rewrite app_nil_r|].
    destruct (IH (step1 T run s)) as [f1 H1]. destruct (step1_prefix T run s) as [f0 H0].
    exists (f0 ++ f1). now rewrite H1, H0, app_assoc.
  Qed.

  (** ** the loop: memory after n iterations, disk = old disk or the memory at some save point *)
  Lemma iter_grow T run n mem : map (grow T run n) (iter T run mem) = map (grow T run (S n)) mem.
  Proof. unfold iter. rewrite map_map. reflexivity. Qed.

  Lemma loop_mem n : forall i T run sched mem d, fst (loop n i T run sched mem d) = map (grow T run n) mem.
  Proof.
    induction n as [|n IH]; intros; cbn [loop fst]; [now rewrite map_id|]. rewrite IH. apply iter_grow.
  Qed.

  Lemma loop_disk n : forall i T run sched mem d,
    snd (loop n i T run sched mem d) = d \/ exists j, j <= n /\ 0 < j /\ snd (loop n i T run sched mem d) = map (grow T run j) mem.
  Proof.
    induction n as [|n IH]; intros i T run sched mem d; [now left|].
    change (loop (S n) i T run sched mem d)
      with (loop n (S i) T run sched (iter T run mem) (if sched i || (i =? T - 1) then iter T run mem else d)).
    set (d' := if sched i || (i =? T - 1) then iter T run mem else d).
    destruct (IH (S i) T run sched (iter T run mem) d') as [H|[j [Hj [Hp H]]]].
    - rewrite H. unfold d'. destruct (sched i || (i =? T - 1)); [|now left].
      right. exists 1. split; [lia|]. split; [lia|]. reflexivity.
    - right. exists (S j). split; [lia|]. split; [lia|]. rewrite H. apply iter_grow.
  Qed.

  (** when the loop runs through its last iteration (index T-1) the final memory is what is on disk *)
  Lemma loop_complete n : forall i T run sched mem d, 0 < n -> i + n = T ->
    snd (loop n i T run sched mem d) = map (grow T run n) mem.
  Proof.
    induction n as [|n IH]; intros i T run sched mem d Hn Hi; [lia|]. cbn [loop].
    destruct n as [|n'].
    - cbn [loop snd]. replace (i =? T - 1) with true by (symmetry; apply Nat.eqb_eq; lia).
      rewrite orb_true_r. cbn. reflexivity.
    - rewrite IH by lia. apply iter_grow.
  Qed.

  (** ** lookups in a memory state *)
  Lemma lookup_map_in (f : key -> list tok) spec k : NoDup spec -> In k spec ->
    lookup k (map (fun k' => (k', f k')) spec) = Some (f k).
  Proof.
    induction spec as [|k0 spec IH]; intros Hnd Hin; [destruct Hin|]. cbn [map lookup].
    destruct (keq k0 k) eqn:E.
    - apply keq_spec in E. now subst.
    - inversion Hnd; subst. destruct Hin as [->|Hin]; [|now apply IH].
      assert (keq k k = true) by now apply keq_spec. congruence.
  Qed.

  Lemma map_grow_load T run n spec d :
    map (grow T run n) (load spec d) = map (fun k => (k, snd (grow T run n (k, get k d)))) spec.
  Proof.
    unfold load. rewrite map_map. apply map_ext. intros k.
    rewrite (surjective_pairing (grow T run n (k, get k d))). now rewrite grow_fst.
  Qed.

  (** what a run leaves on disk for a simulation of the specification: the loaded trials, extended *)
  Theorem run_extends spec d T run sched stop k : NoDup spec -> In k spec ->
    run_batch spec d T run sched stop = d \/
    exists j fresh, get k (run_batch spec d T run sched stop) = get k d ++ fresh /\
                    length (get k (run_batch spec d T run sched stop)) = Nat.max (length (get k d)) (Nat.min T (length (get k d) + j)).
  Proof.
    intros Hnd Hin. unfold run_batch.
    destruct (loop_disk (Nat.min stop (T - minlen (load spec d))) (minlen (load spec d)) T run sched (load spec d) d) as [H|[j [_ [_ H]]]].
    - now left.
    - right. rewrite H, map_grow_load.
      assert (Hget : get k (map (fun k' => (k', snd (grow T run j (k', get k' d)))) spec) = snd (grow T run j (k, get k d))).
      { unfold get at 1. now rewrite (lookup_map_in (fun k' => snd (grow T run j (k', get k' d))) spec k Hnd Hin). }
      rewrite Hget.
      destruct (grow_prefix T run j (k, get k d)) as [fresh Hf]. exists j, fresh. cbn [snd] in Hf. split; [exact Hf|].
      rewrite grow_len. reflexivity.
  Qed.

  (** the first match on disk is adopted only for an EQUAL key: results of a different
      (code, noise, decoder, error rate) are never adopted *)
  Theorem adopts_only_equal_key k d t : lookup k d = Some t -> exists k', In (k', t) d /\ k' = k.
  Proof.
    induction d as [|[k0 t0] d IH]; intros H; [discriminate|]. cbn in H. destruct (keq k0 k) eqn:E.
    - injection H as <-. apply keq_spec in E. exists k0. split; [now left|assumption].
    - destruct (IH H) as [k' [Hin Hk]]. exists k'. split; [now right|assumption].
  Qed.

  Lemma minlen_le mem s : In s mem -> minlen mem <= length (snd s).
  Proof.
    destruct mem as [|s0 r]; [intros []|]. cbn [minlen].
    assert (G : forall (r : list sim) (a : nat), fold_right (fun x acc => Nat.min (length (snd x)) acc) a r <= a /\
                            forall s, In s r -> fold_right (fun x acc => Nat.min (length (snd x)) acc) a r <= length (snd s)).
    { clear. induction r as [|x r IH]; intros a; cbn; [split; [lia|intros s []]|].
      destruct (IH a) as [I1 I2]. split; [lia|]. intros s [<-|Hs]; [lia|]. specialize (I2 s Hs). lia. }
    destruct (G r (length (snd s0))) as [G1 G2]. intros [<-|Hs]; [exact G1|now apply G2].
  Qed.

  (** *** a run that is not stopped ends with EXACTLY T trials for every simulation of the
      specification (given none had more than T), each list being the loaded one extended *)
  Theorem run_to_completion_exact spec d T run sched stop k :
    NoDup spec -> In k spec -> (forall k', In k' spec -> length (get k' d) <= T) ->
    T - minlen (load spec d) <= stop ->
    let d' := run_batch spec d T run sched stop in
    length (get k d') = T /\ exists fresh, get k d' = get k d ++ fresh.
  Proof.
    intros Hnd Hin Hb Hstop. cbn zeta. unfold run_batch.
    set (mem := load spec d). set (m := minlen mem).
    assert (Hm : m <= length (get k d)).
    { apply (minlen_le mem (k, get k d)). unfold mem, load. apply in_map_iff. exists k. auto. }
    replace (Nat.min stop (T - m)) with (T - m) by (unfold m, mem in *; lia).
    destruct (Nat.eq_dec (T - m) 0) as [Hz|Hnz].
    - rewrite Hz. cbn [loop snd]. specialize (Hb k Hin). split; [lia|exists []; now rewrite app_nil_r].
    - rewrite loop_complete by lia. unfold mem. rewrite map_grow_load.
      assert (Hget : get k (map (fun k' => (k', snd (grow T run (T - m) (k', get k' d)))) spec) = snd (grow T run (T - m) (k, get k d))).
      { unfold get at 1. now rewrite (lookup_map_in (fun k' => snd (grow T run (T - m) (k', get k' d))) spec k Hnd Hin). }
      rewrite Hget.
      split.
      + rewrite grow_len. cbn [snd]. specialize (Hb k Hin). lia.
      + destruct (grow_prefix T run (T - m) (k, get k d)) as [fresh Hf]. exists fresh. exact Hf.
  Qed.

  (** *** histories: any sequence of runs, each with its own (growing) specification, target,
      save schedule and stop point, keeps every on-disk list bounded by the largest target so far
      and only ever extends the list of a simulation that stays in the specification *)
  Record run_desc := RD { r_spec : list key; r_T : nat; r_sched : nat -> bool; r_stop : nat; r_id : nat }.
  Definition do_run (d : disk) (r : run_desc) : disk := run_batch (r_spec r) d (r_T r) (r_id r) (r_sched r) (r_stop r).

  Theorem partial_run_keeps_prefix d r k : NoDup (r_spec r) -> In k (r_spec r) ->
    exists fresh, get k (do_run d r) = get k d ++ fresh.
  Proof.
    intros Hnd Hin. unfold do_run.
    destruct (run_extends (r_spec r) d (r_T r) (r_id r) (r_sched r) (r_stop r) k Hnd Hin) as [H|[j [fresh [H _]]]].
    - rewrite H. exists []. now rewrite app_nil_r.
    - now exists fresh.
  Qed.

  Theorem partial_run_bounded d r k B : NoDup (r_spec r) -> In k (r_spec r) -> r_T r <= B ->
    length (get k d) <= B -> length (get k (do_run d r)) <= B.
  Proof.
    intros Hnd Hin HT Hb. unfold do_run.
    destruct (run_extends (r_spec r) d (r_T r) (r_id r) (r_sched r) (r_stop r) k Hnd Hin) as [H|[j [fresh [_ H]]]].
    - now rewrite H.
    - rewrite H. lia.
  Qed.
End Resume.

(** ** the truncate-then-write checkpoint of the code before the fix is NOT safe: a kill inside the
    write leaves a torn file, from which the last completed save cannot be recovered *)
Inductive file (A : Type) := Complete (d : A) | Torn.
Arguments Complete {A}. Arguments Torn {A}.
Definition write_truncating {A} (old : file A) (new : A) (killed_inside : bool) : file A :=
  if killed_inside then Torn else Complete new.
Definition write_atomic {A} (old : file A) (new : A) (killed_inside : bool) : file A :=
  if killed_inside then old else Complete new.
Example truncating_write_refuted : exists (old : file nat) new, write_truncating old new true <> old.
Proof. exists (Complete 1), 2. discriminate. Qed.
Theorem atomic_write_keeps_last_save {A} (old : file A) new killed :
  write_atomic old new killed = old \/ write_atomic old new killed = Complete new.
Proof. destruct killed; auto. Qed.

(** ** executable instance for the correspondence check: keys are numbers, trials are units *)
Definition mkdisk (l : list (nat * nat)) : list (nat * list unit) := map (fun p => (fst p, repeat tt (snd p))) l.
(** [BatchSimulation._run]: save after iteration i when i > 0 and i mod save_frequency = 0 (or i = T-1) *)
Definition sched (f i : nat) : bool := (0 <? i) && (i mod f =? 0).
Definition lens_after (spec : list nat) (d : list (nat * nat)) (T f stop : nat) : list nat :=
  map (fun k => length (get nat unit Nat.eqb k (run_batch nat unit Nat.eqb (fun _ _ _ => tt) spec (mkdisk d) T 0 (sched f) stop))) spec.
Definition reach (spec : list nat) (d : list (nat * nat)) (T f : nat) : list (list nat) :=
  map (lens_after spec d T f) (seq 0 (S T)).
Fixpoint nl_eqb (a b : list nat) : bool :=
  match a, b with [], [] => true | x :: a', y :: b' => Nat.eqb x y && nl_eqb a' b' | _, _ => false end.
Definition stop_ok (spec : list nat) (d : list (nat * nat)) (T f : nat) (observed : list nat) : bool :=
  existsb (nl_eqb observed) (reach spec d T f).
Definition complete_ok (spec : list nat) (d : list (nat * nat)) (T f : nat) (observed : list nat) : bool :=
  nl_eqb observed (lens_after spec d T f T).
