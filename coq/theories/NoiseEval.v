(** * NoiseEval: the all-errors evaluator of C18 with a sum that is kept in lowest terms
    (the plain [qsum] lets the denominator of the running sum grow with every term). *)
From Coq Require Import QArith List Bool Arith.
From PQ Require Import Noise.
Import ListNotations.
Local Open Scope Q_scope.

Fixpoint qsum_red_from (acc : Q) (l : list Q) : Q :=
  match l with [] => acc | x :: r => qsum_red_from (Qred (acc + x)) r end.
Definition qsum_red (l : list Q) : Q := qsum_red_from 0 l.

Lemma qsum_red_from_correct l : forall acc, qsum_red_from acc l == acc + qsum l.
Proof.
  induction l as [|x l IH]; intros acc; cbn [qsum_red_from qsum]; [ring|].
  rewrite IH, Qred_correct. ring.
Qed.
Lemma qsum_red_correct l : qsum_red l == qsum l.
Proof. unfold qsum_red. rewrite qsum_red_from_correct. ring. Qed.

Definition probs_ok_fast (ds : list dist) (vals : list Q) : bool :=
  let n := length ds in
  forallb2 (fun k v => Qeq_bool (error_probability ds (err_of n (N.of_nat k))) v) (seq 0 (length vals)) vals
  && Qeq_bool (qsum_red vals) 1 && Nat.eqb (length vals) (4 ^ n).

(** what a [true] verdict says about the total *)
Lemma probs_ok_fast_total ds vals : probs_ok_fast ds vals = true -> qsum vals == 1 /\ length vals = (4 ^ length ds)%nat.
Proof.
  unfold probs_ok_fast. rewrite !andb_true_iff. intros [[_ Hs] Hl]. split.
  - rewrite <- qsum_red_correct. apply Qeq_bool_eq. exact Hs.
  - apply Nat.eqb_eq. exact Hl.
Qed.
