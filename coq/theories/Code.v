(** * Code: stabilizer codes, validity, certificates, and the success criterion.

    Generic (code-independent) theory behind properties C01, C04 (and used by C08, C09, C17).
    Model of [StabilizerCode.measure_syndrome / in_codespace / logical_errors /
    is_logical_error / is_success] and [bpauli.get_effective_error].  *)
From Coq Require Import Arith NArith PArith Bool List Lia.
From PQ Require Import Bits Pauli.
Import ListNotations.
Local Open Scope N_scope.

Record code := Code {
  nq    : nat;          (* number of physical qubits *)
  stabs : list bsf;     (* rows of the parity-check matrix, in index order *)
  lgx   : list bsf;     (* logicals_x *)
  lgz   : list bsf      (* logicals_z *)
}.

Definition nn (c : code) : N := N.of_nat (nq c).

(** ** the functions of the implementation *)
Definition syndrome (c : code) (e : bsf) : list bool := map (fun s => sp s e) (stabs c).
Definition in_codespace (c : code) (e : bsf) : bool := forallb negb (syndrome c e).
(** [get_effective_error]: effective_X = bs_prod(logicals_z, e) comes first, then
    effective_Z = bs_prod(logicals_x, e). *)
Definition logical_errors (c : code) (e : bsf) : list bool :=
  map (fun l => sp l e) (lgz c) ++ map (fun l => sp l e) (lgx c).
Definition is_logical_error (c : code) (e : bsf) : bool := existsb (fun b => b) (logical_errors c e).
Definition is_success (c : code) (e : bsf) : bool := in_codespace c e && negb (is_logical_error c e).

(** ** linearity (C03/C04) *)
Definition xorl (a b : list bool) : list bool := map (fun p => xorb (fst p) (snd p)) (combine a b).

Lemma map_sp_add (rows : list bsf) a b :
  map (fun s => sp s (badd a b)) rows = xorl (map (fun s => sp s a) rows) (map (fun s => sp s b) rows).
Proof.
  unfold xorl. induction rows as [|r rows IH]; cbn [map combine fst snd]; [reflexivity|].
  now rewrite sp_add_r, IH.
Qed.

Theorem syndrome_linear c a b : syndrome c (badd a b) = xorl (syndrome c a) (syndrome c b).
Proof. apply map_sp_add. Qed.

Lemma xorl_app a a' b b' : length a = length b -> xorl (a ++ a') (b ++ b') = xorl a b ++ xorl a' b'.
Proof.
  unfold xorl. revert b; induction a as [|x a IH]; intros [|y b] H; cbn in H; try discriminate; cbn; [reflexivity|].
  f_equal. apply IH. lia.
Qed.

Theorem logical_errors_linear c a b :
  logical_errors c (badd a b) = xorl (logical_errors c a) (logical_errors c b).
Proof.
  unfold logical_errors. rewrite !map_sp_add, xorl_app; [reflexivity|]. now rewrite !map_length.
Qed.

Lemma in_codespace_iff c e : in_codespace c e = true <-> forall s, In s (stabs c) -> sp s e = false.
Proof.
  unfold in_codespace, syndrome. rewrite forallb_forall. split.
  - intros H s Hs. destruct (sp s e) eqn:E; [|reflexivity].
    assert (negb true = true) by (apply H; apply in_map_iff; exists s; auto). discriminate.
  - intros H b Hb. rewrite in_map_iff in Hb. destruct Hb as [s [<- Hs]]. now rewrite H.
Qed.

Lemma no_logical_error_iff c e :
  is_logical_error c e = false <-> forall l, In l (lgx c ++ lgz c) -> sp l e = false.
Proof.
  unfold is_logical_error, logical_errors. split.
  - intros H l Hl. destruct (sp l e) eqn:E; [|reflexivity].
    assert (existsb (fun b => b) (map (fun l => sp l e) (lgz c) ++ map (fun l => sp l e) (lgx c)) = true); [|congruence].
    apply existsb_exists. exists true. split; [|reflexivity].
    rewrite in_app_iff, !in_map_iff. apply in_app_iff in Hl. destruct Hl; [right|left]; exists l; auto.
  - intros H. destruct (existsb _ _) eqn:E; [|reflexivity]. apply existsb_exists in E.
    destruct E as [b [Hb ->]]. rewrite in_app_iff, !in_map_iff in Hb.
    destruct Hb as [[l [Hl Hin]]|[l [Hl Hin]]]; rewrite H in Hl; try discriminate; rewrite in_app_iff; auto.
Qed.

(** ** validity of a stabilizer code (the statement of C01) *)
Definition independent (G : list bsf) : Prop :=
  forall cs, length cs = length G -> combo cs G = bzero -> forallb negb cs = true.

Definition rank_is (S : list bsf) (r : nat) : Prop :=
  exists G, incl G S /\ length G = r /\ independent G /\ forall s, In s S -> span G s.

Record Valid (c : code) : Prop := {
  v_bounded  : forall r, In r (stabs c ++ lgx c ++ lgz c) -> bbounded (nn c) r = true;
  v_commute  : forall s s', In s (stabs c) -> In s' (stabs c) -> sp s s' = false;
  v_logcomm  : forall s l, In s (stabs c) -> In l (lgx c ++ lgz c) -> sp s l = false;
  v_klen     : length (lgx c) = length (lgz c);
  v_xz       : forall i j, (i < length (lgx c))%nat -> (j < length (lgz c))%nat ->
                 sp (nth i (lgx c) bzero) (nth j (lgz c) bzero) = Nat.eqb i j;
  v_xx       : forall l l', In l (lgx c) -> In l' (lgx c) -> sp l l' = false;
  v_zz       : forall l l', In l (lgz c) -> In l' (lgz c) -> sp l l' = false;
  v_rank     : rank_is (stabs c) (nq c - length (lgx c));
  v_k_le_n   : (length (lgx c) <= nq c)%nat
}.

(** ** certificates: symplectic bases.

    A list of conjugate pairs [(a_i, b_i)] is a symplectic family when [sp a_i b_i = 1] and every
    other product vanishes. *)
Definition orth4 (a b : bsf) (p : bsf * bsf) : bool :=
  negb (sp a (fst p)) && negb (sp a (snd p)) && negb (sp b (fst p)) && negb (sp b (snd p)).

Fixpoint gram_ok (P : list (bsf * bsf)) : bool :=
  match P with
  | [] => true
  | (a, b) :: P' => sp a b && forallb (orth4 a b) P' && gram_ok P'
  end.

(** reconstruction of [e] from its products with the family *)
Fixpoint recon (P : list (bsf * bsf)) (e : bsf) : bsf :=
  match P with
  | [] => bzero
  | (a, b) :: P' =>
      let t := recon P' e in
      let t := if sp e a then badd b t else t in
      if sp e b then badd a t else t
  end.

Definition orthP (v : bsf) (P : list (bsf * bsf)) : Prop :=
  forall p, In p P -> sp v (fst p) = false /\ sp v (snd p) = false.

Lemma orth4_orthP a b P :
  forallb (orth4 a b) P = true -> orthP a P /\ orthP b P.
Proof.
  rewrite forallb_forall. intros H. split; intros p Hp; specialize (H p Hp); unfold orth4 in H;
    rewrite !andb_true_iff, !negb_true_iff in H; tauto.
Qed.

Lemma sp_recon_orth v P e : orthP v P -> sp v (recon P e) = false.
Proof.
  induction P as [|[a b] P IH]; intros H; cbn [recon]; [apply sp_0_r|].
  assert (Ha : sp v a = false) by (apply (H (a, b)); now left).
  assert (Hb : sp v b = false) by (apply (H (a, b)); now left).
  assert (IH' : sp v (recon P e) = false) by (apply IH; intros p Hp; apply H; now right).
  destruct (sp e a), (sp e b); rewrite ?sp_add_r, ?Ha, ?Hb, ?IH'; reflexivity.
Qed.

(** the reconstruction has the same products with the family as [e] itself *)
Lemma sp_recon_same P e : gram_ok P = true ->
  forall p, In p P -> sp (recon P e) (fst p) = sp e (fst p) /\ sp (recon P e) (snd p) = sp e (snd p).
Proof.
  induction P as [|[a b] P IH]; intros G p Hp; [destruct Hp|].
  cbn [gram_ok] in G. rewrite !andb_true_iff in G. destruct G as [[Hab Ho] G].
  destruct (orth4_orthP _ _ _ Ho) as [Hoa Hob].
  assert (Ra : sp a (recon P e) = false) by now apply sp_recon_orth.
  assert (Rb : sp b (recon P e) = false) by now apply sp_recon_orth.
  assert (Hba : sp b a = true) by now rewrite sp_comm.
  cbn [recon]. destruct Hp as [<-|Hp]; cbn [fst snd].
  - split.
    + destruct (sp e a) eqn:Ea, (sp e b) eqn:Eb; rewrite ?sp_add_l, ?sp_self, ?Hba, ?(sp_comm _ a), ?Ra; reflexivity.
    + destruct (sp e a) eqn:Ea, (sp e b) eqn:Eb; rewrite ?sp_add_l, ?sp_self, ?Hab, ?(sp_comm _ b), ?Rb; reflexivity.
  - destruct (IH G p Hp) as [I1 I2]. destruct (Hoa p Hp) as [A1 A2]. destruct (Hob p Hp) as [B1 B2].
    split; destruct (sp e a), (sp e b); rewrite ?sp_add_l, ?A1, ?A2, ?B1, ?B2, ?xorb_false_l; assumption.
Qed.

Lemma recon_bounded n P e :
  (forall p, In p P -> bbounded n (fst p) = true /\ bbounded n (snd p) = true) ->
  bbounded n (recon P e) = true.
Proof.
  induction P as [|[a b] P IH]; intros H; cbn [recon]; [apply bbounded_0|].
  destruct (H (a, b) (or_introl eq_refl)) as [Ha Hb]; cbn [fst snd] in *.
  assert (IH' : bbounded n (recon P e) = true) by (apply IH; intros p Hp; apply H; now right).
  destruct (sp e a), (sp e b); repeat apply bbounded_add; assumption.
Qed.

(** the family is complete when every single-qubit X and Z is reproduced (checked by computation) *)
Definition units_ok (n : nat) (P : list (bsf * bsf)) : bool :=
  forallb (fun j => beqb (recon P (unitX j)) (unitX j) && beqb (recon P (unitZ j)) (unitZ j)) (upto n).

Definition pairs_bounded (n : N) (P : list (bsf * bsf)) : bool :=
  forallb (fun p => bbounded n (fst p) && bbounded n (snd p)) P.

(** *** the key lemma: a complete symplectic family reconstructs every bounded operator *)
Theorem recon_id n P e :
  gram_ok P = true -> pairs_bounded (N.of_nat n) P = true -> units_ok n P = true ->
  bbounded (N.of_nat n) e = true -> recon P e = e.
Proof.
  intros G Hb Hu He.
  assert (HbP : forall p, In p P -> bbounded (N.of_nat n) (fst p) = true /\ bbounded (N.of_nat n) (snd p) = true).
  { intros p Hp. unfold pairs_bounded in Hb. rewrite forallb_forall in Hb. specialize (Hb p Hp).
    now apply andb_true_iff in Hb. }
  set (e' := badd e (recon P e)).
  assert (Horth : orthP e' P).
  { intros p Hp. destruct (sp_recon_same P e G p Hp) as [H1 H2]. unfold e'.
    rewrite !sp_add_l, H1, H2, !xorb_nilpotent. auto. }
  assert (Hz : e' = bzero).
  { apply (bsf_nondegenerate (N.of_nat n)).
    - unfold e'. apply bbounded_add; [assumption|]. now apply recon_bounded.
    - intros j Hj. unfold units_ok in Hu. rewrite forallb_forall in Hu.
      specialize (Hu j (proj2 (in_upto n j) Hj)). apply andb_true_iff in Hu. destruct Hu as [Hx _].
      apply beqb_eq in Hx. rewrite <- Hx. now apply sp_recon_orth.
    - intros j Hj. unfold units_ok in Hu. rewrite forallb_forall in Hu.
      specialize (Hu j (proj2 (in_upto n j) Hj)). apply andb_true_iff in Hu. destruct Hu as [_ Hz].
      apply beqb_eq in Hz. rewrite <- Hz. now apply sp_recon_orth. }
  unfold e' in Hz. apply badd_eq_zero in Hz. now symmetry.
Qed.

(** if [e] commutes with every [a_i] of [P1 ++ P2] and with every [b_i] of [P2], its reconstruction
    lies in the span of the [a_i] of [P1] *)
Lemma recon_span P1 P2 e :
  (forall p, In p (P1 ++ P2) -> sp e (fst p) = false) ->
  (forall p, In p P2 -> sp e (snd p) = false) ->
  span (map fst P1) (recon (P1 ++ P2) e).
Proof.
  induction P1 as [|[a b] P1 IH]; intros H1 H2.
  - cbn [app map]. induction P2 as [|[a b] P2 IH2]; cbn [recon]; [constructor|].
    pose proof (H1 (a, b) (or_introl eq_refl)) as E1. pose proof (H2 (a, b) (or_introl eq_refl)) as E2.
    cbn [fst snd] in E1, E2. rewrite E1, E2. apply IH2; intros p Hp; [apply H1|apply H2]; now right.
  - cbn [app recon map fst]. pose proof (H1 (a, b) (or_introl eq_refl)) as E1. cbn [fst] in E1. rewrite E1.
    assert (IH' : span (a :: map fst P1) (recon (P1 ++ P2) e)).
    { apply (span_mono (map fst P1)); [intros x Hx; now right|]. apply IH; [|assumption].
      intros p Hp; apply H1; now right. }
    destruct (sp e b); [|assumption]. apply span_add; [now left|assumption].
Qed.

(** independence of the first components of a symplectic family *)
Lemma gram_independent P : gram_ok P = true -> independent (map fst P).
Proof.
  induction P as [|[a b] P IH]; intros G cs Hl Hc.
  - destruct cs; [reflexivity|discriminate].
  - destruct cs as [|c cs]; [discriminate|]. cbn [map fst length] in *.
    cbn [gram_ok] in G. rewrite !andb_true_iff in G. destruct G as [[Hab Ho] G].
    destruct (orth4_orthP _ _ _ Ho) as [_ Hob].
    assert (Hbt : sp b (combo cs (map fst P)) = false).
    { apply (sp_span_r (map fst P)); [|apply combo_span]. intros r Hr. apply in_map_iff in Hr.
      destruct Hr as [p [<- Hp]]. now apply Hob. }
    cbn [combo] in Hc. destruct c.
    + exfalso. assert (E : sp b (badd a (combo cs (map fst P))) = true).
      { rewrite sp_add_r, Hbt, (sp_comm b a), Hab. reflexivity. }
      rewrite Hc, sp_0_r in E. discriminate.
    + cbn [forallb negb andb]. apply IH; [assumption|lia|assumption].
Qed.

(** ** the certificate checker *)
Record cert := Cert {
  gen_idx : list nat;   (* indices (into [stabs]) of an independent generating subset *)
  dest    : list bsf    (* destabilizers, one per chosen generator *)
}.

Definition gens (c : code) (ct : cert) : list bsf := map (fun i => nth i (stabs c) bzero) (gen_idx ct).
Definition family (c : code) (ct : cert) : list (bsf * bsf) :=
  combine (gens c ct) (dest ct) ++ combine (lgx c) (lgz c).

Fixpoint pairwise_commute (l : list bsf) : bool :=
  match l with
  | [] => true
  | s :: l' => forallb (fun s' => negb (sp s s')) l' && pairwise_commute l'
  end.

Definition check_cert (c : code) (ct : cert) : bool :=
  forallb (fun i => Nat.ltb i (length (stabs c))) (gen_idx ct)
  && Nat.eqb (length (gen_idx ct)) (length (dest ct))
  && Nat.eqb (length (lgx c)) (length (lgz c))
  && Nat.eqb (length (gen_idx ct) + length (lgx c)) (nq c)
  && forallb (bbounded (nn c)) (stabs c)
  && pairs_bounded (nn c) (family c ct)
  && gram_ok (family c ct)
  && units_ok (nq c) (family c ct)
  && pairwise_commute (stabs c)
  && forallb (fun s => forallb (fun l => negb (sp s l)) (lgx c ++ lgz c)) (stabs c).

Lemma pairwise_commute_spec l :
  pairwise_commute l = true -> forall s s', In s l -> In s' l -> sp s s' = false.
Proof.
  induction l as [|x l IH]; intros H s s' Hs Hs'; [destruct Hs|].
  cbn [pairwise_commute] in H. apply andb_true_iff in H. destruct H as [Hx Hl].
  rewrite forallb_forall in Hx.
  destruct Hs as [<-|Hs], Hs' as [<-|Hs'].
  - apply sp_self.
  - apply negb_true_iff. now apply Hx.
  - rewrite sp_comm. apply negb_true_iff. now apply Hx.
  - now apply IH.
Qed.

Lemma gram_app_l P Q : gram_ok (P ++ Q) = true -> gram_ok P = true.
Proof.
  induction P as [|[a b] P IH]; intros H; [reflexivity|]. cbn [app gram_ok] in *.
  rewrite !andb_true_iff in *. destruct H as [[H1 H2] H3]. repeat split; auto.
  rewrite forallb_app in H2. now apply andb_true_iff in H2.
Qed.
Lemma gram_app_r P Q : gram_ok (P ++ Q) = true -> gram_ok Q = true.
Proof.
  induction P as [|[a b] P IH]; intros H; [assumption|]. cbn [app gram_ok] in H.
  rewrite !andb_true_iff in H. apply IH. tauto.
Qed.
(** cross-orthogonality between the two halves of a symplectic family *)
Lemma gram_app_cross P Q : gram_ok (P ++ Q) = true ->
  forall p q, In p P -> In q Q ->
    sp (fst p) (fst q) = false /\ sp (fst p) (snd q) = false /\
    sp (snd p) (fst q) = false /\ sp (snd p) (snd q) = false.
Proof.
  induction P as [|[a b] P IH]; intros H p q Hp Hq; [destruct Hp|]. cbn [app gram_ok] in H.
  rewrite !andb_true_iff in H. destruct H as [[H1 H2] H3]. destruct Hp as [<-|Hp]; [|now apply IH].
  rewrite forallb_forall in H2. specialize (H2 q (proj2 (in_app_iff _ _ _) (or_intror Hq))).
  unfold orth4 in H2. rewrite !andb_true_iff, !negb_true_iff in H2. cbn [fst snd]. tauto.
Qed.

(** inside one symplectic family: products by position *)
Lemma gram_nth P : gram_ok P = true ->
  forall i j d, (i < length P)%nat -> (j < length P)%nat ->
    sp (fst (nth i P d)) (snd (nth j P d)) = Nat.eqb i j /\
    sp (fst (nth i P d)) (fst (nth j P d)) = false /\
    sp (snd (nth i P d)) (snd (nth j P d)) = false.
Proof.
  induction P as [|[a b] P IH]; intros G i j d Hi Hj; [cbn in Hi; lia|].
  cbn [gram_ok] in G. rewrite !andb_true_iff in G. destruct G as [[Hab Ho] G].
  destruct (orth4_orthP _ _ _ Ho) as [Hoa Hob].
  destruct i as [|i], j as [|j]; cbn [nth fst snd Nat.eqb length] in *.
  - rewrite !sp_self. auto.
  - assert (Hin : In (nth j P d) P) by (apply nth_In; lia).
    destruct (Hoa _ Hin), (Hob _ Hin). auto.
  - assert (Hin : In (nth i P d) P) by (apply nth_In; lia).
    destruct (Hoa _ Hin), (Hob _ Hin). rewrite (sp_comm _ b), (sp_comm _ a), (sp_comm _ b). auto.
  - apply IH; [assumption|lia|lia].
Qed.

Lemma gram_swap P : gram_ok P = true -> gram_ok (map (fun p => (snd p, fst p)) P) = true.
Proof.
  induction P as [|[a b] P IH]; intros GL; [reflexivity|]. cbn [map gram_ok fst snd] in *.
  rewrite !andb_true_iff in *. destruct GL as [[H1 H2] H3]. repeat split; auto.
  - now rewrite sp_comm.
  - rewrite forallb_forall in *. intros q Hq. apply in_map_iff in Hq. destruct Hq as [p [<- Hp]].
    specialize (H2 p Hp). unfold orth4 in *; cbn [fst snd]. rewrite !andb_true_iff in *. tauto.
Qed.

Lemma sp_combo_fst P : gram_ok P = true -> forall cs j d, length cs = length P -> (j < length P)%nat ->
  sp (combo cs (map fst P)) (snd (nth j P d)) = nth j cs false.
Proof.
  induction P as [|[a b] P IH]; intros G cs j d Hl Hj; [cbn in Hj; lia|].
  destruct cs as [|c0 cs]; [discriminate|]. cbn [length map fst] in *.
  cbn [gram_ok] in G. rewrite !andb_true_iff in G. destruct G as [[Hab Ho] G].
  destruct (orth4_orthP _ _ _ Ho) as [Hoa Hob].
  destruct j as [|j]; cbn [nth snd combo].
  - assert (Ht : sp (combo cs (map fst P)) b = false).
    { apply (sp_span_l (map fst P)); [|apply combo_span]. intros r Hr. apply in_map_iff in Hr.
      destruct Hr as [p [<- Hp]]. rewrite sp_comm. now apply Hob. }
    destruct c0; rewrite ?sp_add_l, ?Hab, ?Ht; reflexivity.
  - assert (Hin : In (nth j P d) P) by (apply nth_In; lia).
    destruct c0; rewrite ?sp_add_l, ?(proj2 (Hoa _ Hin)), ?xorb_false_l; apply IH; auto; lia.
Qed.

Lemma sp_combo_snd P : gram_ok P = true -> forall ds j d, (j < length P)%nat ->
  sp (combo ds (map snd P)) (snd (nth j P d)) = false.
Proof.
  intros G ds j d Hj. apply (sp_span_l (map snd P)); [|apply combo_span].
  intros r Hr. apply in_map_iff in Hr. destruct Hr as [p [<- Hp]].
  destruct (In_nth _ _ d Hp) as [i [Hi <-]].
  now destruct (gram_nth P G i j d Hi Hj) as (_ & _ & H).
Qed.

Lemma nth_all_false (cs : list bool) : (forall j, (j < length cs)%nat -> nth j cs false = false) -> forallb negb cs = true.
Proof.
  induction cs as [|c0 cs IH]; intros H; [reflexivity|]. cbn [forallb].
  pose proof (H 0%nat ltac:(cbn; lia)) as H0. cbn [nth] in H0. subst c0. cbn [negb andb]. apply IH. intros j Hj. apply (H (S j)). cbn; lia.
Qed.

Section Soundness.
  Variables (c : code) (ct : cert).
  Hypothesis Hck : check_cert c ct = true.

  Lemma ck_parts :
    forallb (fun i => Nat.ltb i (length (stabs c))) (gen_idx ct) = true /\
    length (gen_idx ct) = length (dest ct) /\
    length (lgx c) = length (lgz c) /\
    (length (gen_idx ct) + length (lgx c))%nat = nq c /\
    forallb (bbounded (nn c)) (stabs c) = true /\
    pairs_bounded (nn c) (family c ct) = true /\
    gram_ok (family c ct) = true /\
    units_ok (nq c) (family c ct) = true /\
    pairwise_commute (stabs c) = true /\
    forallb (fun s => forallb (fun l => negb (sp s l)) (lgx c ++ lgz c)) (stabs c) = true.
  Proof.
    pose proof Hck as Hc. unfold check_cert in Hc. rewrite !andb_true_iff in Hc.
    repeat match goal with H : _ /\ _ |- _ => destruct H end.
    repeat split; try assumption; now apply Nat.eqb_eq.
  Qed.

  Lemma gens_in_stabs : incl (gens c ct) (stabs c).
  Proof.
    destruct ck_parts as [Hi _]. rewrite forallb_forall in Hi.
    intros g Hg. unfold gens in Hg. apply in_map_iff in Hg. destruct Hg as [i [<- Hin]].
    apply nth_In. apply Nat.ltb_lt. now apply Hi.
  Qed.

  Lemma gens_length : length (gens c ct) = length (dest ct).
  Proof. unfold gens. rewrite map_length. apply ck_parts. Qed.

  Lemma map_fst_combine {A B} (l : list A) (l' : list B) : length l = length l' -> map fst (combine l l') = l.
  Proof.
    revert l'; induction l as [|x l IH]; intros [|y l'] H; cbn in *; try discriminate; [reflexivity|].
    f_equal. apply IH. lia.
  Qed.
  Lemma map_snd_combine {A B} (l : list A) (l' : list B) : length l = length l' -> map snd (combine l l') = l'.
  Proof.
    revert l'; induction l as [|x l IH]; intros [|y l'] H; cbn in *; try discriminate; [reflexivity|].
    f_equal. apply IH. lia.
  Qed.

  Lemma stab_commutes_log s l : In s (stabs c) -> In l (lgx c ++ lgz c) -> sp s l = false.
  Proof.
    destruct ck_parts as (_ & _ & _ & _ & _ & _ & _ & _ & _ & H). rewrite forallb_forall in H.
    intros Hs Hl. specialize (H s Hs). rewrite forallb_forall in H. apply negb_true_iff. now apply H.
  Qed.

  (** *** every bounded operator commuting with the generators and logicals is a product of
      the chosen generators *)
  Theorem centraliser_in_span e :
    bbounded (nn c) e = true ->
    (forall g, In g (gens c ct) -> sp g e = false) ->
    (forall l, In l (lgx c ++ lgz c) -> sp l e = false) ->
    span (gens c ct) e.
  Proof.
    intros He Hg Hl.
    destruct ck_parts as (_ & _ & Hk & _ & _ & Hpb & Hgram & Hun & _ & _).
    rewrite <- (recon_id (nq c) (family c ct) e Hgram Hpb Hun He).
    rewrite <- (map_fst_combine (gens c ct) (dest ct) gens_length) at 1.
    unfold family. apply recon_span.
    - intros p Hp. apply in_app_iff in Hp. rewrite sp_comm. destruct Hp as [Hp|Hp].
      + apply Hg. destruct p as [p1 p2]. apply (in_combine_l _ _ _ _ Hp).
      + apply Hl. apply in_app_iff. left. destruct p as [p1 p2]. apply (in_combine_l _ _ _ _ Hp).
    - intros p Hp. rewrite sp_comm. apply Hl. apply in_app_iff. right.
      destruct p as [p1 p2]. apply (in_combine_r _ _ _ _ Hp).
  Qed.

  Lemma stabs_in_span_gens s : In s (stabs c) -> span (gens c ct) s.
  Proof.
    intros Hs. destruct ck_parts as (_ & _ & _ & _ & Hb & _ & _ & _ & Hpc & _).
    apply centraliser_in_span.
    - rewrite forallb_forall in Hb. now apply Hb.
    - intros g Hg. apply (pairwise_commute_spec _ Hpc); [now apply gens_in_stabs|assumption].
    - intros l Hl. rewrite sp_comm. now apply stab_commutes_log.
  Qed.

  (** *** C01: a checked certificate implies validity *)
  Theorem check_cert_valid : Valid c.
  Proof.
    destruct ck_parts as (Hidx & Hgd & Hk & Hn & Hb & Hpb & Hgram & Hun & Hpc & Hlc).
    assert (GL : gram_ok (combine (lgx c) (lgz c)) = true) by (apply (gram_app_r _ _ Hgram)).
    assert (GG : gram_ok (combine (gens c ct) (dest ct)) = true) by (apply (gram_app_l _ _ Hgram)).
    assert (Hlen : length (combine (lgx c) (lgz c)) = length (lgx c)) by (rewrite combine_length; lia).
    assert (Hnthc : forall i, nth i (combine (lgx c) (lgz c)) (bzero, bzero) = (nth i (lgx c) bzero, nth i (lgz c) bzero))
      by (intro i; apply combine_nth; assumption).
    split.
    - intros r Hr. rewrite forallb_forall in Hb. apply in_app_iff in Hr. destruct Hr as [Hr|Hr]; [now apply Hb|].
      unfold pairs_bounded in Hpb. rewrite forallb_forall in Hpb.
      apply in_app_iff in Hr. destruct Hr as [Hr|Hr].
      + destruct (In_nth _ _ bzero Hr) as [i [Hi <-]].
        assert (Hin : In (nth i (lgx c) bzero, nth i (lgz c) bzero) (family c ct)).
        { unfold family. apply in_app_iff. right. rewrite <- Hnthc. apply nth_In. lia. }
        specialize (Hpb _ Hin). apply andb_true_iff in Hpb. apply Hpb.
      + destruct (In_nth _ _ bzero Hr) as [i [Hi <-]].
        assert (Hin : In (nth i (lgx c) bzero, nth i (lgz c) bzero) (family c ct)).
        { unfold family. apply in_app_iff. right. rewrite <- Hnthc. apply nth_In. lia. }
        specialize (Hpb _ Hin). apply andb_true_iff in Hpb. apply Hpb.
    - now apply pairwise_commute_spec.
    - intros s l. apply stab_commutes_log.
    - assumption.
    - intros i j Hi Hj.
      destruct (gram_nth _ GL i j (bzero, bzero)) as [H1 _]; [lia|lia|].
      now rewrite !Hnthc in H1.
    - intros l l' Hl Hl'. destruct (In_nth _ _ bzero Hl) as [i [Hi <-]]. destruct (In_nth _ _ bzero Hl') as [j [Hj <-]].
      destruct (gram_nth _ GL i j (bzero, bzero)) as (_ & H2 & _); [lia|lia|]. now rewrite !Hnthc in H2.
    - intros l l' Hl Hl'. destruct (In_nth _ _ bzero Hl) as [i [Hi <-]]. destruct (In_nth _ _ bzero Hl') as [j [Hj <-]].
      destruct (gram_nth _ GL i j (bzero, bzero)) as (_ & _ & H3); [lia|lia|]. now rewrite !Hnthc in H3.
    - exists (gens c ct). split; [apply gens_in_stabs|]. split.
      + unfold gens. rewrite map_length. lia.
      + split; [|apply stabs_in_span_gens].
        rewrite <- (map_fst_combine (gens c ct) (dest ct) gens_length). now apply gram_independent.
    - lia.
  Qed.

  (** *** C04: success is declared iff the residual error is in the stabilizer group *)
  Theorem success_iff_stabilizer e :
    bbounded (nn c) e = true -> (is_success c e = true <-> span (stabs c) e).
  Proof.
    intros He. unfold is_success. rewrite andb_true_iff, negb_true_iff, in_codespace_iff, no_logical_error_iff.
    split.
    - intros [Hs Hl]. apply (span_mono (gens c ct)); [apply gens_in_stabs|].
      apply centraliser_in_span; [assumption| |assumption].
      intros g Hg. apply Hs. now apply gens_in_stabs.
    - intros Hsp. pose proof check_cert_valid as V. split.
      + intros s Hs. apply (sp_span_r (stabs c)); [|assumption]. intros r Hr. now apply (v_commute c V).
      + intros l Hl. rewrite sp_comm. apply (sp_span_l (stabs c)); [|assumption].
        intros r Hr. now apply (v_logcomm c V).
  Qed.

  (** in the code space <-> commutes with all generators is [in_codespace_iff]; the logical effect
      is constant on stabilizer cosets *)
  Theorem logical_errors_coset e s : span (stabs c) s -> logical_errors c (badd e s) = logical_errors c e.
  Proof.
    intros Hs. pose proof check_cert_valid as V. unfold logical_errors.
    assert (H : forall L, incl L (lgx c ++ lgz c) -> map (fun l => sp l (badd e s)) L = map (fun l => sp l e) L).
    { intros L HL. apply map_ext_in. intros l Hl. rewrite sp_add_r.
      rewrite (sp_span_r (stabs c) l s); [apply xorb_false_r| |assumption].
      intros r Hr. rewrite sp_comm. apply (v_logcomm c V); auto. }
    rewrite !H; [reflexivity| |]; intros l Hl; apply in_app_iff; auto.
  Qed.

  (** the listed logicals are independent of the stabilizer group *)
  Theorem logicals_independent_mod_stabilizers cs ds :
    length cs = length (lgx c) -> length ds = length (lgz c) ->
    span (stabs c) (badd (combo cs (lgx c)) (combo ds (lgz c))) ->
    forallb negb cs = true /\ forallb negb ds = true.
  Proof.
    intros Hlc Hld Hsp. pose proof check_cert_valid as V.
    destruct ck_parts as (_ & _ & Hk & _ & _ & _ & Hgram & _).
    assert (GL : gram_ok (combine (lgx c) (lgz c)) = true) by (apply (gram_app_r _ _ Hgram)).
    set (v := badd (combo cs (lgx c)) (combo ds (lgz c))) in *.
    assert (Hcomm : forall l, In l (lgx c ++ lgz c) -> sp v l = false).
    { intros l Hl. apply (sp_span_l (stabs c)); [|assumption]. intros r Hr. now apply (v_logcomm c V). }
    set (P := combine (lgx c) (lgz c)) in *.
    assert (F1 : map fst P = lgx c) by (apply map_fst_combine; assumption).
    assert (F2 : map snd P = lgz c) by (apply map_snd_combine; assumption).
    assert (LP : length P = length (lgx c)) by (unfold P; rewrite combine_length; lia).
    pose proof (gram_swap P GL) as GS.
    set (Q := map (fun p => (snd p, fst p)) P) in *.
    assert (Q1 : map fst Q = lgz c) by (unfold Q; rewrite map_map; cbn [fst]; exact F2).
    assert (Q2 : map snd Q = lgx c) by (unfold Q; rewrite map_map; cbn [snd]; exact F1).
    assert (LQ : length Q = length (lgx c)) by (unfold Q; now rewrite map_length).
    split.
    - apply nth_all_false. intros j Hj.
      rewrite <- (sp_combo_fst P GL cs j (bzero, bzero)) by lia. rewrite F1.
      assert (Hin : In (snd (nth j P (bzero, bzero))) (lgz c)).
      { rewrite <- F2. apply in_map. apply nth_In. lia. }
      assert (E : sp v (snd (nth j P (bzero, bzero))) = false) by (apply Hcomm, in_app_iff; auto).
      unfold v in E. rewrite sp_add_l in E.
      rewrite <- F2 in E at 1. rewrite (sp_combo_snd P GL ds j (bzero, bzero)) in E by lia.
      now rewrite xorb_false_r in E.
    - apply nth_all_false. intros j Hj.
      rewrite <- (sp_combo_fst Q GS ds j (bzero, bzero)) by lia. rewrite Q1.
      assert (Hin : In (snd (nth j Q (bzero, bzero))) (lgx c)).
      { rewrite <- Q2. apply in_map. apply nth_In. lia. }
      assert (E : sp v (snd (nth j Q (bzero, bzero))) = false) by (apply Hcomm, in_app_iff; auto).
      unfold v in E. rewrite sp_add_l in E.
      rewrite <- Q2 in E at 1. rewrite (sp_combo_snd Q GS cs j (bzero, bzero)) in E by lia.
      now rewrite xorb_false_l in E.
  Qed.
End Soundness.

(** ** sector layout of the 2k-bit logical effect (C04) *)
Lemma logical_errors_length c e : length (logical_errors c e) = (length (lgz c) + length (lgx c))%nat.
Proof. unfold logical_errors. now rewrite app_length, !map_length. Qed.

Lemma logical_errors_nth_x c e j : (j < length (lgz c))%nat ->
  nth j (logical_errors c e) false = sp (nth j (lgz c) bzero) e.
Proof.
  intros Hj. unfold logical_errors. rewrite app_nth1 by now rewrite map_length.
  rewrite (nth_indep _ false (sp bzero e)) by now rewrite map_length.
  apply (map_nth (fun l => sp l e)).
Qed.

Lemma logical_errors_nth_z c e j : (j < length (lgx c))%nat ->
  nth (length (lgz c) + j) (logical_errors c e) false = sp (nth j (lgx c) bzero) e.
Proof.
  intros Hj. unfold logical_errors. rewrite app_nth2 by (rewrite map_length; lia).
  rewrite map_length. replace (length (lgz c) + j - length (lgz c))%nat with j by lia.
  rewrite (nth_indep _ false (sp bzero e)) by now rewrite map_length.
  apply (map_nth (fun l => sp l e)).
Qed.

(** the logical X on qubit i flags exactly bit i of the first (X) block; logical Z on qubit i flags
    exactly bit i of the second (Z) block *)
Theorem logical_errors_of_logical_x c : Valid c -> forall i j, (i < length (lgx c))%nat ->
  (j < length (lgz c) + length (lgx c))%nat ->
  nth j (logical_errors c (nth i (lgx c) bzero)) false = Nat.eqb j i.
Proof.
  intros V i j Hi Hj. pose proof (v_klen c V) as Hk.
  destruct (Nat.lt_ge_cases j (length (lgz c))) as [Hlt|Hge].
  - rewrite logical_errors_nth_x by assumption. rewrite sp_comm.
    rewrite (v_xz c V i j) by lia. apply Nat.eqb_sym.
  - replace j with (length (lgz c) + (j - length (lgz c)))%nat at 1 by lia.
    rewrite logical_errors_nth_z by lia.
    rewrite (v_xx c V); [|apply nth_In; lia|apply nth_In; lia].
    symmetry. apply Nat.eqb_neq. lia.
Qed.

Theorem logical_errors_of_logical_z c : Valid c -> forall i j, (i < length (lgz c))%nat ->
  (j < length (lgz c) + length (lgx c))%nat ->
  nth j (logical_errors c (nth i (lgz c) bzero)) false = Nat.eqb j (length (lgz c) + i).
Proof.
  intros V i j Hi Hj. pose proof (v_klen c V) as Hk.
  destruct (Nat.lt_ge_cases j (length (lgz c))) as [Hlt|Hge].
  - rewrite logical_errors_nth_x by assumption.
    rewrite (v_zz c V); [|apply nth_In; lia|apply nth_In; lia].
    symmetry. apply Nat.eqb_neq. lia.
  - replace j with (length (lgz c) + (j - length (lgz c)))%nat at 1 by lia.
    rewrite logical_errors_nth_z by lia.
    rewrite (v_xz c V (j - length (lgz c)) i) by lia.
    destruct (Nat.eqb_spec (j - length (lgz c)) i); symmetry; [apply Nat.eqb_eq|apply Nat.eqb_neq]; lia.
Qed.

(** ** brute force (finite cross-check of the hypotheses of [success_iff_stabilizer]):
    all operators on n qubits, the whole group generated by a list *)
Fixpoint all_below (n : nat) : list N :=
  match n with O => [0] | S m => let l := all_below m in l ++ map (fun v => N.lor v (N.shiftl 1 (N.of_nat m))) l end.
Definition all_ops (n : nat) : list bsf := flat_map (fun x => map (fun z => B x z) (all_below n)) (all_below n).
Fixpoint group_of (G : list bsf) : list bsf :=
  match G with [] => [bzero] | g :: G' => let l := group_of G' in l ++ map (badd g) l end.
Lemma group_of_span G v : In v (group_of G) -> span G v.
Proof.
  revert v; induction G as [|g G IH]; intros v Hv; cbn [group_of] in Hv.
  - destruct Hv as [<-|[]]. constructor.
  - apply in_app_iff in Hv. destruct Hv as [Hv|Hv].
    + apply (span_mono G); [intros x Hx; now right|auto].
    + apply in_map_iff in Hv. destruct Hv as [u [<- Hu]]. apply span_add; [now left|].
      apply (span_mono G); [intros x Hx; now right|auto].
Qed.
Lemma span_group_of G v : span G v -> In v (group_of G).
Proof.
  assert (Hadd : forall G g u, In g G -> In u (group_of G) -> In (badd g u) (group_of G)).
  { clear. induction G as [|g0 G IH]; intros g u Hg Hu; [destruct Hg|]. cbn [group_of] in *.
    apply in_app_iff in Hu. destruct Hg as [->|Hg].
    - destruct Hu as [Hu|Hu].
      + apply in_app_iff; right. now apply in_map.
      + apply in_map_iff in Hu. destruct Hu as [w [<- Hw]]. rewrite badd_cancel_l. apply in_app_iff; now left.
    - destruct Hu as [Hu|Hu].
      + apply in_app_iff; left. now apply IH.
      + apply in_map_iff in Hu. destruct Hu as [w [<- Hw]]. apply in_app_iff; right.
        rewrite badd_assoc, (badd_comm g g0), <- badd_assoc. apply in_map. now apply IH. }
  induction 1 as [|r u Hr Hu IH].
  - clear. induction G as [|g G IH]; cbn [group_of]; [now left|apply in_app_iff; now left].
  - now apply Hadd.
Qed.
Definition memb (v : bsf) (l : list bsf) : bool := existsb (beqb v) l.
Lemma memb_In v l : memb v l = true <-> In v l.
Proof.
  unfold memb. rewrite existsb_exists. split.
  - intros [x [Hx E]]. apply beqb_eq in E. now subst.
  - intros H. exists v. split; [assumption|now apply beqb_eq].
Qed.
(** [brute_success_ok c]: on every operator of n qubits, is_success agrees with membership in
    the full stabilizer group (computed by exhaustive enumeration) *)
Definition brute_success_ok (c : code) : bool :=
  let grp := group_of (stabs c) in
  if Nat.leb (nq c) 6 then forallb (fun e => Bool.eqb (is_success c e) (memb e grp)) (all_ops (nq c))
  else
    (* larger n: every element of the group is reported successful, and the number of operators reported
       successful among all 4^n is the order 2^(n-k) of the group *)
    forallb (is_success c) grp
    && Nat.eqb (length (filter (is_success c) (all_ops (nq c)))) (2 ^ (nq c - length (lgx c))).
Definition success_set (c : code) : list bsf := filter (is_success c) (all_ops (nq c)).

(** ** correspondence records (what the implementation reported for a residual error) *)
Record obs := Obs { o_e : bsf; o_cs : bool; o_le : list bool; o_ile : bool; o_ok : bool }.
Fixpoint lbeq (a b : list bool) : bool :=
  match a, b with [] , [] => true | x :: a', y :: b' => Bool.eqb x y && lbeq a' b' | _, _ => false end.
Definition check_obs (c : code) (o : obs) : bool :=
  Bool.eqb (in_codespace c (o_e o)) (o_cs o) && lbeq (logical_errors c (o_e o)) (o_le o)
  && Bool.eqb (is_logical_error c (o_e o)) (o_ile o) && Bool.eqb (is_success c (o_e o)) (o_ok o).

Definition dec (n : nat) (v : N) : bsf := B (N.land v (N.ones (N.of_nat n))) (N.shiftr v (N.of_nat n)).
Fixpoint strictly_increasing (l : list N) : bool :=
  match l with x :: ((y :: _) as l') => (x <? y) && strictly_increasing l' | _ => true end.
(** the implementation's complete list of operators it reports as successful (resp. in the code
    space) over all 4^n operators equals the model's set: same elements, same count *)
Definition brute_sets_ok (c : code) (cs ok : list N) (le_cs : list (list bool)) : bool :=
  let n := nq c in
  strictly_increasing cs && strictly_increasing ok
  && forallb (fun v => v <? N.shiftl 1 (N.of_nat (2 * n))) (cs ++ ok)
  && forallb (fun v => in_codespace c (dec n v)) cs
  && forallb (fun v => is_success c (dec n v)) ok
  && Nat.eqb (length (filter (in_codespace c) (all_ops n))) (length cs)
  && Nat.eqb (length (filter (is_success c) (all_ops n))) (length ok)
  && lbeq (map (fun p => lbeq (logical_errors c (dec n (fst p))) (snd p)) (combine cs le_cs)) (map (fun _ => true) cs)
  && Nat.eqb (length cs) (length le_cs).
