(** * Toric3D: parametric model of [Toric3DCode] (Layer P); for EVERY size L_x, L_y, L_z >= 2 every
    vertex (Z-type, 6 edges) generator and every face (X-type, 4 edges, three orientations) generator
    share an even number of qubits.  Vertex/vertex and face/face pairs are of the same Pauli type.
    The 3-D statement is reduced to the 2-D overlap lemma of Toric2D.v in the plane of the face. *)
From Coq Require Import ZArith List Bool Lia ZifyBool Permutation.
From PQ Require Import Toric2D.
Import ListNotations.
Local Open Scope Z_scope.
Ltac Zify.zify_post_hook ::= Z.to_euclidean_division_equations.

Definition pt3 := (Z * Z * Z)%type.
Definition pt3_eqb (a b : pt3) : bool :=
  let '(ax, ay, az) := a in let '(bx, by_, bz) := b in (ax =? bx) && (ay =? by_) && (az =? bz).
Definition mem3 (q : pt3) (l : list pt3) : bool := existsb (pt3_eqb q) l.
Definition overlap3 (a b : list pt3) : bool := fold_left xorb (map (fun q => mem3 q b) a) false.

Definition grid3 (xs ys zs : list Z) : list pt3 := flat_map (fun x => flat_map (fun y => map (fun z => (x, y, z)) zs) ys) xs.
Definition qubits (Lx Ly Lz : Z) : list pt3 :=
  grid3 (odds Lx) (evens Ly) (evens Lz) ++ grid3 (evens Lx) (odds Ly) (evens Lz) ++ grid3 (evens Lx) (evens Ly) (odds Lz).
Definition stab_coords (Lx Ly Lz : Z) : list pt3 :=
  grid3 (evens Lx) (evens Ly) (evens Lz) ++ grid3 (odds Lx) (odds Ly) (evens Lz)
  ++ grid3 (evens Lx) (odds Ly) (odds Lz) ++ grid3 (odds Lx) (evens Ly) (odds Lz).

Definition is_vertex (loc : pt3) : bool := let '(x, y, z) := loc in (x mod 2 =? 0) && (y mod 2 =? 0).
Definition deltas (loc : pt3) : list pt3 :=
  let '(x, y, z) := loc in
  if is_vertex loc then [(-1, 0, 0); (1, 0, 0); (0, -1, 0); (0, 1, 0); (0, 0, -1); (0, 0, 1)]
  else if z mod 2 =? 0 then [(-1, 0, 0); (1, 0, 0); (0, -1, 0); (0, 1, 0)]
  else if x mod 2 =? 0 then [(0, -1, 0); (0, 1, 0); (0, 0, -1); (0, 0, 1)]
  else [(-1, 0, 0); (1, 0, 0); (0, 0, -1); (0, 0, 1)].
Definition shift (mx my mz : Z) (loc d : pt3) : pt3 :=
  let '(x, y, z) := loc in let '(dx, dy, dz) := d in ((x + dx) mod mx, (y + dy) mod my, (z + dz) mod mz).
Definition is_qubit_b (Lx Ly Lz : Z) (q : pt3) : bool :=
  let '(x, y, z) := q in
  (0 <=? x) && (x <? 2 * Lx) && (0 <=? y) && (y <? 2 * Ly) && (0 <=? z) && (z <? 2 * Lz) &&
  (((x mod 2 =? 1) && (y mod 2 =? 0) && (z mod 2 =? 0)) || ((x mod 2 =? 0) && (y mod 2 =? 1) && (z mod 2 =? 0))
   || ((x mod 2 =? 0) && (y mod 2 =? 0) && (z mod 2 =? 1))).
Definition support (Lx Ly Lz : Z) (loc : pt3) : list pt3 :=
  filter (is_qubit_b Lx Ly Lz) (map (shift (2 * Lx) (2 * Ly) (2 * Lz) loc) (deltas loc)).

(** membership in a planar 4-neighbourhood embedded in 3-D reduces to the 2-D neighbourhood *)
Lemma mem3_xy mx my qx qy qz fx fy fz :
  mem3 (qx, qy, qz) [((fx - 1) mod mx, fy, fz); ((fx + 1) mod mx, fy, fz); (fx, (fy - 1) mod my, fz); (fx, (fy + 1) mod my, fz)]
  = (qz =? fz) && mem (qx, qy) (nbrs mx my (fx, fy)).
Proof.
  unfold mem3, mem, nbrs, pt3_eqb, pt_eqb; cbn [existsb fst snd].
  destruct (qz =? fz); rewrite ?andb_true_r, ?andb_false_r; reflexivity.
Qed.
Lemma mem3_yz my mz qx qy qz fx fy fz :
  mem3 (qx, qy, qz) [(fx, (fy - 1) mod my, fz); (fx, (fy + 1) mod my, fz); (fx, fy, (fz - 1) mod mz); (fx, fy, (fz + 1) mod mz)]
  = (qx =? fx) && mem (qy, qz) (nbrs my mz (fy, fz)).
Proof.
  unfold mem3, mem, nbrs, pt3_eqb, pt_eqb; cbn [existsb fst snd].
  destruct (qx =? fx); cbn [andb]; reflexivity.
Qed.
Lemma mem3_xz mx mz qx qy qz fx fy fz :
  mem3 (qx, qy, qz) [((fx - 1) mod mx, fy, fz); ((fx + 1) mod mx, fy, fz); (fx, fy, (fz - 1) mod mz); (fx, fy, (fz + 1) mod mz)]
  = (qy =? fy) && mem (qx, qz) (nbrs mx mz (fx, fz)).
Proof.
  unfold mem3, mem, nbrs, pt3_eqb, pt_eqb; cbn [existsb fst snd].
  destruct (qy =? fy); rewrite ?andb_true_r, ?andb_false_r; cbn [andb]; reflexivity.
Qed.

Lemma mem_nbrs_far mx my qx qy fx fy : qx <> fx -> qy <> fy -> mem (qx, qy) (nbrs mx my (fx, fy)) = false.
Proof. intros Hx Hy. rewrite mem_nbrs. assert ((qy =? fy) = false) by lia. assert ((qx =? fx) = false) by lia. rewrite H, H0, andb_false_r. reflexivity. Qed.

Section Overlap.
  Variables hx hy hz vx vy vz fx fy fz : Z.
  Hypothesis Hhx : 2 <= hx. Hypothesis Hhy : 2 <= hy. Hypothesis Hhz : 2 <= hz.
  Hypothesis Rvx : 0 <= vx < 2 * hx. Hypothesis Rvy : 0 <= vy < 2 * hy. Hypothesis Rvz : 0 <= vz < 2 * hz.
  Hypothesis Rfx : 0 <= fx < 2 * hx. Hypothesis Rfy : 0 <= fy < 2 * hy. Hypothesis Rfz : 0 <= fz < 2 * hz.
  Hypothesis Pvx : vx mod 2 = 0. Hypothesis Pvy : vy mod 2 = 0. Hypothesis Pvz : vz mod 2 = 0.

  Let V : list pt3 := map (shift (2 * hx) (2 * hy) (2 * hz) (vx, vy, vz)) [(-1, 0, 0); (1, 0, 0); (0, -1, 0); (0, 1, 0); (0, 0, -1); (0, 0, 1)].

  Lemma V_unfold : V = [((vx - 1) mod (2 * hx), vy, vz); ((vx + 1) mod (2 * hx), vy, vz); (vx, (vy - 1) mod (2 * hy), vz);
                        (vx, (vy + 1) mod (2 * hy), vz); (vx, vy, (vz - 1) mod (2 * hz)); (vx, vy, (vz + 1) mod (2 * hz))].
  Proof.
    unfold V. cbn [map shift]. rewrite !Z.add_0_r. replace (vx + -1) with (vx - 1) by lia. replace (vy + -1) with (vy - 1) by lia.
    replace (vz + -1) with (vz - 1) by lia.
    rewrite (Z.mod_small vx), (Z.mod_small vy), (Z.mod_small vz) by lia. reflexivity.
  Qed.

  (** face in the xy plane: fx, fy odd, fz even *)
  Lemma overlap_xy : fx mod 2 = 1 -> fy mod 2 = 1 -> fz mod 2 = 0 ->
    overlap3 V [((fx - 1) mod (2 * hx), fy, fz); ((fx + 1) mod (2 * hx), fy, fz); (fx, (fy - 1) mod (2 * hy), fz); (fx, (fy + 1) mod (2 * hy), fz)] = false.
  Proof.
    intros Pfx Pfy Pfz. rewrite V_unfold. unfold overlap3. cbn [map fold_left]. rewrite !mem3_xy.
    rewrite (mem_nbrs_far _ _ vx vy fx fy) by lia. rewrite !andb_false_r.
    pose proof (nbrs_overlap_even hx hy vx vy fx fy Hhx Hhy Rvx Rvy Rfx Rfy ltac:(lia) ltac:(lia)) as H2.
    unfold overlap_par in H2. cbn [nbrs map fold_left] in H2.
    destruct (vz =? fz); cbn [andb xorb]; [|reflexivity].
    rewrite !xorb_false_r. exact H2.
  Qed.

  (** face in the yz plane: fx even, fy odd, fz odd *)
  Lemma overlap_yz : fx mod 2 = 0 -> fy mod 2 = 1 -> fz mod 2 = 1 ->
    overlap3 V [(fx, (fy - 1) mod (2 * hy), fz); (fx, (fy + 1) mod (2 * hy), fz); (fx, fy, (fz - 1) mod (2 * hz)); (fx, fy, (fz + 1) mod (2 * hz))] = false.
  Proof.
    intros Pfx Pfy Pfz. rewrite V_unfold. unfold overlap3. cbn [map fold_left]. rewrite !mem3_yz.
    destruct (wrap_pred hx vx Hhx Rvx) as [A1 A2]. destruct (wrap_succ hx vx Hhx Rvx) as [B1 B2].
    assert (E1 : ((vx - 1) mod (2 * hx) =? fx) = false) by lia. assert (E2 : ((vx + 1) mod (2 * hx) =? fx) = false) by lia.
    rewrite E1, E2. cbn [andb xorb].
    pose proof (nbrs_overlap_even hy hz vy vz fy fz Hhy Hhz Rvy Rvz Rfy Rfz ltac:(lia) ltac:(lia)) as H2.
    unfold overlap_par in H2. cbn [nbrs map fold_left] in H2.
    destruct (vx =? fx); cbn [andb xorb]; [|reflexivity]. exact H2.
  Qed.

  (** face in the xz plane: fx odd, fy even, fz odd *)
  Lemma overlap_xz : fx mod 2 = 1 -> fy mod 2 = 0 -> fz mod 2 = 1 ->
    overlap3 V [((fx - 1) mod (2 * hx), fy, fz); ((fx + 1) mod (2 * hx), fy, fz); (fx, fy, (fz - 1) mod (2 * hz)); (fx, fy, (fz + 1) mod (2 * hz))] = false.
  Proof.
    intros Pfx Pfy Pfz. rewrite V_unfold. unfold overlap3. cbn [map fold_left]. rewrite !mem3_xz.
    destruct (wrap_pred hy vy Hhy Rvy) as [A1 A2]. destruct (wrap_succ hy vy Hhy Rvy) as [B1 B2].
    assert (E1 : ((vy - 1) mod (2 * hy) =? fy) = false) by lia. assert (E2 : ((vy + 1) mod (2 * hy) =? fy) = false) by lia.
    rewrite E1, E2. cbn [andb].
    pose proof (nbrs_overlap_even hx hz vx vz fx fz Hhx Hhz Rvx Rvz Rfx Rfz ltac:(lia) ltac:(lia)) as H2.
    unfold overlap_par in H2. cbn [nbrs map fold_left] in H2.
    destruct (vy =? fy); cbn [andb xorb]; [|reflexivity].
    rewrite !xorb_false_r. exact H2.
  Qed.
End Overlap.

(** ** from the generated coordinate lists to ranges and parities *)
Lemma in_grid3 xs ys zs x y z : In (x, y, z) (grid3 xs ys zs) <-> In x xs /\ In y ys /\ In z zs.
Proof.
  unfold grid3. rewrite in_flat_map. split.
  - intros [x' [Hx H]]. rewrite in_flat_map in H. destruct H as [y' [Hy H]]. rewrite in_map_iff in H.
    destruct H as [z' [E Hz]]. injection E as -> -> ->. auto.
  - intros (Hx & Hy & Hz). exists x. split; [assumption|]. rewrite in_flat_map. exists y. split; [assumption|].
    rewrite in_map_iff. exists z. auto.
Qed.
Lemma in_odds L x : In x (odds L) -> 0 <= x < 2 * L /\ x mod 2 = 1.
Proof. unfold odds. rewrite in_range2. intros [k [Hk ->]]. lia. Qed.
Lemma in_evens L x : In x (evens L) -> 0 <= x < 2 * L /\ x mod 2 = 0.
Proof. unfold evens. rewrite in_range2. intros [k [Hk ->]]. lia. Qed.

Lemma stab_cases Lx Ly Lz x y z : In (x, y, z) (stab_coords Lx Ly Lz) ->
  0 <= x < 2 * Lx /\ 0 <= y < 2 * Ly /\ 0 <= z < 2 * Lz /\
  ((x mod 2 = 0 /\ y mod 2 = 0 /\ z mod 2 = 0) \/ (x mod 2 = 1 /\ y mod 2 = 1 /\ z mod 2 = 0) \/
   (x mod 2 = 0 /\ y mod 2 = 1 /\ z mod 2 = 1) \/ (x mod 2 = 1 /\ y mod 2 = 0 /\ z mod 2 = 1)).
Proof.
  unfold stab_coords. rewrite !in_app_iff, !in_grid3.
  intros [(A & B & C)|[(A & B & C)|[(A & B & C)|(A & B & C)]]];
    repeat match goal with
           | H : In _ (odds _) |- _ => apply in_odds in H
           | H : In _ (evens _) |- _ => apply in_evens in H
           end; lia.
Qed.

Lemma is_qubit_b_intro3 Lx Ly Lz x y z : 0 <= x < 2 * Lx -> 0 <= y < 2 * Ly -> 0 <= z < 2 * Lz ->
  x mod 2 + y mod 2 + z mod 2 = 1 -> is_qubit_b Lx Ly Lz (x, y, z) = true.
Proof. intros Hx Hy Hz Hp. unfold is_qubit_b. lia. Qed.

Lemma filter_all {A} (p : A -> bool) l : (forall a, In a l -> p a = true) -> filter p l = l.
Proof. induction l as [|a l IH]; intros H; [reflexivity|]. cbn. rewrite (H a) by now left. f_equal. apply IH. intros b Hb. apply H. now right. Qed.

Section Supports.
  Variables Lx Ly Lz x y z : Z.
  Hypothesis HLx : 2 <= Lx. Hypothesis HLy : 2 <= Ly. Hypothesis HLz : 2 <= Lz.
  Hypothesis Rx : 0 <= x < 2 * Lx. Hypothesis Ry : 0 <= y < 2 * Ly. Hypothesis Rz : 0 <= z < 2 * Lz.

  Ltac wrap1 W := let m := fresh "m" in
    match type of W with _ <= ?t < _ /\ _ => set (m := t) in *; clearbody m; destruct W as [? ?] end.
  Ltac wraps :=
    let W := fresh "W" in
    pose proof (wrap_pred Lx x HLx Rx) as W; wrap1 W; pose proof (wrap_succ Lx x HLx Rx) as W; wrap1 W;
    pose proof (wrap_pred Ly y HLy Ry) as W; wrap1 W; pose proof (wrap_succ Ly y HLy Ry) as W; wrap1 W;
    pose proof (wrap_pred Lz z HLz Rz) as W; wrap1 W; pose proof (wrap_succ Lz z HLz Rz) as W; wrap1 W.

  Lemma support_vertex : x mod 2 = 0 -> y mod 2 = 0 -> z mod 2 = 0 ->
    support Lx Ly Lz (x, y, z) =
    map (shift (2 * Lx) (2 * Ly) (2 * Lz) (x, y, z)) [(-1, 0, 0); (1, 0, 0); (0, -1, 0); (0, 1, 0); (0, 0, -1); (0, 0, 1)].
  Proof.
    intros Px Py Pz. unfold support, deltas, is_vertex.
    replace (x mod 2 =? 0) with true by lia. replace (y mod 2 =? 0) with true by lia. cbn [andb].
    apply filter_all. intros a Ha. rewrite (V_unfold Lx Ly Lz x y z) in Ha by lia. wraps.
    cbn [In] in Ha. destruct Ha as [<-|[<-|[<-|[<-|[<-|[<-|[]]]]]]]; apply is_qubit_b_intro3; lia.
  Qed.

  Lemma support_face_xy : x mod 2 = 1 -> y mod 2 = 1 -> z mod 2 = 0 ->
    support Lx Ly Lz (x, y, z) =
    [((x - 1) mod (2 * Lx), y, z); ((x + 1) mod (2 * Lx), y, z); (x, (y - 1) mod (2 * Ly), z); (x, (y + 1) mod (2 * Ly), z)].
  Proof.
    intros Px Py Pz. unfold support, deltas, is_vertex.
    replace (x mod 2 =? 0) with false by lia. cbn [andb]. replace (z mod 2 =? 0) with true by lia.
    cbn [map shift]. rewrite !Z.add_0_r. replace (x + -1) with (x - 1) by lia. replace (y + -1) with (y - 1) by lia.
    rewrite (Z.mod_small x), (Z.mod_small y), (Z.mod_small z) by lia.
    apply filter_all. intros a Ha. wraps.
    cbn [In] in Ha. destruct Ha as [<-|[<-|[<-|[<-|[]]]]]; apply is_qubit_b_intro3; lia.
  Qed.

  Lemma support_face_yz : x mod 2 = 0 -> y mod 2 = 1 -> z mod 2 = 1 ->
    support Lx Ly Lz (x, y, z) =
    [(x, (y - 1) mod (2 * Ly), z); (x, (y + 1) mod (2 * Ly), z); (x, y, (z - 1) mod (2 * Lz)); (x, y, (z + 1) mod (2 * Lz))].
  Proof.
    intros Px Py Pz. unfold support, deltas, is_vertex.
    replace (x mod 2 =? 0) with true by lia. replace (y mod 2 =? 0) with false by lia. cbn [andb].
    replace (z mod 2 =? 0) with false by lia.
    cbn [map shift]. rewrite !Z.add_0_r. replace (z + -1) with (z - 1) by lia. replace (y + -1) with (y - 1) by lia.
    rewrite (Z.mod_small x), (Z.mod_small y), (Z.mod_small z) by lia.
    apply filter_all. intros a Ha. wraps.
    cbn [In] in Ha. destruct Ha as [<-|[<-|[<-|[<-|[]]]]]; apply is_qubit_b_intro3; lia.
  Qed.

  Lemma support_face_xz : x mod 2 = 1 -> y mod 2 = 0 -> z mod 2 = 1 ->
    support Lx Ly Lz (x, y, z) =
    [((x - 1) mod (2 * Lx), y, z); ((x + 1) mod (2 * Lx), y, z); (x, y, (z - 1) mod (2 * Lz)); (x, y, (z + 1) mod (2 * Lz))].
  Proof.
    intros Px Py Pz. unfold support, deltas, is_vertex.
    replace (x mod 2 =? 0) with false by lia. cbn [andb].
    replace (z mod 2 =? 0) with false by lia.
    cbn [map shift]. rewrite !Z.add_0_r. replace (z + -1) with (z - 1) by lia. replace (x + -1) with (x - 1) by lia.
    rewrite (Z.mod_small x), (Z.mod_small y), (Z.mod_small z) by lia.
    apply filter_all. intros a Ha. wraps.
    cbn [In] in Ha. destruct Ha as [<-|[<-|[<-|[<-|[]]]]]; apply is_qubit_b_intro3; lia.
  Qed.
End Supports.

(** *** C01 (commutation clause) for Toric3DCode, all sizes *)
Theorem toric3d_vertex_face_commute Lx Ly Lz v f :
  2 <= Lx -> 2 <= Ly -> 2 <= Lz -> In v (stab_coords Lx Ly Lz) -> In f (stab_coords Lx Ly Lz) ->
  is_vertex v = true -> is_vertex f = false ->
  overlap3 (support Lx Ly Lz v) (support Lx Ly Lz f) = false.
Proof.
  intros HLx HLy HLz Hv Hf Tv Tf. destruct v as [[vx vy] vz], f as [[fx fy] fz].
  destruct (stab_cases _ _ _ _ _ _ Hv) as (V1 & V2 & V3 & VP). destruct (stab_cases _ _ _ _ _ _ Hf) as (F1 & F2 & F3 & FP).
  unfold is_vertex in Tv, Tf.
  assert (PV : vx mod 2 = 0 /\ vy mod 2 = 0 /\ vz mod 2 = 0) by lia. destruct PV as (Pvx & Pvy & Pvz).
  rewrite (support_vertex Lx Ly Lz vx vy vz) by assumption.
  destruct FP as [FP|[FP|[FP|FP]]]; [lia| | |].
  - destruct FP as (P1 & P2 & P3). rewrite (support_face_xy Lx Ly Lz fx fy fz) by assumption. apply overlap_xy; assumption.
  - destruct FP as (P1 & P2 & P3). rewrite (support_face_yz Lx Ly Lz fx fy fz) by assumption. apply overlap_yz; assumption.
  - destruct FP as (P1 & P2 & P3). rewrite (support_face_xz Lx Ly Lz fx fy fz) by assumption. apply overlap_xz; assumption.
Qed.

(** ** tables for the tie with the implementation *)
Fixpoint pt3l_eqb (a b : list pt3) : bool :=
  match a, b with [], [] => true | x :: a', y :: b' => pt3_eqb x y && pt3l_eqb a' b' | _, _ => false end.
Fixpoint pt3ll_eqb (a b : list (list pt3)) : bool :=
  match a, b with [], [] => true | x :: a', y :: b' => pt3l_eqb x y && pt3ll_eqb a' b' | _, _ => false end.
Definition table_matches (Lx Ly Lz : Z) (qs ss : list pt3) (supports : list (list pt3)) : bool :=
  pt3l_eqb (qubits Lx Ly Lz) qs && pt3l_eqb (stab_coords Lx Ly Lz) ss
  && pt3ll_eqb (map (support Lx Ly Lz) (stab_coords Lx Ly Lz)) supports.

(** ** symmetry of the overlap parity on duplicate-free supports, and commutation of ALL generators *)
Lemma pt3_eqb_eq a b : pt3_eqb a b = true <-> a = b.
Proof. destruct a as [[ax ay] az], b as [[bx by_] bz]. unfold pt3_eqb. rewrite !andb_true_iff, !Z.eqb_eq. split; [intros [[-> ->] ->]; reflexivity|intros E; injection E; auto]. Qed.
Lemma mem3_In q l : mem3 q l = true <-> In q l.
Proof. unfold mem3. rewrite existsb_exists. split; [intros [x [Hx E]]; apply pt3_eqb_eq in E; subst; assumption|intros H; exists q; split; [assumption|apply pt3_eqb_eq; reflexivity]]. Qed.

Lemma fold_xorb_odd (l : list bool) acc : fold_left xorb l acc = xorb acc (Nat.odd (length (filter (fun b => b) l))).
Proof.
  revert acc; induction l as [|b l IH]; intros acc; cbn [fold_left filter length]; [now rewrite xorb_false_r|].
  rewrite IH. destruct b; cbn [length]; [|now rewrite xorb_false_r]. rewrite Nat.odd_succ, <- Nat.negb_odd. destruct acc, (Nat.odd _); reflexivity.
Qed.
Lemma filter_map_length {A} (p : A -> bool) l : length (filter (fun b => b) (map p l)) = length (filter p l).
Proof. induction l as [|a l IH]; [reflexivity|]. cbn. destruct (p a); cbn; rewrite IH; reflexivity. Qed.
Lemma overlap3_odd a b : overlap3 a b = Nat.odd (length (filter (fun q => mem3 q b) a)).
Proof. unfold overlap3. rewrite fold_xorb_odd, filter_map_length. apply xorb_false_l. Qed.

Theorem overlap3_sym a b : NoDup a -> NoDup b -> overlap3 a b = overlap3 b a.
Proof.
  intros Ha Hb. rewrite !overlap3_odd. f_equal. apply Permutation_length. apply NoDup_Permutation.
  - apply NoDup_filter; assumption.
  - apply NoDup_filter; assumption.
  - intros q. rewrite !filter_In, !mem3_In. tauto.
Qed.

Lemma wrap_distinct h a : 2 <= h -> 0 <= a < 2 * h ->
  (a - 1) mod (2 * h) <> a /\ (a + 1) mod (2 * h) <> a /\ (a - 1) mod (2 * h) <> (a + 1) mod (2 * h).
Proof. intros Hh Ha. rewrite mod_pred, mod_succ by lia. destruct (a =? 0) eqn:E1, (a =? 2 * h - 1) eqn:E2; lia. Qed.

Ltac nodup3 :=
  repeat (apply NoDup_cons;
          [cbn [In]; let HH := fresh "HH" in intros HH;
           repeat (destruct HH as [HH|HH];
                   [apply pair_equal_spec in HH; let H2 := fresh in destruct HH as [HH H2]; apply pair_equal_spec in HH; lia|]);
           exact HH|]);
  apply NoDup_nil.

Section NoDupSupports.
  Variables Lx Ly Lz x y z : Z.
  Hypothesis HLx : 2 <= Lx. Hypothesis HLy : 2 <= Ly. Hypothesis HLz : 2 <= Lz.
  Hypothesis Rx : 0 <= x < 2 * Lx. Hypothesis Ry : 0 <= y < 2 * Ly. Hypothesis Rz : 0 <= z < 2 * Lz.

  Ltac dist1 W := let m := fresh "m" in let n := fresh "n" in
    match type of W with ?t <> _ /\ ?u <> _ /\ _ => set (m := t) in *; set (n := u) in *; clearbody m n; destruct W as (? & ? & ?) end.
  Ltac dists :=
    let W := fresh "W" in
    pose proof (wrap_distinct Lx x HLx Rx) as W; dist1 W; pose proof (wrap_distinct Ly y HLy Ry) as W; dist1 W;
    pose proof (wrap_distinct Lz z HLz Rz) as W; dist1 W.

  Lemma nodup_vertex : x mod 2 = 0 -> y mod 2 = 0 -> z mod 2 = 0 -> NoDup (support Lx Ly Lz (x, y, z)).
  Proof.
    intros Px Py Pz. rewrite support_vertex by assumption. rewrite (V_unfold Lx Ly Lz x y z) by lia.
    dists. clear Px Py Pz. nodup3.
  Qed.
  Lemma nodup_face_xy : x mod 2 = 1 -> y mod 2 = 1 -> z mod 2 = 0 -> NoDup (support Lx Ly Lz (x, y, z)).
  Proof. intros Px Py Pz. rewrite support_face_xy by assumption. dists. clear Px Py Pz. nodup3. Qed.
  Lemma nodup_face_yz : x mod 2 = 0 -> y mod 2 = 1 -> z mod 2 = 1 -> NoDup (support Lx Ly Lz (x, y, z)).
  Proof. intros Px Py Pz. rewrite support_face_yz by assumption. dists. clear Px Py Pz. nodup3. Qed.
  Lemma nodup_face_xz : x mod 2 = 1 -> y mod 2 = 0 -> z mod 2 = 1 -> NoDup (support Lx Ly Lz (x, y, z)).
  Proof. intros Px Py Pz. rewrite support_face_xz by assumption. dists. clear Px Py Pz. nodup3. Qed.
End NoDupSupports.

Theorem support_nodup Lx Ly Lz s : 2 <= Lx -> 2 <= Ly -> 2 <= Lz -> In s (stab_coords Lx Ly Lz) -> NoDup (support Lx Ly Lz s).
Proof.
  intros HLx HLy HLz Hs. destruct s as [[x y] z]. destruct (stab_cases _ _ _ _ _ _ Hs) as (R1 & R2 & R3 & P).
  destruct P as [(A & B & C)|[(A & B & C)|[(A & B & C)|(A & B & C)]]].
  - apply nodup_vertex; assumption.
  - apply nodup_face_xy; assumption.
  - apply nodup_face_yz; assumption.
  - apply nodup_face_xz; assumption.
Qed.

Definition ops_commute3 (za : bool) (sa : list pt3) (zb : bool) (sb : list pt3) : bool :=
  if Bool.eqb za zb then true else negb (overlap3 sa sb).

Theorem toric3d_stabilizers_commute Lx Ly Lz s s' :
  2 <= Lx -> 2 <= Ly -> 2 <= Lz -> In s (stab_coords Lx Ly Lz) -> In s' (stab_coords Lx Ly Lz) ->
  ops_commute3 (is_vertex s) (support Lx Ly Lz s) (is_vertex s') (support Lx Ly Lz s') = true.
Proof.
  intros HLx HLy HLz Hs Hs'. unfold ops_commute3.
  destruct (is_vertex s) eqn:E, (is_vertex s') eqn:E'; cbn [Bool.eqb]; try reflexivity; apply negb_true_iff.
  - apply toric3d_vertex_face_commute; assumption.
  - rewrite overlap3_sym by (apply support_nodup; assumption). apply toric3d_vertex_face_commute; assumption.
Qed.

(** ** logical operators: commutation with the generators and X_i / Z_j pairing, for all sizes *)
Ltac pteq := repeat (apply pair_equal_spec; split); lia.

(** ** logical operators of Toric3DCode: three X lines and three Z sheets *)
Definition lx1 (Lx : Z) : list pt3 := map (fun x => (x, 0, 0)) (odds Lx).
Definition lx2 (Ly : Z) : list pt3 := map (fun y => (0, y, 0)) (odds Ly).
Definition lx3 (Lz : Z) : list pt3 := map (fun z => (0, 0, z)) (odds Lz).
Definition lz1 (Ly Lz : Z) : list pt3 := flat_map (fun y => map (fun z => (1, y, z)) (evens Lz)) (evens Ly).
Definition lz2 (Lz Lx : Z) : list pt3 := flat_map (fun z => map (fun x => (x, 1, z)) (evens Lx)) (evens Lz).
Definition lz3 (Lx Ly : Z) : list pt3 := flat_map (fun x => map (fun y => (x, y, 1)) (evens Ly)) (evens Lx).

Definition on_odd (L a : Z) : bool := (0 <=? a) && (a <? 2 * L) && (a mod 2 =? 1).
Definition on_even (L a : Z) : bool := (0 <=? a) && (a <? 2 * L) && (a mod 2 =? 0).
Lemma in_odds_iff L a : In a (odds L) <-> on_odd L a = true.
Proof. unfold odds, on_odd. rewrite in_range2. split; [intros [k [Hk ->]]; lia|intros H; exists (a / 2); lia]. Qed.
Lemma in_evens_iff L a : In a (evens L) <-> on_even L a = true.
Proof. unfold evens, on_even. rewrite in_range2. split; [intros [k [Hk ->]]; lia|intros H; exists (a / 2); lia]. Qed.

Lemma mem3_lx1 Lx x y z : mem3 (x, y, z) (lx1 Lx) = (y =? 0) && (z =? 0) && on_odd Lx x.
Proof.
  apply Bool.eq_true_iff_eq. rewrite mem3_In. unfold lx1. rewrite in_map_iff, !andb_true_iff, <- in_odds_iff. split.
  - intros [x' [E Hx]]. injection E as -> <- <-. split; [split; lia|assumption].
  - intros [[Hy Hz] Hx]. exists x. split; [pteq|assumption].
Qed.
Lemma mem3_lx2 Ly x y z : mem3 (x, y, z) (lx2 Ly) = (x =? 0) && (z =? 0) && on_odd Ly y.
Proof.
  apply Bool.eq_true_iff_eq. rewrite mem3_In. unfold lx2. rewrite in_map_iff, !andb_true_iff, <- in_odds_iff. split.
  - intros [y' [E Hy]]. injection E as <- -> <-. split; [split; lia|assumption].
  - intros [[Hx Hz] Hy]. exists y. split; [pteq|assumption].
Qed.
Lemma mem3_lx3 Lz x y z : mem3 (x, y, z) (lx3 Lz) = (x =? 0) && (y =? 0) && on_odd Lz z.
Proof.
  apply Bool.eq_true_iff_eq. rewrite mem3_In. unfold lx3. rewrite in_map_iff, !andb_true_iff, <- in_odds_iff. split.
  - intros [z' [E Hz]]. injection E as <- <- ->. split; [split; lia|assumption].
  - intros [[Hx Hy] Hz]. exists z. split; [pteq|assumption].
Qed.
Lemma mem3_lz1 Ly Lz x y z : mem3 (x, y, z) (lz1 Ly Lz) = (x =? 1) && on_even Ly y && on_even Lz z.
Proof.
  apply Bool.eq_true_iff_eq. rewrite mem3_In. unfold lz1. rewrite in_flat_map, !andb_true_iff, <- !in_evens_iff. split.
  - intros [y' [Hy H]]. rewrite in_map_iff in H. destruct H as [z' [E Hz]]. injection E as <- -> ->. split; [split; [lia|assumption]|assumption].
  - intros [[Hx Hy] Hz]. exists y. split; [assumption|]. rewrite in_map_iff. exists z. split; [pteq|assumption].
Qed.
Lemma mem3_lz2 Lz Lx x y z : mem3 (x, y, z) (lz2 Lz Lx) = (y =? 1) && on_even Lz z && on_even Lx x.
Proof.
  apply Bool.eq_true_iff_eq. rewrite mem3_In. unfold lz2. rewrite in_flat_map, !andb_true_iff, <- !in_evens_iff. split.
  - intros [z' [Hz H]]. rewrite in_map_iff in H. destruct H as [x' [E Hx]]. injection E as -> <- ->. split; [split; [lia|assumption]|assumption].
  - intros [[Hy Hz] Hx]. exists z. split; [assumption|]. rewrite in_map_iff. exists x. split; [pteq|assumption].
Qed.
Lemma mem3_lz3 Lx Ly x y z : mem3 (x, y, z) (lz3 Lx Ly) = (z =? 1) && on_even Lx x && on_even Ly y.
Proof.
  apply Bool.eq_true_iff_eq. rewrite mem3_In. unfold lz3. rewrite in_flat_map, !andb_true_iff, <- !in_evens_iff. split.
  - intros [x' [Hx H]]. rewrite in_map_iff in H. destruct H as [y' [E Hy]]. injection E as -> -> <-. split; [split; [lia|assumption]|assumption].
  - intros [[Hz Hx] Hy]. exists x. split; [assumption|]. rewrite in_map_iff. exists y. split; [pteq|assumption].
Qed.

(** every term of the parity sum is decided by linear arithmetic once the position of the generator
    relative to the line / sheet is fixed *)
Ltac decide_xor :=
  repeat match goal with
         | |- context[xorb _ ?t] =>
           lazymatch t with true => fail | false => fail
           | _ => first [replace t with false by (unfold on_odd, on_even; lia) | replace t with true by (unfold on_odd, on_even; lia)] end
         end.

Ltac wrap1' W := let m := fresh "m" in
  match type of W with _ <= ?t < _ /\ _ => set (m := t) in *; clearbody m; destruct W as [? ?] end.
Ltac wraps3 Lx Ly Lz x y z HLx HLy HLz Rx Ry Rz :=
  let W := fresh "W" in
  pose proof (wrap_pred Lx x HLx Rx) as W; wrap1' W; pose proof (wrap_succ Lx x HLx Rx) as W; wrap1' W;
  pose proof (wrap_pred Ly y HLy Ry) as W; wrap1' W; pose proof (wrap_succ Ly y HLy Ry) as W; wrap1' W;
  pose proof (wrap_pred Lz z HLz Rz) as W; wrap1' W; pose proof (wrap_succ Lz z HLz Rz) as W; wrap1' W.
Ltac split_pos a b :=
  let E1 := fresh "E" in let E2 := fresh "E" in
  destruct (a =? 0) eqn:E1; destruct (b =? 0) eqn:E2.
Ltac finish_par := unfold overlap3; cbn [map fold_left]; rewrite ?mem3_lx1, ?mem3_lx2, ?mem3_lx3, ?mem3_lz1, ?mem3_lz2, ?mem3_lz3.

(** *** X-type logicals against the Z-type (vertex) generators *)
Theorem toric3d_logical_x_commute Lx Ly Lz v :
  2 <= Lx -> 2 <= Ly -> 2 <= Lz -> In v (stab_coords Lx Ly Lz) -> is_vertex v = true ->
  overlap3 (support Lx Ly Lz v) (lx1 Lx) = false /\ overlap3 (support Lx Ly Lz v) (lx2 Ly) = false /\
  overlap3 (support Lx Ly Lz v) (lx3 Lz) = false.
Proof.
  intros HLx HLy HLz Hv Tv. destruct v as [[x y] z].
  destruct (stab_cases _ _ _ _ _ _ Hv) as (Rx & Ry & Rz & P). unfold is_vertex in Tv.
  assert (PV : x mod 2 = 0 /\ y mod 2 = 0 /\ z mod 2 = 0) by lia. destruct PV as (Px & Py & Pz). clear P Tv Hv.
  rewrite (support_vertex Lx Ly Lz x y z) by assumption. rewrite (V_unfold Lx Ly Lz x y z) by lia.
  wraps3 Lx Ly Lz x y z HLx HLy HLz Rx Ry Rz.
  repeat split; finish_par.
  - destruct (y =? 0) eqn:E1, (z =? 0) eqn:E2; decide_xor; reflexivity.
  - destruct (x =? 0) eqn:E1, (z =? 0) eqn:E2; decide_xor; reflexivity.
  - destruct (x =? 0) eqn:E1, (y =? 0) eqn:E2; decide_xor; reflexivity.
Qed.

(** *** Z-type logicals against the X-type (face) generators *)
Theorem toric3d_logical_z_commute Lx Ly Lz f :
  2 <= Lx -> 2 <= Ly -> 2 <= Lz -> In f (stab_coords Lx Ly Lz) -> is_vertex f = false ->
  overlap3 (support Lx Ly Lz f) (lz1 Ly Lz) = false /\ overlap3 (support Lx Ly Lz f) (lz2 Lz Lx) = false /\
  overlap3 (support Lx Ly Lz f) (lz3 Lx Ly) = false.
Proof.
  intros HLx HLy HLz Hf Tf. destruct f as [[x y] z].
  destruct (stab_cases _ _ _ _ _ _ Hf) as (Rx & Ry & Rz & P). unfold is_vertex in Tf.
  destruct P as [P|[(Px & Py & Pz)|[(Px & Py & Pz)|(Px & Py & Pz)]]]; [lia| | |]; clear Tf Hf.
  - rewrite (support_face_xy Lx Ly Lz x y z) by assumption. wraps3 Lx Ly Lz x y z HLx HLy HLz Rx Ry Rz.
    repeat split; finish_par.
    + destruct (x =? 1) eqn:E1; decide_xor; reflexivity.
    + destruct (y =? 1) eqn:E1; decide_xor; reflexivity.
    + decide_xor; reflexivity.
  - rewrite (support_face_yz Lx Ly Lz x y z) by assumption. wraps3 Lx Ly Lz x y z HLx HLy HLz Rx Ry Rz.
    repeat split; finish_par.
    + decide_xor; reflexivity.
    + destruct (y =? 1) eqn:E1; decide_xor; reflexivity.
    + destruct (z =? 1) eqn:E1; decide_xor; reflexivity.
  - rewrite (support_face_xz Lx Ly Lz x y z) by assumption. wraps3 Lx Ly Lz x y z HLx HLy HLz Rx Ry Rz.
    repeat split; finish_par.
    + destruct (x =? 1) eqn:E1; decide_xor; reflexivity.
    + decide_xor; reflexivity.
    + destruct (z =? 1) eqn:E1; decide_xor; reflexivity.
Qed.

(** *** logical X_i and Z_j share one qubit when i = j and none otherwise: they anticommute exactly when i = j *)
Lemma fold_xorb_all_false {A} (g : A -> bool) l acc : (forall a, In a l -> g a = false) -> fold_left xorb (map g l) acc = acc.
Proof.
  revert acc; induction l as [|a l IH]; intros acc H; cbn [map fold_left]; [reflexivity|].
  rewrite (H a) by now left. rewrite xorb_false_r. apply IH. intros b Hb. apply H. now right.
Qed.
Lemma overlap3_map {A} (f : A -> pt3) l b : overlap3 (map f l) b = fold_left xorb (map (fun a => mem3 (f a) b) l) false.
Proof. unfold overlap3. rewrite map_map. reflexivity. Qed.
Lemma odds_cons L : 1 <= L -> odds L = 1 :: range2 3 (Z.to_nat (L - 1)).
Proof. intros H. unfold odds. replace (Z.to_nat L) with (S (Z.to_nat (L - 1))) by lia. reflexivity. Qed.
Lemma fold_first_only L (g : Z -> bool) : 1 <= L -> g 1 = true -> (forall a, 3 <= a -> g a = false) ->
  fold_left xorb (map g (odds L)) false = true.
Proof.
  intros HL H1 Hr. rewrite odds_cons by assumption. cbn [map fold_left]. rewrite H1. cbn [xorb].
  apply fold_xorb_all_false. intros a Ha. apply Hr. apply in_range2 in Ha. destruct Ha as [k [Hk ->]]. lia.
Qed.

Theorem toric3d_logical_pairing Lx Ly Lz : 1 <= Lx -> 1 <= Ly -> 1 <= Lz ->
  overlap3 (lx1 Lx) (lz1 Ly Lz) = true /\ overlap3 (lx1 Lx) (lz2 Lz Lx) = false /\ overlap3 (lx1 Lx) (lz3 Lx Ly) = false /\
  overlap3 (lx2 Ly) (lz1 Ly Lz) = false /\ overlap3 (lx2 Ly) (lz2 Lz Lx) = true /\ overlap3 (lx2 Ly) (lz3 Lx Ly) = false /\
  overlap3 (lx3 Lz) (lz1 Ly Lz) = false /\ overlap3 (lx3 Lz) (lz2 Lz Lx) = false /\ overlap3 (lx3 Lz) (lz3 Lx Ly) = true.
Proof.
  intros HLx HLy HLz. unfold lx1, lx2, lx3. rewrite !overlap3_map.
  repeat match goal with |- _ /\ _ => split end;
    first [ apply fold_first_only; [assumption| |intros a Ha]; rewrite ?mem3_lz1, ?mem3_lz2, ?mem3_lz3; unfold on_even; lia
          | apply fold_xorb_all_false; intros a Ha; rewrite ?mem3_lz1, ?mem3_lz2, ?mem3_lz3; unfold on_even; lia ].
Qed.

(** X-type logicals commute among themselves and Z-type among themselves trivially (same Pauli type). *)

Definition logicals_match (Lx Ly Lz : Z) (x1 x2 x3 z1 z2 z3 : list pt3) : bool :=
  pt3l_eqb (lx1 Lx) x1 && pt3l_eqb (lx2 Ly) x2 && pt3l_eqb (lx3 Lz) x3
  && pt3l_eqb (lz1 Ly Lz) z1 && pt3l_eqb (lz2 Lz Lx) z2 && pt3l_eqb (lz3 Lx Ly) z3.
