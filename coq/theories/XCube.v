(** * XCube: parametric model of [XCubeCode] (Layer P): for EVERY size L_x, L_y, L_z >= 2 every cube generator (Z-type,
    12 edges) and every vertex cruciform generator (X-type, 4 edges in the plane normal to its axis) share an even
    number of qubits.  The edges of a cube that lie in the plane x = c_x -+ 1 are the planar 4-neighbourhood of
    (c_y, c_z), so the statement reduces to the 2-D overlap lemma of Toric2D.v.  Tied to the implementation in C01. *)
From Coq Require Import ZArith List Bool Lia ZifyBool.
From PQ Require Import Toric2D Toric3D.
Import ListNotations.
Local Open Scope Z_scope.
Ltac Zify.zify_post_hook ::= Z.to_euclidean_division_equations.

Definition cubes (Lx Ly Lz : Z) : list pt3 := grid3 (odds Lx) (odds Ly) (odds Lz).
Definition vertices (Lx Ly Lz : Z) : list pt3 := grid3 (evens Lx) (evens Ly) (evens Lz).
Definition cube_deltas : list pt3 :=
  [(1, 1, 0); (-1, -1, 0); (1, -1, 0); (-1, 1, 0); (-1, 0, -1); (1, 0, -1); (0, -1, -1); (0, 1, -1); (-1, 0, 1); (1, 0, 1); (0, -1, 1); (0, 1, 1)].
Definition face_deltas (axis : Z) : list pt3 :=
  if axis =? 0 then [(0, 1, 0); (0, -1, 0); (0, 0, 1); (0, 0, -1)]
  else if axis =? 1 then [(1, 0, 0); (-1, 0, 0); (0, 0, 1); (0, 0, -1)]
  else [(1, 0, 0); (-1, 0, 0); (0, 1, 0); (0, -1, 0)].
Definition cube_support (Lx Ly Lz : Z) (c : pt3) : list pt3 :=
  filter (is_qubit_b Lx Ly Lz) (map (shift (2 * Lx) (2 * Ly) (2 * Lz) c) cube_deltas).
Definition face_support (Lx Ly Lz : Z) (axis : Z) (v : pt3) : list pt3 :=
  filter (is_qubit_b Lx Ly Lz) (map (shift (2 * Lx) (2 * Ly) (2 * Lz) v) (face_deltas axis)).

(** membership in the 12 edges of a cube, for an edge whose x (resp. y, z) coordinate has the parity of a vertex *)
Ltac atoms := repeat match goal with |- context[(?a =? ?b)] => destruct (a =? b) end; reflexivity.

Lemma mem3_cube_x qx qy qz cx cy cz xm xp ym yp zm zp : (qx =? cx) = false ->
  mem3 (qx, qy, qz) [(xp, yp, cz); (xm, ym, cz); (xp, ym, cz); (xm, yp, cz); (xm, cy, zm); (xp, cy, zm); (cx, ym, zm); (cx, yp, zm);
                     (xm, cy, zp); (xp, cy, zp); (cx, ym, zp); (cx, yp, zp)]
  = ((qx =? xm) || (qx =? xp)) && mem (qy, qz) [(ym, cz); (yp, cz); (cy, zm); (cy, zp)].
Proof. intros E. unfold mem3, mem, pt3_eqb, pt_eqb; cbn [existsb fst snd]. rewrite E. cbn [andb orb]. atoms. Qed.
Lemma mem3_cube_y qx qy qz cx cy cz xm xp ym yp zm zp : (qy =? cy) = false ->
  mem3 (qx, qy, qz) [(xp, yp, cz); (xm, ym, cz); (xp, ym, cz); (xm, yp, cz); (xm, cy, zm); (xp, cy, zm); (cx, ym, zm); (cx, yp, zm);
                     (xm, cy, zp); (xp, cy, zp); (cx, ym, zp); (cx, yp, zp)]
  = ((qy =? ym) || (qy =? yp)) && mem (qx, qz) [(xm, cz); (xp, cz); (cx, zm); (cx, zp)].
Proof. intros E. unfold mem3, mem, pt3_eqb, pt_eqb; cbn [existsb fst snd]. rewrite E. cbn [andb orb]. atoms. Qed.
Lemma mem3_cube_z qx qy qz cx cy cz xm xp ym yp zm zp : (qz =? cz) = false ->
  mem3 (qx, qy, qz) [(xp, yp, cz); (xm, ym, cz); (xp, ym, cz); (xm, yp, cz); (xm, cy, zm); (xp, cy, zm); (cx, ym, zm); (cx, yp, zm);
                     (xm, cy, zp); (xp, cy, zp); (cx, ym, zp); (cx, yp, zp)]
  = ((qz =? zm) || (qz =? zp)) && mem (qx, qy) [(xm, cy); (xp, cy); (cx, ym); (cx, yp)].
Proof. intros E. unfold mem3, mem, pt3_eqb, pt_eqb; cbn [existsb fst snd]. rewrite E. cbn [andb orb]. atoms. Qed.

Section CubeFace.
  Variables hx hy hz vx vy vz cx cy cz : Z.
  Hypothesis Hhx : 2 <= hx. Hypothesis Hhy : 2 <= hy. Hypothesis Hhz : 2 <= hz.
  Hypothesis Rvx : 0 <= vx < 2 * hx. Hypothesis Rvy : 0 <= vy < 2 * hy. Hypothesis Rvz : 0 <= vz < 2 * hz.
  Hypothesis Rcx : 0 <= cx < 2 * hx. Hypothesis Rcy : 0 <= cy < 2 * hy. Hypothesis Rcz : 0 <= cz < 2 * hz.
  Hypothesis Pvx : vx mod 2 = 0. Hypothesis Pvy : vy mod 2 = 0. Hypothesis Pvz : vz mod 2 = 0.
  Hypothesis Pcx : cx mod 2 = 1. Hypothesis Pcy : cy mod 2 = 1. Hypothesis Pcz : cz mod 2 = 1.

  Let mx := 2 * hx. Let my := 2 * hy. Let mz := 2 * hz.
  Let cube := map (shift mx my mz (cx, cy, cz)) cube_deltas.

  Lemma cube_unfold : cube =
    [((cx + 1) mod mx, (cy + 1) mod my, cz); ((cx - 1) mod mx, (cy - 1) mod my, cz); ((cx + 1) mod mx, (cy - 1) mod my, cz);
     ((cx - 1) mod mx, (cy + 1) mod my, cz); ((cx - 1) mod mx, cy, (cz - 1) mod mz); ((cx + 1) mod mx, cy, (cz - 1) mod mz);
     (cx, (cy - 1) mod my, (cz - 1) mod mz); (cx, (cy + 1) mod my, (cz - 1) mod mz); ((cx - 1) mod mx, cy, (cz + 1) mod mz);
     ((cx + 1) mod mx, cy, (cz + 1) mod mz); (cx, (cy - 1) mod my, (cz + 1) mod mz); (cx, (cy + 1) mod my, (cz + 1) mod mz)].
  Proof.
    unfold cube, cube_deltas, mx, my, mz. cbn [map shift]. rewrite !Z.add_0_r.
    replace (cx + -1) with (cx - 1) by lia. replace (cy + -1) with (cy - 1) by lia. replace (cz + -1) with (cz - 1) by lia.
    rewrite (Z.mod_small cx), (Z.mod_small cy), (Z.mod_small cz) by lia. reflexivity.
  Qed.

  Lemma xor4_swap a b c d : xorb (xorb (xorb (xorb false a) b) c) d = xorb (xorb (xorb (xorb false b) a) d) c.
  Proof. destruct a, b, c, d; reflexivity. Qed.

  Lemma overlap_face_x :
    overlap3 [(vx, (vy + 1) mod my, vz); (vx, (vy - 1) mod my, vz); (vx, vy, (vz + 1) mod mz); (vx, vy, (vz - 1) mod mz)] cube = false.
  Proof.
    rewrite cube_unfold. unfold overlap3. cbn [map fold_left].
    assert (E : (vx =? cx) = false) by lia. rewrite !(mem3_cube_x _ _ _ cx cy cz) by exact E.
    destruct ((vx =? (cx - 1) mod mx) || (vx =? (cx + 1) mod mx)); cbn [andb]; [|reflexivity].
    rewrite xor4_swap.
    exact (nbrs_overlap_even hy hz vy vz cy cz Hhy Hhz Rvy Rvz Rcy Rcz ltac:(lia) ltac:(lia)).
  Qed.
  Lemma overlap_face_y :
    overlap3 [((vx + 1) mod mx, vy, vz); ((vx - 1) mod mx, vy, vz); (vx, vy, (vz + 1) mod mz); (vx, vy, (vz - 1) mod mz)] cube = false.
  Proof.
    rewrite cube_unfold. unfold overlap3. cbn [map fold_left].
    assert (E : (vy =? cy) = false) by lia. rewrite !(mem3_cube_y _ _ _ cx cy cz) by exact E.
    destruct ((vy =? (cy - 1) mod my) || (vy =? (cy + 1) mod my)); cbn [andb]; [|reflexivity].
    rewrite xor4_swap.
    exact (nbrs_overlap_even hx hz vx vz cx cz Hhx Hhz Rvx Rvz Rcx Rcz ltac:(lia) ltac:(lia)).
  Qed.
  Lemma overlap_face_z :
    overlap3 [((vx + 1) mod mx, vy, vz); ((vx - 1) mod mx, vy, vz); (vx, (vy + 1) mod my, vz); (vx, (vy - 1) mod my, vz)] cube = false.
  Proof.
    rewrite cube_unfold. unfold overlap3. cbn [map fold_left].
    assert (E : (vz =? cz) = false) by lia. rewrite !(mem3_cube_z _ _ _ cx cy cz) by exact E.
    destruct ((vz =? (cz - 1) mod mz) || (vz =? (cz + 1) mod mz)); cbn [andb]; [|reflexivity].
    rewrite xor4_swap.
    exact (nbrs_overlap_even hx hy vx vy cx cy Hhx Hhy Rvx Rvy Rcx Rcy ltac:(lia) ltac:(lia)).
  Qed.
End CubeFace.

Section Supports.
  Variables Lx Ly Lz x y z : Z.
  Hypothesis HLx : 2 <= Lx. Hypothesis HLy : 2 <= Ly. Hypothesis HLz : 2 <= Lz.
  Hypothesis Rx : 0 <= x < 2 * Lx. Hypothesis Ry : 0 <= y < 2 * Ly. Hypothesis Rz : 0 <= z < 2 * Lz.

  Ltac wrap1x W := let m := fresh "m" in
    match type of W with _ <= ?t < _ /\ _ => set (m := t) in *; clearbody m; destruct W as [? ?] end.
  Ltac wrapsx :=
    let W := fresh "W" in
    pose proof (wrap_pred Lx x HLx Rx) as W; wrap1x W; pose proof (wrap_succ Lx x HLx Rx) as W; wrap1x W;
    pose proof (wrap_pred Ly y HLy Ry) as W; wrap1x W; pose proof (wrap_succ Ly y HLy Ry) as W; wrap1x W;
    pose proof (wrap_pred Lz z HLz Rz) as W; wrap1x W; pose proof (wrap_succ Lz z HLz Rz) as W; wrap1x W.
  Ltac all_qubits Ha := wrapsx; cbn [In] in Ha;
    repeat (destruct Ha as [Ha|Ha]; [rewrite <- Ha; apply is_qubit_b_intro3; lia|]); destruct Ha.

  Lemma cube_support_eq : x mod 2 = 1 -> y mod 2 = 1 -> z mod 2 = 1 ->
    cube_support Lx Ly Lz (x, y, z) = map (shift (2 * Lx) (2 * Ly) (2 * Lz) (x, y, z)) cube_deltas.
  Proof.
    intros Px Py Pz. unfold cube_support. apply filter_all. intros a Ha.
    rewrite (cube_unfold Lx Ly Lz x y z) in Ha by lia. all_qubits Ha.
  Qed.

  Lemma face_support_x : x mod 2 = 0 -> y mod 2 = 0 -> z mod 2 = 0 ->
    face_support Lx Ly Lz 0 (x, y, z) =
    [(x, (y + 1) mod (2 * Ly), z); (x, (y - 1) mod (2 * Ly), z); (x, y, (z + 1) mod (2 * Lz)); (x, y, (z - 1) mod (2 * Lz))].
  Proof.
    intros Px Py Pz. unfold face_support, face_deltas. cbn [Z.eqb Pos.eqb map shift]. rewrite !Z.add_0_r.
    replace (y + -1) with (y - 1) by lia. replace (z + -1) with (z - 1) by lia.
    rewrite (Z.mod_small x), (Z.mod_small y), (Z.mod_small z) by lia.
    apply filter_all. intros a Ha. all_qubits Ha.
  Qed.
  Lemma face_support_y : x mod 2 = 0 -> y mod 2 = 0 -> z mod 2 = 0 ->
    face_support Lx Ly Lz 1 (x, y, z) =
    [((x + 1) mod (2 * Lx), y, z); ((x - 1) mod (2 * Lx), y, z); (x, y, (z + 1) mod (2 * Lz)); (x, y, (z - 1) mod (2 * Lz))].
  Proof.
    intros Px Py Pz. unfold face_support, face_deltas. cbn [Z.eqb Pos.eqb map shift]. rewrite !Z.add_0_r.
    replace (x + -1) with (x - 1) by lia. replace (z + -1) with (z - 1) by lia.
    rewrite (Z.mod_small x), (Z.mod_small y), (Z.mod_small z) by lia.
    apply filter_all. intros a Ha. all_qubits Ha.
  Qed.
  Lemma face_support_z : x mod 2 = 0 -> y mod 2 = 0 -> z mod 2 = 0 ->
    face_support Lx Ly Lz 2 (x, y, z) =
    [((x + 1) mod (2 * Lx), y, z); ((x - 1) mod (2 * Lx), y, z); (x, (y + 1) mod (2 * Ly), z); (x, (y - 1) mod (2 * Ly), z)].
  Proof.
    intros Px Py Pz. unfold face_support, face_deltas. cbn [Z.eqb Pos.eqb map shift]. rewrite !Z.add_0_r.
    replace (x + -1) with (x - 1) by lia. replace (y + -1) with (y - 1) by lia.
    rewrite (Z.mod_small x), (Z.mod_small y), (Z.mod_small z) by lia.
    apply filter_all. intros a Ha. all_qubits Ha.
  Qed.
End Supports.

(** *** C01 (commutation clause) for XCubeCode, all sizes: cube (Z-type) against cruciform (X-type) generators *)
Theorem xcube_cube_face_commute Lx Ly Lz axis v c :
  2 <= Lx -> 2 <= Ly -> 2 <= Lz -> In v (vertices Lx Ly Lz) -> In c (cubes Lx Ly Lz) -> 0 <= axis <= 2 ->
  overlap3 (face_support Lx Ly Lz axis v) (cube_support Lx Ly Lz c) = false.
Proof.
  intros HLx HLy HLz Hv Hc Ha. destruct v as [[vx vy] vz], c as [[cx cy] cz].
  unfold vertices in Hv. unfold cubes in Hc. rewrite in_grid3 in Hv, Hc.
  destruct Hv as (V1 & V2 & V3). destruct Hc as (C1 & C2 & C3).
  apply in_evens in V1, V2, V3. apply in_odds in C1, C2, C3.
  destruct V1 as [Rvx Pvx]. destruct V2 as [Rvy Pvy]. destruct V3 as [Rvz Pvz].
  destruct C1 as [Rcx Pcx]. destruct C2 as [Rcy Pcy]. destruct C3 as [Rcz Pcz].
  rewrite (cube_support_eq Lx Ly Lz cx cy cz) by assumption.
  assert (A : axis = 0 \/ axis = 1 \/ axis = 2) by lia. destruct A as [A|[A|A]]; subst axis.
  - rewrite (face_support_x Lx Ly Lz vx vy vz) by assumption. apply overlap_face_x; assumption.
  - rewrite (face_support_y Lx Ly Lz vx vy vz) by assumption. apply overlap_face_y; assumption.
  - rewrite (face_support_z Lx Ly Lz vx vy vz) by assumption. apply overlap_face_z; assumption.
Qed.

(** ** tables for the tie with the implementation: qubits as for the toric code; stabilizer coordinates = cubes, then
    (axis, x, y, z) for axis = 0, 1, 2 and every vertex *)
Definition table_matches (Lx Ly Lz : Z) (qs cs vs : list pt3) (cube_supports : list (list pt3)) (face_supports : list (list (list pt3))) : bool :=
  pt3l_eqb (Toric3D.qubits Lx Ly Lz) qs && pt3l_eqb (cubes Lx Ly Lz) cs && pt3l_eqb (vertices Lx Ly Lz) vs
  && pt3ll_eqb (map (cube_support Lx Ly Lz) (cubes Lx Ly Lz)) cube_supports
  && match face_supports with
     | [f0; f1; f2] => pt3ll_eqb (map (face_support Lx Ly Lz 0) (vertices Lx Ly Lz)) f0
                       && pt3ll_eqb (map (face_support Lx Ly Lz 1) (vertices Lx Ly Lz)) f1
                       && pt3ll_eqb (map (face_support Lx Ly Lz 2) (vertices Lx Ly Lz)) f2
     | _ => false
     end.
