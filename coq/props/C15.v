(** C15 - analysis aggregates are conserved however results are split. *)
From Coq Require Import Arith List Bool Permutation QArith Reals.
From PQ Require Import Analysis.

(** every reported count depends only on the multiset of trials *)
Theorem C15_counts_depend_only_on_the_multiset :
  forall k l l', Permutation l l' ->
  n_trials l = n_trials l' /\ n_fail l = n_fail l' /\ n_cs l = n_cs l' /\
  n_fail_sector k false l = n_fail_sector k false l' /\ n_fail_sector k true l = n_fail_sector k true l' /\
  n_trials_sector k l = n_trials_sector k l'.
Proof. exact counts_permutation_invariant. Qed.
Print Assumptions C15_counts_depend_only_on_the_multiset.

(** merging files, splitting an entry, reordering files: the pool of each key is unchanged / permuted *)
Theorem C15_merging_files_keeps_the_pool :
  forall key key_eqb k0 a b rest, pooled key key_eqb k0 ((a ++ b) :: rest) = pooled key key_eqb k0 (a :: b :: rest).
Proof. exact pooled_merge_files. Qed.
Print Assumptions C15_merging_files_keeps_the_pool.
Theorem C15_splitting_an_entry_keeps_the_pool :
  forall key key_eqb k0 kk t1 t2 f rest,
  pooled key key_eqb k0 (((kk, t1 ++ t2) :: f) :: rest) = pooled key key_eqb k0 (((kk, t1) :: (kk, t2) :: f) :: rest).
Proof. exact pooled_split_entry. Qed.
Print Assumptions C15_splitting_an_entry_keeps_the_pool.
Theorem C15_file_order_does_not_matter :
  forall key key_eqb k k0 files files', Permutation files files' ->
  n_trials (pooled key key_eqb k0 files) = n_trials (pooled key key_eqb k0 files') /\
  n_fail (pooled key key_eqb k0 files) = n_fail (pooled key key_eqb k0 files') /\
  n_fail_sector k false (pooled key key_eqb k0 files) = n_fail_sector k false (pooled key key_eqb k0 files') /\
  n_fail_sector k true (pooled key key_eqb k0 files) = n_fail_sector k true (pooled key key_eqb k0 files').
Proof. exact pooled_counts_order_independent. Qed.
Print Assumptions C15_file_order_does_not_matter.
Theorem C15_only_results_of_the_same_key_are_pooled :
  forall key key_eqb k0 files t, In t (pooled key key_eqb k0 files) ->
  exists f e, In f files /\ In e f /\ key_eqb (fst e) k0 = true /\ In t (snd e).
Proof. exact pooled_only_own_key. Qed.
Print Assumptions C15_only_results_of_the_same_key_are_pooled.

(** estimator: p_est = n_fail / n_trials lies in [0,1]; its standard error s has s^2 (n+1) = p (1-p) *)
Theorem C15_standard_error_identity :
  forall l, (p_se_sq l * inject_Z (Z.of_nat (n_trials l + 1)) == p_est l * (1 - p_est l))%Q.
Proof. exact p_se_identity. Qed.
Print Assumptions C15_standard_error_identity.
Theorem C15_estimate_in_unit_interval : forall l, (0 < n_trials l)%nat -> (0 <= p_est l /\ p_est l <= 1)%Q.
Proof. exact p_est_in_unit_interval. Qed.
Print Assumptions C15_estimate_in_unit_interval.

(** word error rate: p_word = 1 - (1-p)^(1/k), i.e. k independent words fail together with probability p *)
Theorem C15_word_error_rate_formula : forall p k, (p < 1)%R -> (0 < k)%nat -> ((1 - p_word p k) ^ k = 1 - p)%R.
Proof. exact p_word_formula. Qed.
Print Assumptions C15_word_error_rate_formula.
