(** C02 - the parity-check matrix is the faithful image of the lattice definition. *)
From Coq Require Import NArith ZArith List Bool.
From PQ Require Import Bits Pauli Code Operator.

(** coordinate-dict <-> BSF conversion is a bijection (Y included) *)
Theorem C02_bsf_to_dict_to_bsf :
  forall cs v, NoDup cs -> bbounded (N.of_nat (length cs)) v = true -> to_bsf cs (from_bsf cs v) = Some v.
Proof. exact to_from_bsf. Qed.
Print Assumptions C02_bsf_to_dict_to_bsf.
Theorem C02_dict_to_bsf_to_dict :
  forall cs op v, NoDup cs -> NoDup (keys op) -> to_bsf cs op = Some v ->
  forall loc, lookup loc (from_bsf cs v) = lookup loc op.
Proof. exact from_to_bsf. Qed.
Print Assumptions C02_dict_to_bsf_to_dict.

(** bit i of the image is set exactly by the Pauli the dictionary holds at the i-th qubit coordinate *)
Theorem C02_image_bits :
  forall cs op v, NoDup cs -> NoDup (keys op) -> to_bsf cs op = Some v ->
  forall i loc, nth_error cs i = Some loc ->
    N.testbit (bx v) (N.of_nat i) = has_x (lookup loc op) /\ N.testbit (bz v) (N.of_nat i) = has_z (lookup loc op).
Proof. exact to_bsf_bits. Qed.
Print Assumptions C02_image_bits.

(** support inside the qubit set: a key outside it is an error, never silently dropped *)
Theorem C02_foreign_key_rejected :
  forall cs op, (exists k, In k (keys op) /\ ~ In k cs) -> to_bsf cs op = None.
Proof. exact to_bsf_rejects_foreign_key. Qed.
Print Assumptions C02_foreign_key_rejected.

(** row i of the matrix is the image of the operator returned for the i-th stabilizer coordinate *)
Theorem C02_row_is_image :
  forall cs ops rows, matrix_of cs ops = Some rows ->
  length rows = length ops /\
  forall i op, nth_error ops i = Some op -> exists r, nth_error rows i = Some r /\ to_bsf cs op = Some r.
Proof. exact matrix_row_is_image. Qed.
Print Assumptions C02_row_is_image.

(** CSS: the X and Z row masks partition the rows ... *)
Theorem C02_css_masks_partition :
  forall rows, is_css rows = true -> forallb (fun r => negb (beqb r bzero)) rows = true ->
  map (fun p => xorb (fst p) (snd p)) (combine (x_mask rows) (z_mask rows)) = map (fun _ => true) rows.
Proof. exact css_masks_partition. Qed.
Print Assumptions C02_css_masks_partition.
(** ... and the X-(Z-)part of the syndrome depends only on the Z-(X-)part of the error *)
Theorem C02_x_syndrome_depends_only_on_z_part : forall s e, bz s = 0%N -> sp s e = dotN (bx s) (bz e).
Proof. exact x_row_syndrome_depends_on_z_part. Qed.
Print Assumptions C02_x_syndrome_depends_only_on_z_part.
Theorem C02_z_syndrome_depends_only_on_x_part : forall s e, bx s = 0%N -> sp s e = dotN (bz s) (bx e).
Proof. exact z_row_syndrome_depends_on_x_part. Qed.
Print Assumptions C02_z_syndrome_depends_only_on_x_part.
