(** C18 - error probabilities multiply per qubit and normalise. *)
From Coq Require Import QArith List Bool.
From PQ Require Import Noise.

(** the probability of an error is the product over qubits of the channel probability of its Pauli *)
Theorem C18_product_form : forall ds e, (error_probability ds e == fold_right Qmult 1 (factors ds e))%Q.
Proof. exact error_probability_is_product_of_factors. Qed.
Print Assumptions C18_product_form.

(** probabilities of all 4^n errors sum to 1, for every n *)
Theorem C18_sum_to_one :
  forall ds, (forall d, In d ds -> (total d == 1)%Q) -> (qsum (map (error_probability ds) (all_errors (length ds))) == 1)%Q.
Proof. exact error_probabilities_sum_to_one. Qed.
Print Assumptions C18_sum_to_one.

(** consistent with the sampling distribution: it is the volume of the box of variates mapped to e *)
Theorem C18_consistent_with_sampling : forall ds e, (box_volume ds e == error_probability ds e)%Q.
Proof. exact error_probability_is_sampling_measure. Qed.
Print Assumptions C18_consistent_with_sampling.

(** Metropolis: changing the Pauli on one qubit changes the probability by that qubit's likelihood ratio *)
Theorem C18_single_qubit_likelihood_ratio :
  forall d ds s s' e, (error_probability (d :: ds) (s' :: e) * get d s == error_probability (d :: ds) (s :: e) * get d s')%Q.
Proof. exact single_qubit_change_ratio. Qed.
Print Assumptions C18_single_qubit_likelihood_ratio.
