(** C04 - decoding success is declared iff the residual error is a stabilizer. *)
From Coq Require Import NArith List Bool.
From PQ Require Import Bits Pauli Code.

(** for EVERY bounded residual error e (all 4^n of them): success <-> e is a product of generators *)
Theorem C04_success_iff_stabilizer :
  forall (c : code) (ct : cert), check_cert c ct = true ->
  forall e, bbounded (nn c) e = true -> (is_success c e = true <-> span (stabs c) e).
Proof. exact success_iff_stabilizer. Qed.
Print Assumptions C04_success_iff_stabilizer.

Theorem C04_in_codespace_iff_commutes_with_all_generators :
  forall c e, in_codespace c e = true <-> forall s, In s (stabs c) -> sp s e = false.
Proof. exact in_codespace_iff. Qed.
Print Assumptions C04_in_codespace_iff_commutes_with_all_generators.

(** among operators in the code space: no logical error <-> product of generators *)
Theorem C04_no_logical_error_iff :
  forall c e, is_logical_error c e = false <-> forall l, In l (lgx c ++ lgz c) -> sp l e = false.
Proof. exact no_logical_error_iff. Qed.
Print Assumptions C04_no_logical_error_iff.

Theorem C04_logical_effect_linear :
  forall c a b, logical_errors c (badd a b) = xorl (logical_errors c a) (logical_errors c b).
Proof. exact logical_errors_linear. Qed.
Print Assumptions C04_logical_effect_linear.

Theorem C04_logical_effect_constant_on_cosets :
  forall (c : code) (ct : cert), check_cert c ct = true ->
  forall e s, span (stabs c) s -> logical_errors c (badd e s) = logical_errors c e.
Proof. exact logical_errors_coset. Qed.
Print Assumptions C04_logical_effect_constant_on_cosets.

(** first k bits: X-type action on logical qubit j (anticommutes with logical Z_j);
    second k bits: Z-type action (anticommutes with logical X_j) *)
Theorem C04_first_block_is_X_action :
  forall c e j, (j < length (lgz c))%nat -> nth j (logical_errors c e) false = sp (nth j (lgz c) bzero) e.
Proof. exact logical_errors_nth_x. Qed.
Print Assumptions C04_first_block_is_X_action.
Theorem C04_second_block_is_Z_action :
  forall c e j, (j < length (lgx c))%nat ->
    nth (length (lgz c) + j) (logical_errors c e) false = sp (nth j (lgx c) bzero) e.
Proof. exact logical_errors_nth_z. Qed.
Print Assumptions C04_second_block_is_Z_action.
Theorem C04_logical_X_i_flags_exactly_bit_i :
  forall c, Valid c -> forall i j, (i < length (lgx c))%nat -> (j < length (lgz c) + length (lgx c))%nat ->
  nth j (logical_errors c (nth i (lgx c) bzero)) false = Nat.eqb j i.
Proof. exact logical_errors_of_logical_x. Qed.
Print Assumptions C04_logical_X_i_flags_exactly_bit_i.
Theorem C04_logical_Z_i_flags_exactly_bit_k_plus_i :
  forall c, Valid c -> forall i j, (i < length (lgz c))%nat -> (j < length (lgz c) + length (lgx c))%nat ->
  nth j (logical_errors c (nth i (lgz c) bzero)) false = Nat.eqb j (length (lgz c) + i).
Proof. exact logical_errors_of_logical_z. Qed.
Print Assumptions C04_logical_Z_i_flags_exactly_bit_k_plus_i.
