(** C17 - the reported distance d is the true code distance: the minimum weight of a Pauli operator
    that commutes with all stabilizers and acts non-trivially on the logical qubits. *)
From Coq Require Import NArith List Bool.
From PQ Require Import Bits Pauli Code Operator Deform Distance DistanceFast.

(** the verified exhaustive search: no operator of weight < d (among ALL 4^n) is a logical, and a
    logical of weight exactly d exists *)
Theorem C17_distance_checker_sound : forall c d w, distance_ok c d w = true -> Distance c d.
Proof. exact distance_ok_sound. Qed.
Print Assumptions C17_distance_checker_sound.

(** for CSS codes it suffices to search pure-X and pure-Z operators *)
Theorem C17_css_distance_checker_sound : forall c d w, distance_ok_css c d w = true -> Distance c d.
Proof. exact distance_ok_css_sound. Qed.
Print Assumptions C17_css_distance_checker_sound.
Theorem C17_css_reduction :
  forall c e, css_code c = true -> is_logical c e = true ->
  is_logical c (B (bx e) 0) = true \/ is_logical c (B 0 (bz e)) = true.
Proof. exact css_reduction. Qed.
Print Assumptions C17_css_reduction.

(** completeness of the search: it visits every operator of weight <= b *)
Theorem C17_search_complete :
  forall bad k b acc, search bad k b acc = true ->
  forall e, bbounded (N.of_nat k) e = true -> (wtn k e <= b)%nat -> bad (badd acc e) = false.
Proof. exact search_sound. Qed.
Print Assumptions C17_search_complete.

(** a Clifford-deformed code has the distance of the undeformed code (weights and logical action
    are preserved by the per-qubit relabelling) *)
Theorem C17_deformed_code_same_distance :
  forall c D E d, perm_ok (nn c) D = true -> inv_ok (nn c) E D = true -> perm_ok (nn c) E = true ->
  (forall r, In r (stabs c ++ lgx c ++ lgz c) -> bbounded (nn c) r = true) ->
  Distance c d -> Distance (deform D c) d.
Proof. exact distance_deform. Qed.
Print Assumptions C17_deformed_code_same_distance.

(** the same checker with an incrementally maintained syndrome (one xor per added qubit): proved to
    compute exactly the verdicts of the plain search, hence sound for the same statement *)
Theorem C17_fast_css_distance_checker_sound : forall c d w, distance_ok_css_fast c d w = true -> Distance c d.
Proof. exact distance_ok_css_fast_sound. Qed.
Print Assumptions C17_fast_css_distance_checker_sound.

(** refutation side: a kernel-checked operator that commutes with all generators, acts non-trivially
    on the logical qubits and is lighter than the reported d shows that d is not the distance *)
Theorem C17_lighter_logical_refutes_reported_distance :
  forall c d w, lighter_logical c d w = true -> ~ Distance c d.
Proof. exact lighter_logical_refutes. Qed.
Print Assumptions C17_lighter_logical_refutes_reported_distance.
