(** C16 - threshold estimation recovers a planted finite-size-scaling threshold (PARTIAL: what the
    technique can carry; recovery itself is a numerical test, see DESIGN.md). *)
From Coq Require Import Reals List Permutation QArith.
From PQ Require Import Fss.

Theorem C16_planted_parameters_have_zero_residual :
  forall pth nu A B C (data : list (R * R)),
  fold_right (fun pd acc => ((ansatz pth nu A B C (fst pd) (snd pd) - ansatz pth nu A B C (fst pd) (snd pd)) ^ 2 + acc)%R) 0%R data = 0%R.
Proof. exact residual_zero_at_planted. Qed.
Print Assumptions C16_planted_parameters_have_zero_residual.

(** what is minimised does not depend on the order of rows / files *)
Theorem C16_objective_independent_of_row_order :
  forall f rows rows', Permutation rows rows' -> sse f rows = sse f rows'.
Proof. exact objective_order_independent. Qed.
Print Assumptions C16_objective_independent_of_row_order.

(** PARTIAL identifiability (full statement would also determine p_th and nu from >= 2 distances) *)
Theorem C16_identifiable_partial :
  forall A B C A' B' C' x1 x2 x3, (x1 <> x2 -> x1 <> x3 -> x2 <> x3 ->
  A + B * x1 + C * x1 ^ 2 = A' + B' * x1 + C' * x1 ^ 2 ->
  A + B * x2 + C * x2 ^ 2 = A' + B' * x2 + C' * x2 ^ 2 ->
  A + B * x3 + C * x3 ^ 2 = A' + B' * x3 + C' * x3 ^ 2 ->
  A = A' /\ B = B' /\ C = C')%R.
Proof. exact fss_identifiable_partial. Qed.
Print Assumptions C16_identifiable_partial.

(** a fit flagged successful lies inside the data range, has a non-degenerate confidence interval,
    estimates in [0,1] and a non-flat curve *)
Theorem C16_success_flag_implies_sanity :
  forall e, fit_success e = true ->
  exists pth nu A B C t l r s,
    f_params e = Some (pth, nu, A, B, C) /\ f_pth e = Some t /\ f_left e = Some l /\ f_right e = Some r /\ f_se e = Some s /\
    (f_pleft e <= t /\ t <= f_pright e /\ 0 <= t /\ t <= 1 /\ 0 <= A /\ A <= 1)%Q /\
    isclose l r = false /\ isclose s 0 = false /\ (isclose A 0 && isclose B 0 && isclose C 0)%bool = false.
Proof.
  intros e H. destruct (fit_success_implies e H) as (pth & nu & A & B & C & t & l & r & s & H1 & H2 & H3 & H4 & H5 & H6 & H7 & H8 & H9 & H10 & H11 & H12 & H13 & H14).
  exists pth, nu, A, B, C, t, l, r, s. repeat split; assumption.
Qed.
Print Assumptions C16_success_flag_implies_sanity.
