(** C10 - sweep decoders track the true residual syndrome. *)
From Coq Require Import Arith NArith List Bool.
From PQ Require Import Bits Pauli Code Sweep.

(** if flipping an edge toggles exactly the faces anticommuting with Z on that edge, then after EVERY
    finite sequence of flips (whatever rule chose them) the tracked excitation pattern equals the face
    syndrome of (original error + correction accumulated so far) *)
Theorem C10_tracked_signs_equal_residual_face_syndrome :
  forall c face toggled err qs, Geom c face toggled ->
  signs (fold_left (flip toggled) qs (start c face err))
  = face_syndrome c face (badd err (corr (fold_left (flip toggled) qs (start c face err)))).
Proof. exact tracked_signs_are_residual_syndrome. Qed.
Print Assumptions C10_tracked_signs_equal_residual_face_syndrome.

Theorem C10_one_flip_preserves_the_invariant :
  forall c face toggled err s q, Geom c face toggled -> Inv c face err s -> Inv c face err (flip toggled s q).
Proof. exact flip_invariant. Qed.
Print Assumptions C10_one_flip_preserves_the_invariant.

(** an edge flipped twice is removed from the correction *)
Theorem C10_double_flip_cancels : forall toggled s q, corr (flip toggled (flip toggled s q) q) = corr s.
Proof. exact double_flip_cancels. Qed.
Print Assumptions C10_double_flip_cancels.

(** the returned correction is Z-only *)
Theorem C10_correction_is_Z_only :
  forall c face toggled err qs, bx (corr (fold_left (flip toggled) qs (start c face err))) = 0%N.
Proof. exact correction_is_z_only. Qed.
Print Assumptions C10_correction_is_Z_only.

(** whenever the automaton stops with no excitation left, the face syndrome of error + correction is zero *)
Theorem C10_no_excitation_means_clean_faces :
  forall c face toggled err qs, Geom c face toggled ->
  forallb negb (signs (fold_left (flip toggled) qs (start c face err))) = true ->
  forallb negb (face_syndrome c face (badd err (corr (fold_left (flip toggled) qs (start c face err))))) = true.
Proof. exact no_excitation_means_faces_clean. Qed.
Print Assumptions C10_no_excitation_means_clean_faces.
