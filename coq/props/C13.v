(** C13 - input specifications expand to exactly the requested simulations. *)
From Coq Require Import Arith List Bool.
From PQ Require Import Spec.

Theorem C13_one_simulation_per_product_element :
  forall A B C D cs ns ds rs, length (expand A B C D cs ns ds rs) = length cs * length ns * length ds * length rs.
Proof. exact expand_length. Qed.
Print Assumptions C13_one_simulation_per_product_element.

Theorem C13_none_dropped_nothing_else :
  forall A B C D cs ns ds rs c n d r,
  In (c, n, d, r) (expand A B C D cs ns ds rs) <-> In c cs /\ In n ns /\ In d ds /\ In r rs.
Proof. exact expand_In. Qed.
Print Assumptions C13_none_dropped_nothing_else.

Theorem C13_none_duplicated :
  forall A B C D cs ns ds rs, NoDup cs -> NoDup ns -> NoDup ds -> NoDup rs -> NoDup (expand A B C D cs ns ds rs).
Proof. exact expand_NoDup. Qed.
Print Assumptions C13_none_duplicated.

Theorem C13_list_of_ranges_is_concatenation :
  forall A B C D specs, length (expand_many A B C D specs) =
  fold_right (fun s acc => match s with (cs, ns, ds, rs) => length cs * length ns * length ds * length rs end + acc) 0 specs.
Proof. exact expand_many_length. Qed.
Print Assumptions C13_list_of_ranges_is_concatenation.

Theorem C13_parameter_range_never_empty : forall P (dflt : P) f, parse_range dflt f <> nil.
Proof. exact @parse_range_nonempty. Qed.
Print Assumptions C13_parameter_range_never_empty.
