(** C01 - every library code is a valid [[n,k]] stabilizer code.
    This file contains only statements, each closed by [exact <lemma>], and their assumptions. *)
From Coq Require Import NArith List Bool.
From PQ Require Import Bits Pauli Code.

(** A table (n, stabilizer rows, logical X rows, logical Z rows) accepted by the certificate
    checker satisfies every clause of the property: rows bounded by n, generators pairwise
    commute, logicals commute with generators, X_i/Z_j anticommute iff i=j, X/X and Z/Z commute,
    and the generators have GF(2) rank n-k. *)
Theorem C01_certificate_sound : forall (c : code) (ct : cert), check_cert c ct = true -> Valid c.
Proof. exact check_cert_valid. Qed.
Print Assumptions C01_certificate_sound.

(** ... so that the listed logicals are independent of the stabilizer group: no non-trivial
    product of logicals is a product of generators. *)
Theorem C01_logicals_independent_of_stabilizers :
  forall (c : code) (ct : cert), check_cert c ct = true ->
  forall cs ds, length cs = length (lgx c) -> length ds = length (lgz c) ->
    span (stabs c) (badd (combo cs (lgx c)) (combo ds (lgz c))) ->
    forallb negb cs = true /\ forallb negb ds = true.
Proof. exact logicals_independent_mod_stabilizers. Qed.
Print Assumptions C01_logicals_independent_of_stabilizers.

(** Layer P, Toric2DCode, EVERY lattice size L_x, L_y >= 2 (not only the grid): each vertex (Z-type)
    operator and each face (X-type) operator of the parametric model share an even number of qubits,
    i.e. they commute.  The model's tables are compared with the implementation's on the grid. *)
From Coq Require Import ZArith.
From PQ Require Import Toric2D.
Theorem C01_toric2d_vertex_face_commute_for_all_sizes :
  forall (Lx Ly : BinNums.Z) v f, (2 <= Lx)%Z -> (2 <= Ly)%Z -> In v (stab_coords Lx Ly) -> In f (stab_coords Lx Ly) ->
  is_vertex v = true -> is_vertex f = false ->
  overlap_par (support Lx Ly v) (support Lx Ly f) = false.
Proof. exact toric2d_vertex_face_commute. Qed.
Print Assumptions C01_toric2d_vertex_face_commute_for_all_sizes.

Theorem C01_toric2d_all_stabilizers_commute_for_all_sizes :
  forall (Lx Ly : BinNums.Z) s s', (2 <= Lx)%Z -> (2 <= Ly)%Z -> In s (stab_coords Lx Ly) -> In s' (stab_coords Lx Ly) ->
  ops_commute (is_vertex s) (support Lx Ly s) (is_vertex s') (support Lx Ly s') = true.
Proof. exact toric2d_stabilizers_commute. Qed.
Print Assumptions C01_toric2d_all_stabilizers_commute_for_all_sizes.

Theorem C01_toric2d_logicals_commute_with_stabilizers_for_all_sizes :
  forall (Lx Ly : BinNums.Z) s, (2 <= Lx)%Z -> (2 <= Ly)%Z -> In s (stab_coords Lx Ly) ->
  (is_vertex s = true -> overlap_par (support Lx Ly s) (lx1 Lx) = false /\ overlap_par (support Lx Ly s) (lx2 Ly) = false) /\
  (is_vertex s = false -> overlap_par (support Lx Ly s) (lz1 Ly) = false /\ overlap_par (support Lx Ly s) (lz2 Lx) = false).
Proof. exact toric2d_logicals_commute_with_stabilizers. Qed.
Print Assumptions C01_toric2d_logicals_commute_with_stabilizers_for_all_sizes.

(** Layer P, Toric2DCode, every size: logical X_i and Z_j share one qubit when i = j and none otherwise
    (they anticommute exactly when i = j). *)
From PQ Require Toric2DPairing.
Theorem C01_toric2d_logical_pairing_for_all_sizes :
  forall (Lx Ly : BinNums.Z), (1 <= Lx)%Z -> (1 <= Ly)%Z ->
  Toric2D.overlap_par (Toric2D.lx1 Lx) (Toric2D.lz1 Ly) = true /\ Toric2D.overlap_par (Toric2D.lx1 Lx) (Toric2D.lz2 Lx) = false /\
  Toric2D.overlap_par (Toric2D.lx2 Ly) (Toric2D.lz1 Ly) = false /\ Toric2D.overlap_par (Toric2D.lx2 Ly) (Toric2D.lz2 Lx) = true.
Proof. exact Toric2DPairing.toric2d_logical_pairing. Qed.
Print Assumptions C01_toric2d_logical_pairing_for_all_sizes.

(** Layer P, Planar2DCode (open boundaries), every size L_x, L_y >= 2 *)
From PQ Require Planar2D.
Theorem C01_planar2d_all_stabilizers_commute_for_all_sizes :
  forall (Lx Ly : BinNums.Z) s s', (2 <= Lx)%Z -> (2 <= Ly)%Z ->
  In s (Planar2D.stab_coords Lx Ly) -> In s' (Planar2D.stab_coords Lx Ly) ->
  Planar2D.ops_commute (Planar2D.is_vertex s) (Planar2D.support Lx Ly s) (Planar2D.is_vertex s') (Planar2D.support Lx Ly s') = true.
Proof. exact Planar2D.planar2d_stabilizers_commute. Qed.
Print Assumptions C01_planar2d_all_stabilizers_commute_for_all_sizes.

(** Layer P, Planar2DCode, every size >= 2: the logical X line commutes with every vertex (Z-type) generator, the
    logical Z line with every face (X-type) generator, both lie on qubits of the lattice, and the two share exactly one
    qubit (they anticommute). *)
From PQ Require Planar2DLogicals.
Theorem C01_planar2d_logicals_for_all_sizes :
  forall (Lx Ly : BinNums.Z) s, (2 <= Lx)%Z -> (2 <= Ly)%Z -> In s (Planar2D.stab_coords Lx Ly) ->
  ((Planar2D.is_vertex s = true -> Toric2D.overlap_par (Planar2D.support Lx Ly s) (Planar2DLogicals.lx Lx) = false) /\
   (Planar2D.is_vertex s = false -> Toric2D.overlap_par (Planar2D.support Lx Ly s) (Planar2DLogicals.lz Ly) = false)) /\
  Toric2D.overlap_par (Planar2DLogicals.lx Lx) (Planar2DLogicals.lz Ly) = true /\
  (forall q, (Toric2D.mem q (Planar2DLogicals.lx Lx) = true -> Planar2D.is_qubit_b Lx Ly q = true) /\
             (Toric2D.mem q (Planar2DLogicals.lz Ly) = true -> Planar2D.is_qubit_b Lx Ly q = true)).
Proof.
  intros Lx Ly s H1 H2 Hs.
  assert (L1 : (1 <= Lx)%Z) by (apply BinInt.Z.le_trans with (m := 2%Z); [discriminate|assumption]).
  assert (L2 : (1 <= Ly)%Z) by (apply BinInt.Z.le_trans with (m := 2%Z); [discriminate|assumption]).
  split; [|split].
  - exact (Planar2DLogicals.planar2d_logicals_commute_with_stabilizers Lx Ly s H1 H2 Hs).
  - exact (Planar2DLogicals.planar2d_logical_pairing Lx Ly L1 L2).
  - intros q. exact (Planar2DLogicals.planar2d_logicals_on_qubits Lx Ly q L1 L2).
Qed.
Print Assumptions C01_planar2d_logicals_for_all_sizes.

(** Layer P, qubit and generator counts of the 2-D surface classes for every size: the toric code has as many generators as
    qubits (two of them dependent), the planar code exactly one fewer. *)
From PQ Require Counts2D.
Theorem C01_counts_2d_for_all_sizes :
  forall (Lx Ly : BinNums.Z), (1 <= Lx)%Z -> (1 <= Ly)%Z ->
  (BinInt.Z.of_nat (length (Toric2D.qubits Lx Ly)) = 2 * Lx * Ly /\ BinInt.Z.of_nat (length (Toric2D.stab_coords Lx Ly)) = 2 * Lx * Ly)%Z /\
  (BinInt.Z.of_nat (length (Planar2D.qubits Lx Ly)) = Lx * Ly + (Lx - 1) * (Ly - 1) /\
   BinInt.Z.of_nat (length (Planar2D.stab_coords Lx Ly)) = Lx * Ly + (Lx - 1) * (Ly - 1) - 1)%Z /\
  (BinInt.Z.of_nat (length (RotatedPlanar2D.qubits Lx Ly)) = Lx * Ly)%Z.
Proof.
  intros Lx Ly H1 H2. split; [|split].
  - exact (Counts2D.toric2d_counts Lx Ly H1 H2).
  - exact (Counts2D.planar2d_counts Lx Ly H1 H2).
  - exact (Counts2D.rotated_planar2d_qubit_count Lx Ly H1 H2).
Qed.
Print Assumptions C01_counts_2d_for_all_sizes.

(** Layer P, RotatedPlanar2DCode, every size L_x, L_y >= 2 *)
From PQ Require RotatedPlanar2D.
Theorem C01_rotated_planar2d_all_stabilizers_commute_for_all_sizes :
  forall (Lx Ly : BinNums.Z) s s', (2 <= Lx)%Z -> (2 <= Ly)%Z ->
  In s (RotatedPlanar2D.stab_coords Lx Ly) -> In s' (RotatedPlanar2D.stab_coords Lx Ly) ->
  Planar2D.ops_commute (RotatedPlanar2D.is_vertex s) (RotatedPlanar2D.support Lx Ly s)
                       (RotatedPlanar2D.is_vertex s') (RotatedPlanar2D.support Lx Ly s') = true.
Proof. exact RotatedPlanar2D.rotated_planar2d_stabilizers_commute. Qed.
Print Assumptions C01_rotated_planar2d_all_stabilizers_commute_for_all_sizes.

(** Layer P, RotatedPlanar2DCode, every size >= 2: the logical X row commutes with every vertex (Z-type) generator, the
    logical Z column with every face (X-type) generator, both lie on qubits of the lattice, and the two share exactly one
    qubit (they anticommute). *)
From PQ Require RotatedPlanar2DLogicals.
Theorem C01_rotated_planar2d_logicals_for_all_sizes :
  forall (Lx Ly : BinNums.Z) s, (2 <= Lx)%Z -> (2 <= Ly)%Z -> In s (RotatedPlanar2D.stab_coords Lx Ly) ->
  ((RotatedPlanar2D.is_vertex s = true -> Toric2D.overlap_par (RotatedPlanar2D.support Lx Ly s) (RotatedPlanar2DLogicals.lx Lx) = false) /\
   (RotatedPlanar2D.is_vertex s = false -> Toric2D.overlap_par (RotatedPlanar2D.support Lx Ly s) (RotatedPlanar2DLogicals.lz Ly) = false)) /\
  Toric2D.overlap_par (RotatedPlanar2DLogicals.lx Lx) (RotatedPlanar2DLogicals.lz Ly) = true /\
  (forall q, (Toric2D.mem q (RotatedPlanar2DLogicals.lx Lx) = true -> RotatedPlanar2D.is_qubit_b Lx Ly q = true) /\
             (Toric2D.mem q (RotatedPlanar2DLogicals.lz Ly) = true -> RotatedPlanar2D.is_qubit_b Lx Ly q = true)).
Proof.
  intros Lx Ly s H1 H2 Hs.
  assert (L1 : (1 <= Lx)%Z) by (apply BinInt.Z.le_trans with (m := 2%Z); [discriminate|assumption]).
  assert (L2 : (1 <= Ly)%Z) by (apply BinInt.Z.le_trans with (m := 2%Z); [discriminate|assumption]).
  split; [|split].
  - exact (RotatedPlanar2DLogicals.rotated_planar2d_logicals_commute_with_stabilizers Lx Ly s H1 H2 Hs).
  - exact (RotatedPlanar2DLogicals.rotated_planar2d_logical_pairing Lx Ly L1 L2).
  - intros q. exact (RotatedPlanar2DLogicals.rotated_planar2d_logicals_on_qubits Lx Ly q L1 L2).
Qed.
Print Assumptions C01_rotated_planar2d_logicals_for_all_sizes.

(** Layer P, Toric3DCode, every size L_x, L_y, L_z >= 2: all generators pairwise commute (same type:
    trivially; a vertex (Z-type) and a face (X-type) generator share an even number of qubits, in
    either order - the supports are proved duplicate-free so the overlap parity is symmetric). *)
From PQ Require Toric3D.
Theorem C01_toric3d_all_stabilizers_commute_for_all_sizes :
  forall (Lx Ly Lz : BinNums.Z) s s', (2 <= Lx)%Z -> (2 <= Ly)%Z -> (2 <= Lz)%Z ->
  In s (Toric3D.stab_coords Lx Ly Lz) -> In s' (Toric3D.stab_coords Lx Ly Lz) ->
  Toric3D.ops_commute3 (Toric3D.is_vertex s) (Toric3D.support Lx Ly Lz s)
                       (Toric3D.is_vertex s') (Toric3D.support Lx Ly Lz s') = true.
Proof. exact Toric3D.toric3d_stabilizers_commute. Qed.
Print Assumptions C01_toric3d_all_stabilizers_commute_for_all_sizes.

(** Layer P, Toric3DCode, every size >= 2: each listed X-type logical (a line of edges) commutes with every
    vertex generator, each listed Z-type logical (a sheet of edges) commutes with every face generator
    (logicals and generators of the same Pauli type commute trivially). *)
Theorem C01_toric3d_logicals_commute_with_stabilizers_for_all_sizes :
  forall (Lx Ly Lz : BinNums.Z) s, (2 <= Lx)%Z -> (2 <= Ly)%Z -> (2 <= Lz)%Z -> In s (Toric3D.stab_coords Lx Ly Lz) ->
  (Toric3D.is_vertex s = true ->
     Toric3D.overlap3 (Toric3D.support Lx Ly Lz s) (Toric3D.lx1 Lx) = false /\
     Toric3D.overlap3 (Toric3D.support Lx Ly Lz s) (Toric3D.lx2 Ly) = false /\
     Toric3D.overlap3 (Toric3D.support Lx Ly Lz s) (Toric3D.lx3 Lz) = false) /\
  (Toric3D.is_vertex s = false ->
     Toric3D.overlap3 (Toric3D.support Lx Ly Lz s) (Toric3D.lz1 Ly Lz) = false /\
     Toric3D.overlap3 (Toric3D.support Lx Ly Lz s) (Toric3D.lz2 Lz Lx) = false /\
     Toric3D.overlap3 (Toric3D.support Lx Ly Lz s) (Toric3D.lz3 Lx Ly) = false).
Proof.
  intros Lx Ly Lz s H1 H2 H3 Hs. split; intros T.
  - exact (Toric3D.toric3d_logical_x_commute Lx Ly Lz s H1 H2 H3 Hs T).
  - exact (Toric3D.toric3d_logical_z_commute Lx Ly Lz s H1 H2 H3 Hs T).
Qed.
Print Assumptions C01_toric3d_logicals_commute_with_stabilizers_for_all_sizes.

(** Layer P, Toric3DCode, every size: logical X_i and logical Z_j share exactly an odd number of qubits
    (one) when i = j and an even number (none) otherwise: they anticommute exactly when i = j. *)
Theorem C01_toric3d_logical_pairing_for_all_sizes :
  forall (Lx Ly Lz : BinNums.Z), (1 <= Lx)%Z -> (1 <= Ly)%Z -> (1 <= Lz)%Z ->
  Toric3D.overlap3 (Toric3D.lx1 Lx) (Toric3D.lz1 Ly Lz) = true /\ Toric3D.overlap3 (Toric3D.lx1 Lx) (Toric3D.lz2 Lz Lx) = false /\
  Toric3D.overlap3 (Toric3D.lx1 Lx) (Toric3D.lz3 Lx Ly) = false /\
  Toric3D.overlap3 (Toric3D.lx2 Ly) (Toric3D.lz1 Ly Lz) = false /\ Toric3D.overlap3 (Toric3D.lx2 Ly) (Toric3D.lz2 Lz Lx) = true /\
  Toric3D.overlap3 (Toric3D.lx2 Ly) (Toric3D.lz3 Lx Ly) = false /\
  Toric3D.overlap3 (Toric3D.lx3 Lz) (Toric3D.lz1 Ly Lz) = false /\ Toric3D.overlap3 (Toric3D.lx3 Lz) (Toric3D.lz2 Lz Lx) = false /\
  Toric3D.overlap3 (Toric3D.lx3 Lz) (Toric3D.lz3 Lx Ly) = true.
Proof. exact Toric3D.toric3d_logical_pairing. Qed.
Print Assumptions C01_toric3d_logical_pairing_for_all_sizes.

(** Layer P, Planar3DCode (open boundaries), every size L_x, L_y, L_z >= 2: all generators pairwise commute. *)
From PQ Require Planar3D.
Theorem C01_planar3d_all_stabilizers_commute_for_all_sizes :
  forall (Lx Ly Lz : BinNums.Z) s s', (2 <= Lx)%Z -> (2 <= Ly)%Z -> (2 <= Lz)%Z ->
  In s (Planar3D.stab_coords Lx Ly Lz) -> In s' (Planar3D.stab_coords Lx Ly Lz) ->
  Toric3D.ops_commute3 (Planar3D.is_vertex s) (Planar3D.support Lx Ly Lz s)
                       (Planar3D.is_vertex s') (Planar3D.support Lx Ly Lz s') = true.
Proof. exact Planar3D.planar3d_stabilizers_commute. Qed.
Print Assumptions C01_planar3d_all_stabilizers_commute_for_all_sizes.

(** Layer P, Planar3DCode, every size >= 2: the logical X line commutes with every vertex generator, the
    logical Z sheet with every face generator, and the two share exactly one qubit (they anticommute). *)
From PQ Require Planar3DLogicals.
Theorem C01_planar3d_logicals_for_all_sizes :
  forall (Lx Ly Lz : BinNums.Z) s, (2 <= Lx)%Z -> (2 <= Ly)%Z -> (2 <= Lz)%Z -> In s (Planar3D.stab_coords Lx Ly Lz) ->
  ((Planar3D.is_vertex s = true -> Toric3D.overlap3 (Planar3D.support Lx Ly Lz s) (Planar3DLogicals.lx Lx) = false) /\
   (Planar3D.is_vertex s = false -> Toric3D.overlap3 (Planar3D.support Lx Ly Lz s) (Planar3DLogicals.lz Ly Lz) = false)) /\
  Toric3D.overlap3 (Planar3DLogicals.lx Lx) (Planar3DLogicals.lz Ly Lz) = true.
Proof.
  intros Lx Ly Lz s H1 H2 H3 Hs. split.
  - exact (Planar3DLogicals.planar3d_logicals_commute_with_stabilizers Lx Ly Lz s H1 H2 H3 Hs).
  - apply Planar3DLogicals.planar3d_logical_pairing; apply BinInt.Z.le_trans with (m := 2%Z); try assumption; discriminate.
Qed.
Print Assumptions C01_planar3d_logicals_for_all_sizes.

(** Layer P, XCubeCode, every size L_x, L_y, L_z >= 2: every cube generator (Z-type, 12 edges) and every vertex
    cruciform generator (X-type, axis 0, 1 or 2) share an even number of qubits, hence commute. *)
From PQ Require XCube.
Theorem C01_xcube_cube_cruciform_commute_for_all_sizes :
  forall (Lx Ly Lz axis : BinNums.Z) v c, (2 <= Lx)%Z -> (2 <= Ly)%Z -> (2 <= Lz)%Z ->
  In v (XCube.vertices Lx Ly Lz) -> In c (XCube.cubes Lx Ly Lz) -> (0 <= axis <= 2)%Z ->
  Toric3D.overlap3 (XCube.face_support Lx Ly Lz axis v) (XCube.cube_support Lx Ly Lz c) = false.
Proof. exact XCube.xcube_cube_face_commute. Qed.
Print Assumptions C01_xcube_cube_cruciform_commute_for_all_sizes.

(** Layer P, RotatedPlanar3DCode (rotated lattice, open boundaries), every size L_x, L_y, L_z >= 2: all generators
    pairwise commute; the logical X line commutes with every vertex generator, the logical Z sheet with every face
    generator, and the two share exactly one qubit (they anticommute). *)
From PQ Require RotatedPlanar3D RotatedPlanar3DLogicals.
Theorem C01_rotated_planar3d_all_stabilizers_commute_for_all_sizes :
  forall (Lx Ly Lz : BinNums.Z) s s', (2 <= Lx)%Z -> (2 <= Ly)%Z -> (2 <= Lz)%Z ->
  In s (RotatedPlanar3D.stab_coords Lx Ly Lz) -> In s' (RotatedPlanar3D.stab_coords Lx Ly Lz) ->
  Toric3D.ops_commute3 (RotatedPlanar3D.is_vertex s) (RotatedPlanar3D.support Lx Ly Lz s)
                       (RotatedPlanar3D.is_vertex s') (RotatedPlanar3D.support Lx Ly Lz s') = true.
Proof. exact RotatedPlanar3D.rotated_planar3d_stabilizers_commute. Qed.
Print Assumptions C01_rotated_planar3d_all_stabilizers_commute_for_all_sizes.

Theorem C01_rotated_planar3d_logicals_for_all_sizes :
  forall (Lx Ly Lz : BinNums.Z) s, (2 <= Lx)%Z -> (2 <= Ly)%Z -> (2 <= Lz)%Z -> In s (RotatedPlanar3D.stab_coords Lx Ly Lz) ->
  ((RotatedPlanar3D.is_vertex s = true ->
    Toric3D.overlap3 (RotatedPlanar3D.support Lx Ly Lz s) (RotatedPlanar3DLogicals.lx Lx) = false) /\
   (RotatedPlanar3D.is_vertex s = false ->
    Toric3D.overlap3 (RotatedPlanar3D.support Lx Ly Lz s) (RotatedPlanar3DLogicals.lz Ly Lz) = false)) /\
  Toric3D.overlap3 (RotatedPlanar3DLogicals.lx Lx) (RotatedPlanar3DLogicals.lz Ly Lz) = true.
Proof.
  intros Lx Ly Lz s H1 H2 H3 Hs. split.
  - exact (RotatedPlanar3DLogicals.rotated_planar3d_logicals_commute_with_stabilizers Lx Ly Lz s H1 H2 H3 Hs).
  - apply RotatedPlanar3DLogicals.rotated_planar3d_logical_pairing; apply BinInt.Z.le_trans with (m := 2%Z); try assumption; discriminate.
Qed.
Print Assumptions C01_rotated_planar3d_logicals_for_all_sizes.
