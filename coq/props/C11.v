(** C11 - Monte-Carlo trials are self-consistent, reproducible and calibrated. *)
From Coq Require Import Arith NArith List Bool.
From PQ Require Import Bits Pauli Code Sim.

(** each recorded trial: syndrome = syndrome(error), effective_error = logical effect of error+correction,
    codespace <-> zero residual syndrome, success <-> codespace and zero effective error (= C04's verdict) -
    for every decoder and every error *)
Theorem C11_trial_record_consistent :
  forall c decode e, let s := run_once c decode e in
  s_syndrome s = syndrome c (s_error s) /\
  s_effective s = logical_errors c (badd (s_error s) (s_correction s)) /\
  (s_codespace s = true <-> forallb negb (syndrome c (badd (s_error s) (s_correction s))) = true) /\
  (s_success s = true <-> s_codespace s = true /\ forallb negb (s_effective s) = true) /\
  s_success s = is_success c (badd (s_error s) (s_correction s)).
Proof. exact run_once_consistent. Qed.
Print Assumptions C11_trial_record_consistent.

(** for any interleaving of run(k) calls all result lists have length n_runs = sum of the k's *)
Theorem C11_result_lists_have_length_n_runs :
  forall batches, let st := fold_left sim_run batches sim_init in
  WellFormed st /\ n_runs st = length (concat batches).
Proof. exact sim_runs_wellformed. Qed.
Print Assumptions C11_result_lists_have_length_n_runs.
Theorem C11_interleaving_does_not_matter :
  forall batches, fold_left sim_run batches sim_init = sim_run sim_init (concat batches).
Proof. exact sim_run_concat. Qed.
Print Assumptions C11_interleaving_does_not_matter.
Theorem C11_estimator_is_a_frequency :
  forall st, WellFormed st -> n_fail st + length (filter (fun b => b) (succs st)) = n_runs st.
Proof. exact n_fail_plus_success. Qed.
Print Assumptions C11_estimator_is_a_frequency.

(** a run is a function of the variate stream: k trials on n qubits consume exactly k*n variates,
    and run(k1); run(k2) equals run(k1+k2) on the same stream - hence bit-for-bit reproducible from the seed *)
Theorem C11_stream_consumption :
  forall A n trial k us, k * n <= length us -> length (snd (run_stream A n trial k us)) = length us - k * n.
Proof. exact run_stream_consumes. Qed.
Print Assumptions C11_stream_consumption.
Theorem C11_runs_compose_on_the_stream :
  forall A n trial k1 k2 us,
  fst (run_stream A n trial (k1 + k2) us) = fst (run_stream A n trial k1 us) ++ fst (run_stream A n trial k2 (snd (run_stream A n trial k1 us))) /\
  snd (run_stream A n trial (k1 + k2) us) = snd (run_stream A n trial k2 (snd (run_stream A n trial k1 us))).
Proof. exact run_stream_split. Qed.
Print Assumptions C11_runs_compose_on_the_stream.
