(** C12 - interrupted batch runs resume without losing or duplicating trials. *)
From Coq Require Import Arith List Bool.
From PQ Require Import Resume.

(** a run that is not stopped ends with exactly T trials for every simulation of the specification,
    each list being the one adopted from disk extended by fresh trials - whatever was on disk, whatever
    the save schedule, for specifications that may contain simulations absent from the file *)
Theorem C12_completed_run_has_exactly_the_requested_trials :
  forall key tok keq, (forall a b, keq a b = true <-> a = b) -> forall gen spec d T run sched stop k,
  NoDup spec -> In k spec -> (forall k', In k' spec -> length (get key tok keq k' d) <= T) ->
  T - minlen key tok (load key tok keq spec d) <= stop ->
  let d' := run_batch key tok keq gen spec d T run sched stop in
  length (get key tok keq k d') = T /\ exists fresh, get key tok keq k d' = get key tok keq k d ++ fresh.
Proof. exact run_to_completion_exact. Qed.
Print Assumptions C12_completed_run_has_exactly_the_requested_trials.

(** a run stopped anywhere leaves every simulation's saved list a prefix-extension of what was on
    disk before (all trials of the last completed save are kept, unchanged, as a prefix) ... *)
Theorem C12_stopped_run_keeps_the_last_save_as_prefix :
  forall key tok keq, (forall a b, keq a b = true <-> a = b) -> forall gen d r k,
  NoDup (r_spec key r) -> In k (r_spec key r) ->
  exists fresh, get key tok keq k (do_run key tok keq gen d r) = get key tok keq k d ++ fresh.
Proof. exact partial_run_keeps_prefix. Qed.
Print Assumptions C12_stopped_run_keeps_the_last_save_as_prefix.

(** ... and never more than the largest target requested so far (so non-decreasing targets never overshoot) *)
Theorem C12_stopped_run_never_exceeds_the_target :
  forall key tok keq, (forall a b, keq a b = true <-> a = b) -> forall gen d r k B,
  NoDup (r_spec key r) -> In k (r_spec key r) -> r_T key r <= B ->
  length (get key tok keq k d) <= B -> length (get key tok keq k (do_run key tok keq gen d r)) <= B.
Proof. exact partial_run_bounded. Qed.
Print Assumptions C12_stopped_run_never_exceeds_the_target.

(** results belonging to a different (code, noise, decoder, error rate) are never adopted *)
Theorem C12_only_equal_inputs_are_adopted :
  forall key tok keq, (forall a b, keq a b = true <-> a = b) -> forall k d t,
  lookup key tok keq k d = Some t -> exists k', In (k', t) d /\ k' = k.
Proof. exact adopts_only_equal_key. Qed.
Print Assumptions C12_only_equal_inputs_are_adopted.

(** a kill inside the checkpoint write leaves either the previous complete file or the new one *)
Theorem C12_atomic_checkpoint_write :
  forall A (old : file A) new killed, write_atomic old new killed = old \/ write_atomic old new killed = Complete new.
Proof. exact @atomic_write_keeps_last_save. Qed.
Print Assumptions C12_atomic_checkpoint_write.
