(** C06 - decoding is a pure function of the syndrome (model side). *)
From Coq Require Import Arith NArith List Bool.
From PQ Require Import Bits Pauli Code Decoders.

(** the wrapper keeps no state that feeds back into its answer: whatever syndromes a decoder object has
    decoded before, its answer for a syndrome is the answer of a fresh object - provided the sector
    solvers are functions of their input (the oracle assumption that the differential run tests) *)
Theorem C06_decode_independent_of_history :
  forall c solve_x solve_z hist syn,
  snd (decode_step c solve_x solve_z (fold_left (fun st s => fst (decode_step c solve_x solve_z st s)) hist nil) syn)
  = snd (decode_step c solve_x solve_z nil syn).
Proof. exact decode_history_independent. Qed.
Print Assumptions C06_decode_independent_of_history.

(** a wrapper that reads a buffer the solver refreshes only on some calls (the BP-OSD wrapper before the
    fix, reading ldpc's osdw_decoding) is NOT history independent: 2-call witness *)
Theorem C06_stale_buffer_variant_refuted :
  let fresh := fun s => match s with (true :: nil)%list => Some 1%N | _ => None end in
  snd (stale_step fresh (fst (stale_step fresh 0%N (true :: nil)%list)) (false :: nil)%list)
  <> snd (stale_step fresh 0%N (false :: nil)%list).
Proof. exact stale_buffer_refuted. Qed.
Print Assumptions C06_stale_buffer_variant_refuted.
