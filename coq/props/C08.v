(** C08 - Clifford deformation is one consistent single-qubit relabelling. *)
From Coq Require Import NArith List Bool.
From PQ Require Import Bits Pauli Code Deform DeformSM.

(** commutation relations are preserved by any per-qubit permutation of {X,Y,Z} *)
Theorem C08_commutation_preserved :
  forall n D u v, perm_ok n D = true -> bbounded n u = true -> bbounded n v = true ->
  sp (apply D u) (apply D v) = sp u v.
Proof. exact sp_apply_invariant. Qed.
Print Assumptions C08_commutation_preserved.

(** deforming replaces every stabilizer and logical by its image; validity, n, k and rank are preserved *)
Theorem C08_deformed_code_valid_same_n_k_rank :
  forall c D E, perm_ok (nn c) D = true -> inv_ok (nn c) E D = true -> Valid c ->
  Valid (deform D c) /\ nq (deform D c) = nq c /\ length (lgx (deform D c)) = length (lgx c)
  /\ length (stabs (deform D c)) = length (stabs c).
Proof.
  intros c D E H1 H2 V. split; [exact (deform_valid c D E H1 H2 V)|].
  unfold deform; cbn. now rewrite !map_length.
Qed.
Print Assumptions C08_deformed_code_valid_same_n_k_rank.

(** the deformed code sees D(e) exactly as the original code sees e: same syndrome ... *)
Theorem C08_same_syndrome :
  forall c D e, perm_ok (nn c) D = true -> (forall s, In s (stabs c) -> bbounded (nn c) s = true) ->
  bbounded (nn c) e = true -> syndrome (deform D c) (apply D e) = syndrome c e.
Proof. exact syndrome_deform. Qed.
Print Assumptions C08_same_syndrome.
(** ... same logical effect ... *)
Theorem C08_same_logical_effect :
  forall c D e, perm_ok (nn c) D = true -> (forall l, In l (lgx c ++ lgz c) -> bbounded (nn c) l = true) ->
  bbounded (nn c) e = true -> logical_errors (deform D c) (apply D e) = logical_errors c e.
Proof. exact logical_errors_deform. Qed.
Print Assumptions C08_same_logical_effect.
(** ... hence the same verdict *)
Theorem C08_same_success :
  forall c D e, perm_ok (nn c) D = true ->
  (forall r, In r (stabs c ++ lgx c ++ lgz c) -> bbounded (nn c) r = true) ->
  bbounded (nn c) e = true -> is_success (deform D c) (apply D e) = is_success c e.
Proof. exact is_success_deform. Qed.
Print Assumptions C08_same_success.

(** "XZZX": Hadamard exactly on a set of qubits, "XY": Y<->Z on a set of qubits - both are
    permutations and involutions for every n and every qubit set *)
Theorem C08_hadamard_on_is_involutive_permutation :
  forall n m, bounded n m = true ->
  perm_ok n (hadamard_on n m) = true /\ inv_ok n (hadamard_on n m) (hadamard_on n m) = true.
Proof. exact hadamard_on_ok. Qed.
Print Assumptions C08_hadamard_on_is_involutive_permutation.
Theorem C08_yz_swap_on_is_involutive_permutation :
  forall n m, bounded n m = true ->
  perm_ok n (yz_swap_on n m) = true /\ inv_ok n (yz_swap_on n m) (yz_swap_on n m) = true.
Proof. exact yz_swap_on_ok. Qed.
Print Assumptions C08_yz_swap_on_is_involutive_permutation.

(** a dumped deformed table that passes [deformed_ok] against the dumped undeformed one is valid *)
Theorem C08_checked_deformed_table_valid :
  forall c cd D, deformed_ok c cd D = true -> Valid c -> Valid cd.
Proof. exact deformed_ok_valid. Qed.
Print Assumptions C08_checked_deformed_table_valid.

(** a deformation is always applied to the undeformed code: for every history of deform calls and
    property accesses on one object, what it exposes equals a fresh object deformed once *)
Theorem C08_result_independent_of_history :
  forall (T name table : Type) (base : T) (wrap : name -> T -> T) (compute : T -> table) (ops : list (op name)),
  observe T table compute (fold_left (step T name table wrap compute) ops (init T table base))
  = compute (fresh T name base wrap (last_deform name ops None)).
Proof. exact deform_history_independent. Qed.
Print Assumptions C08_result_independent_of_history.
