(** C07 - the Pauli noise model is the stated i.i.d. channel and is sampled faithfully. *)
From Coq Require Import QArith List Bool Reals.
From PQ Require Import Noise NoiseR.

Theorem C07_channel_is_a_distribution :
  forall p rx ry rz, (0 <= p -> p <= 1 -> 0 <= rx -> 0 <= ry -> 0 <= rz -> rx + ry + rz == 1 ->
  nonneg (chan p rx ry rz) /\ total (chan p rx ry rz) == 1)%Q.
Proof. exact chan_is_distribution. Qed.
Print Assumptions C07_channel_is_a_distribution.

Theorem C07_deformed_channel_is_a_distribution :
  forall d t, is_perm d = true -> nonneg t -> (total t == 1)%Q -> nonneg (permute d t) /\ (total (permute d t) == 1)%Q.
Proof. exact permute_is_distribution. Qed.
Print Assumptions C07_deformed_channel_is_a_distribution.

(** noise deformed by a name assigns to sigma what the undeformed model assigns to D(sigma) (also C08) *)
Theorem C07_deformed_probability_is_relabelled : forall d t s, get (permute d t) s = get t (dapply d s).
Proof. exact permute_is_relabelling. Qed.
Print Assumptions C07_deformed_probability_is_relabelled.

(** for EVERY value of the uniform variate: the sampled Pauli is sigma iff u is in sigma's interval,
    whose length is the channel probability of sigma *)
Theorem C07_sampling_interval :
  forall t u s, nonneg t -> (total t == 1 -> 0 <= u -> u < 1 ->
  (fast_choice u t = s <-> fst (ivl t s) <= u /\ u < snd (ivl t s)))%Q.
Proof. exact fast_choice_interval. Qed.
Print Assumptions C07_sampling_interval.
Theorem C07_interval_length_is_probability : forall t s, (snd (ivl t s) - fst (ivl t s) == get t s)%Q.
Proof. exact ivl_length. Qed.
Print Assumptions C07_interval_length_is_probability.

Theorem C07_rate_zero_gives_no_error : forall rx ry rz u, (0 <= u)%Q -> (u < 1)%Q -> fast_choice u (chan 0 rx ry rz) = I4.
Proof. exact no_error_at_rate_zero. Qed.
Print Assumptions C07_rate_zero_gives_no_error.
Theorem C07_rate_one_gives_an_error_on_every_qubit :
  forall rx ry rz u, (0 <= u)%Q -> (u < 1)%Q -> fast_choice u (chan 1 rx ry rz) <> I4.
Proof. exact error_everywhere_at_rate_one. Qed.
Print Assumptions C07_rate_one_gives_an_error_on_every_qubit.

(** one Pauli per qubit (length n, hence a binary vector of length 2n), drawn independently:
    qubit i is a function of variate i and of qubit i's distribution only *)
Theorem C07_sample_length : forall us ds, length us = length ds -> length (generate us ds) = length ds.
Proof. exact generate_length. Qed.
Print Assumptions C07_sample_length.
Theorem C07_qubits_sampled_independently :
  forall us ds i, length us = length ds -> (i < length ds)%nat ->
  nth i (generate us ds) I4 = fast_choice (nth i us 0%Q) (nth i ds (D4 0 0 0 0)).
Proof. exact generate_independent. Qed.
Print Assumptions C07_qubits_sampled_independently.

(** priors: the conditional update is the conditional probability of the channel *)
Theorem C07_bp_update_is_conditional_probability :
  forall t, (total t == 1)%Q ->
  ((~ mz t == 0 -> upd_zx t true * mz t == pY t) /\ (~ 1 - mz t == 0 -> upd_zx t false * (pI t + pX t) == pX t))%Q.
Proof. exact upd_zx_is_conditional. Qed.
Print Assumptions C07_bp_update_is_conditional_probability.

(** matching weights are log-likelihood ratios -ln(m/(1-m)) of the flip marginal: strictly decreasing
    in the marginal, positive exactly below 1/2 *)
Theorem C07_weight_decreasing_in_marginal : forall m m', (0 < m -> m < m' -> m' < 1 -> weightR m' < weightR m)%R.
Proof. exact weight_decreasing. Qed.
Print Assumptions C07_weight_decreasing_in_marginal.
Theorem C07_weight_positive_iff_marginal_below_half : forall m, (0 < m -> m < 1 -> (0 < weightR m <-> m < 1 / 2))%R.
Proof. exact weight_positive_iff. Qed.
Print Assumptions C07_weight_positive_iff_marginal_below_half.
Theorem C07_odds_monotone : forall m m', (0 <= m -> m < m' -> m' < 1 -> odds m < odds m')%Q.
Proof. exact odds_monotone. Qed.
Print Assumptions C07_odds_monotone.
