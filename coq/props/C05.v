(** C05 - decoders return valid corrections that reproduce the measured syndrome (glue part). *)
From Coq Require Import Arith NArith List Bool.
From PQ Require Import Bits Pauli Code Decoders.

(** matching / union-find / CSS BP-OSD: the Z-part of the syndrome goes to the X-solver (built on Hz),
    the X-part to the Z-solver (built on Hx), the answers fill the X and Z halves; with solvers that
    reproduce their sector syndrome the correction has exactly the measured syndrome, for the syndrome
    of ANY Pauli error *)
Theorem C05_css_glue_reproduces_syndrome :
  forall c, css_rows (stabs c) = true -> forallb (fun r => negb (beqb r bzero)) (stabs c) = true ->
  forall solve_x solve_z e, complete_x c solve_x -> complete_z c solve_z ->
  syndrome c (css_decode c solve_x solve_z (syndrome c e)) = syndrome c e.
Proof. exact css_decode_reproduces_syndrome. Qed.
Print Assumptions C05_css_glue_reproduces_syndrome.

Theorem C05_error_plus_correction_in_codespace :
  forall c, css_rows (stabs c) = true -> forallb (fun r => negb (beqb r bzero)) (stabs c) = true ->
  forall solve_x solve_z e, complete_x c solve_x -> complete_z c solve_z ->
  in_codespace c (badd e (css_decode c solve_x solve_z (syndrome c e))) = true.
Proof. exact css_decode_returns_to_codespace. Qed.
Print Assumptions C05_error_plus_correction_in_codespace.

Theorem C05_trivial_syndrome_trivial_correction :
  forall c solve_x solve_z, (forall l, forallb negb l = true -> solve_x l = 0%N) -> (forall l, forallb negb l = true -> solve_z l = 0%N) ->
  forall syn, forallb negb syn = true -> css_decode c solve_x solve_z syn = bzero.
Proof. exact css_decode_trivial. Qed.
Print Assumptions C05_trivial_syndrome_trivial_correction.

(** non-CSS mode of BP-OSD: solver on the full matrix, columns ordered [z | x], answer swapped back *)
Theorem C05_noncss_glue_reproduces_syndrome :
  forall c (solve : list bool -> N * N),
  (forall s, map (fun r => plain_dot r (fst (solve s)) (snd (solve s))) (stabs c) = s) ->
  forall e, syndrome c (B (snd (solve (syndrome c e))) (fst (solve (syndrome c e)))) = syndrome c e.
Proof. exact bposd_noncss_reproduces_syndrome. Qed.
Print Assumptions C05_noncss_glue_reproduces_syndrome.
