(** C03 - Pauli representations are lossless and the symplectic product is exact. *)
From Coq Require Import NArith List Bool.
From PQ Require Import Bits Pauli Code Convert.

(** the commutation product is the GF(2) symplectic form, which is symmetric, alternating, bilinear *)
Theorem C03_symmetric : forall a b, sp a b = sp b a.
Proof. exact sp_comm. Qed.
Print Assumptions C03_symmetric.
Theorem C03_zero_on_equal_arguments : forall a, sp a a = false.
Proof. exact sp_self. Qed.
Print Assumptions C03_zero_on_equal_arguments.
Theorem C03_bilinear_left : forall a b c, sp (badd a b) c = xorb (sp a c) (sp b c).
Proof. exact sp_add_l. Qed.
Print Assumptions C03_bilinear_left.
Theorem C03_bilinear_right : forall a b c, sp c (badd a b) = xorb (sp c a) (sp c b).
Proof. exact sp_add_r. Qed.
Print Assumptions C03_bilinear_right.
(** consequently syndrome measurement is GF(2)-linear in the error *)
Theorem C03_syndrome_linear : forall c a b, syndrome c (badd a b) = xorl (syndrome c a) (syndrome c b).
Proof. exact syndrome_linear. Qed.
Print Assumptions C03_syndrome_linear.

(** any overlap weight, any integer width: counting overlaps in w-bit integers (w >= 1), wrapping, and
    reducing mod 2 gives exactly the symplectic form (the "overlap > 255 in uint8" case for every w) *)
Theorem C03_fixed_width_count_is_exact :
  forall w a b, (1 <= w)%N -> bs_prod_dense w a b = if sp a b then 1%N else 0%N.
Proof. exact bs_prod_dense_exact. Qed.
Print Assumptions C03_fixed_width_count_is_exact.
Theorem C03_uint_wrap_harmless : forall w s, (1 <= w)%N -> ((s mod 2 ^ w) mod 2 = s mod 2)%N.
Proof. exact uint_wrap_harmless. Qed.
Print Assumptions C03_uint_wrap_harmless.

(** conversions are mutually inverse *)
Theorem C03_string_bvector_string : forall s, string_of_bv (bv_of_string s) = s.
Proof. exact string_of_bv_of_string. Qed.
Print Assumptions C03_string_bvector_string.
Theorem C03_bvector_string_bvector : forall v n, length v = n + n -> bv_of_string (string_of_bv v) = v.
Proof. exact bv_of_string_of_bv. Qed.
Print Assumptions C03_bvector_string_bvector.
Theorem C03_bvector_int_bvector : forall v, int_to_bv (length v) (bv_to_int v) = v.
Proof. exact int_to_bv_to_int. Qed.
Print Assumptions C03_bvector_int_bvector.
Theorem C03_int_bvector_int : forall m k, (k < 2 ^ N.of_nat m)%N -> bv_to_int (int_to_bv m k) = k.
Proof. exact bv_to_int_to_bv. Qed.
Print Assumptions C03_int_bvector_int.
Theorem C03_weight_agrees : forall s, bv_wt (bv_of_string s) = string_wt s.
Proof. exact bv_wt_string. Qed.
Print Assumptions C03_weight_agrees.
