(** C19 - generated input files cover exactly the requested parameter grid. *)
From Coq Require Import QArith ZArith List Bool.
From PQ Require Import GenInput.
Local Open Scope Q_scope.

(** min:max:step on a grid where max - min is a whole number m of steps: exactly the arithmetic
    progression min, min+step, ..., max (m+1 values, last one = max) *)
Theorem C19_range_is_arithmetic_progression :
  forall mn mx st (m : Z), 0 < st -> (0 <= m)%Z -> mx - mn == inject_Z m * st ->
  n_steps mn mx st = m /\
  length (range_values mn mx st) = S (Z.to_nat m) /\
  (forall i, (0 <= i <= m)%Z -> nth (Z.to_nat i) (range_values mn mx st) 0 == mn + st * inject_Z i) /\
  nth (Z.to_nat m) (range_values mn mx st) 0 == mx.
Proof. exact range_is_progression. Qed.
Print Assumptions C19_range_is_arithmetic_progression.

(** no value beyond max, for every min, max, step *)
Theorem C19_no_value_beyond_max : forall mn mx st v, In v (range_values mn mx st) -> v <= mx.
Proof. exact range_never_beyond_max. Qed.
Print Assumptions C19_no_value_beyond_max.

Theorem C19_direction_sums_to_one : forall b eta, let '(x, y, z) := direction b eta in x + y + z == 1.
Proof. exact direction_sums_to_one. Qed.
Print Assumptions C19_direction_sums_to_one.

Theorem C19_direction_matches_bias :
  forall b e, 0 <= e -> let '(x, y, z) := direction b (Some e) in
  match b with BX => x == e * (y + z) | BY => y == e * (x + z) | BZ => z == e * (x + y) end.
Proof. exact finite_bias_ratio. Qed.
Print Assumptions C19_direction_matches_bias.

Theorem C19_infinite_bias_is_pure_noise :
  forall b, direction b None = match b with BX => (1, (1-1)/2, (1-1)/2) | BY => ((1-1)/2, 1, (1-1)/2) | BZ => ((1-1)/2, (1-1)/2, 1) end.
Proof. exact infinite_bias_is_pure. Qed.
Print Assumptions C19_infinite_bias_is_pure_noise.
