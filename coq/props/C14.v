(** C14 - parallel runs execute exactly the requested trials per input. *)
From Coq Require Import NArith List Bool.
From PQ Require Import Parallel.
Local Open Scope N_scope.

(** for ALL numbers of input files I, tasks M = nodes*cores >= I, requested trials T >= tasks per
    input: the tasks working on input i are the block [lo i, lo i + len i) and their trials sum to T *)
Theorem C14_total_trials_per_input :
  forall I M T i, 1 <= I -> I <= M -> i < I -> len I M i <= T ->
  block_sum (runs I M T) (lo I M i) (N.to_nat (len I M i)) = T.
Proof. exact parallel_total. Qed.
Print Assumptions C14_total_trials_per_input.

Theorem C14_task_input_is_its_block :
  forall I M t, 1 <= I -> I <= M -> t < M ->
  inp I M t < I /\ lo I M (inp I M t) <= t /\ t < lo I M (inp I M t) + len I M (inp I M t).
Proof. exact parallel_blocks_tile. Qed.
Print Assumptions C14_task_input_is_its_block.

Theorem C14_every_task_gets_at_least_one_trial :
  forall I M T t, 1 <= I -> I <= M -> t < M -> (forall i, i < I -> len I M i <= T) -> 1 <= runs I M T t.
Proof. exact parallel_every_task_gets_a_trial. Qed.
Print Assumptions C14_every_task_gets_at_least_one_trial.

Theorem C14_no_division_by_zero :
  forall I M t, 1 <= I -> I <= M -> 1 <= base I M /\ 1 <= tpi I M t.
Proof. exact parallel_divisors_positive. Qed.
Print Assumptions C14_no_division_by_zero.

Theorem C14_result_files_distinct : forall t t', file_index t = file_index t' -> t = t'.
Proof. exact file_index_injective. Qed.
Print Assumptions C14_result_files_distinct.
