(** C20 - the visualizer backend serves every offered choice (lookup and offering rule). *)
From Coq Require Import List Bool String.
From PQ Require Import Gui.

(** with the kitaev fallback the representation lookup is total for both pictures whenever the kitaev
    picture of the class defines the stabilizer type *)
Theorem C20_lookup_total_for_both_pictures :
  forall t cls pics tys ty e picture,
  assoc cls t = Some pics -> assoc "kitaev"%string pics = Some tys -> assoc ty tys = Some e ->
  exists e', stab_lookup t cls picture ty = Some e'.
Proof. exact stab_lookup_total. Qed.
Print Assumptions C20_lookup_total_for_both_pictures.

(** the decoders offered for a code are exactly those declaring support for its class *)
Theorem C20_offered_decoders_are_exactly_the_declared_ones :
  forall decs cls name, In name (offered decs cls) <->
  exists allowed, In (name, allowed) decs /\ (allowed = None \/ exists l, allowed = Some l /\ existsb (String.eqb cls) l = true).
Proof. exact offered_spec. Qed.
Print Assumptions C20_offered_decoders_are_exactly_the_declared_ones.
