(** C09 - matching is exactly minimum-weight; correctable sets are always corrected. *)
From Coq Require Import Arith NArith QArith List Bool Reals.
From PQ Require Import Bits Pauli Code Operator Distance Decoders NoiseR.

(** the verified optimality checker: an accepted correction has the sector syndrome and no correction
    with that syndrome (among ALL 2^n) has a larger product of odds (beyond the stated slack) - maximum
    likelihood, i.e. minimum total log-likelihood weight since weight = -ln(odds) is decreasing *)
Theorem C09_optimality_checker_sound :
  forall n H odds s c slack, opt_ok n H odds s c slack = true ->
  mulH H c = s /\
  forall x, bounded (N.of_nat n) x = true -> mulH H x = s -> (prod_odds odds 0 x <= prod_odds odds 0 c * slack)%Q.
Proof. exact opt_ok_sound. Qed.
Print Assumptions C09_optimality_checker_sound.

Theorem C09_weight_is_decreasing_in_the_flip_marginal : forall m m', (0 < m -> m < m' -> m' < 1 -> weightR m' < weightR m)%R.
Proof. exact weight_decreasing. Qed.
Print Assumptions C09_weight_is_decreasing_in_the_flip_marginal.

(** a minimum-weight sector solver with uniform weights corrects EVERY Pauli error of weight <= (d-1)/2:
    any correction with the syndrome of e whose sectors are no heavier than those of e succeeds when 2 wt(e) < d *)
Theorem C09_min_weight_corrects_up_to_half_distance :
  forall c d, css_rows (stabs c) = true -> Distance c d ->
  forall e cx cz, bbounded (nn c) e = true -> bounded (nn c) cx = true -> bounded (nn c) cz = true ->
  syndrome c (B cx cz) = syndrome c e ->
  (nw (nq c) cx <= nw (nq c) (bx e))%nat -> (nw (nq c) cz <= nw (nq c) (bz e))%nat ->
  (2 * wtn (nq c) e < d)%nat -> is_success c (badd e (B cx cz)) = true.
Proof. intros c d H1 H2. exact (min_weight_correction_succeeds c d H1 H2). Qed.
Print Assumptions C09_min_weight_corrects_up_to_half_distance.
