#!/bin/bash
# run every seeded change against the quick check(s) of its property and every reverted fix against its check;
# writes seeded/RESULTS.json and updates meta.json detected_by
cd /verif
/venv/bin/python - <<'PY'
import json, os, subprocess, glob
res = {}
for d in sorted(glob.glob('/verif/seeded/*/')):
    name = os.path.basename(d.rstrip('/'))
    meta = json.load(open(d + 'meta.json'))
    prop = meta['property']
    out = subprocess.run(['/verif/tools/seedrun.sh', d.rstrip('/'), prop], capture_output=True, text=True).stdout
    nviol = sum(1 for l in out.split('\n') if l.startswith('VIOLATION'))
    res[name] = {prop: 'detected (%d replays)' % nviol if nviol else 'MISSED'}
    meta['detected_by'] = {prop: nviol > 0}
    json.dump(meta, open(d + 'meta.json', 'w'), indent=1)
    print(name, res[name], flush=True)
# reverted fixes
kf = json.load(open('/verif/known_findings.json'))['findings']
for f in kf:
    if f['status'] != 'fixed':
        continue
    props = [f['property']]
    subprocess.run(['git', '-C', '/repo', 'revert', '--no-commit', f['commit']], capture_output=True)
    try:
        for p in props:
            out = subprocess.run(['./check', p, '--tier', 'quick'], capture_output=True, text=True, cwd='/verif').stdout
            nviol = sum(1 for l in out.split('\n') if l.startswith('VIOLATION'))
            res['revert-' + f['id']] = {p: 'detected (%d replays)' % nviol if nviol else 'MISSED'}
            print('revert', f['id'], res['revert-' + f['id']], flush=True)
    finally:
        subprocess.run(['git', '-C', '/repo', 'revert', '--abort'], capture_output=True)
        subprocess.run(['git', '-C', '/repo', 'checkout', '--', '.'], capture_output=True)
json.dump(res, open('/verif/seeded/RESULTS.json', 'w'), indent=1)
PY
