#!/bin/bash
# Run every seeded change against the quick check of its property, and every reverted "fix:" commit against the check of
# its property, each in its own scratch worktree (tools/seedrun_wt.sh), P at a time.  Writes seeded/RESULTS.json and
# updates each meta.json's detected_by.  usage: tools/seed_matrix.sh [P]   (FILTER=<egrep pattern on job names> re-runs only those
# jobs and merges their results into the existing seeded/RESULTS.json)
cd /verif
P=${1:-3}
mkdir -p work/matrix; [ -n "${FILTER:-}" ] || rm -f work/matrix/*.log
/venv/bin/python - <<'PY' > work/matrix/jobs.txt
import json, glob, os
for d in sorted(glob.glob('/verif/seeded/*/')):
    name = os.path.basename(d.rstrip('/'))
    print(d.rstrip('/'), name, json.load(open(d + 'meta.json'))['property'])
for f in json.load(open('/verif/known_findings.json'))['findings']:
    if f['status'] == 'fixed':
        print('revert:' + f['commit'], 'revert-' + f['id'], f['property'])
PY
if [ -n "${FILTER:-}" ]; then grep -E "$FILTER" work/matrix/jobs.txt > work/matrix/jobs.f; mv work/matrix/jobs.f work/matrix/jobs.txt; fi
cat work/matrix/jobs.txt | xargs -P$P -L1 sh -c 'tools/seedrun_wt.sh $0 $1 $2 > work/matrix/$1.log 2>&1'
/venv/bin/python - <<'PY'
import json, os
res = json.load(open('/verif/seeded/RESULTS.json')) if os.environ.get('FILTER') and os.path.exists('/verif/seeded/RESULTS.json') else {}
for line in open('/verif/work/matrix/jobs.txt'):
    src, name, prop = line.split()
    out = open('/verif/work/matrix/%s.log' % name).read()
    nviol = sum(1 for l in out.split('\n') if l.startswith('VIOLATION'))
    ran = any(l.startswith(('OK', 'FAIL')) for l in out.split('\n'))
    res[name] = {prop: ('detected (%d replays)' % nviol) if nviol else ('MISSED' if ran else 'CHECK DID NOT RUN')}
    mp = '/verif/seeded/%s/meta.json' % name
    if os.path.exists(mp):
        meta = json.load(open(mp))
        meta['detected_by'] = {prop: nviol > 0}
        json.dump(meta, open(mp, 'w'), indent=1)
json.dump(res, open('/verif/seeded/RESULTS.json', 'w'), indent=1)
bad = {k: v for k, v in res.items() if 'detected' not in list(v.values())[0]}
print(len(res), 'runs;', len(bad), 'not detected:', bad)
PY
