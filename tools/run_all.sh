#!/bin/bash
# run claimed checks (all, or those given as arguments) on the current /repo tree; tier from $TIER (default quick)
cd /verif
LIST="$@"
[ -z "$LIST" ] && LIST=$(python3 -c "import json; print(' '.join(x['property_id'] for x in json.load(open('MANIFEST.json'))['checks']))")
for c in $LIST; do
  ./check $c --tier ${TIER:-quick} 2>/dev/null | grep -E "^(VIOLATION|KNOWN-FINDING|OK|FAIL)" | head -5
done
