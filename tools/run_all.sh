#!/bin/bash
# run every claimed check (tier from $TIER, default quick) on the current /repo tree; prints one line per check
cd /verif
for c in $(python3 -c "import json; print(' '.join(x['property_id'] for x in json.load(open('MANIFEST.json'))['checks']))"); do
  ./check $c --tier ${TIER:-quick} 2>/dev/null | grep -E "^(VIOLATION|KNOWN-FINDING|OK|FAIL)" | head -5
done
