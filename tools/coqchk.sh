#!/bin/bash
# independent re-check of every compiled property file and everything it depends on; prints the axioms relied on
cd /verif/coq && timeout 6000 coqchk -silent -o -Q theories PQ -Q props PQP $(ls props/*.v | sed 's#props/\(.*\)\.v#PQP.\1#')
