#!/usr/bin/env python3
"""import_seed.py <name> <property> : copy a confirmed seeded change from /tmp/seed/out/<name> into /verif/seeded/<name>"""
import json, os, shutil, sys
name, prop = sys.argv[1], sys.argv[2]
src = '/tmp/seed/out/' + name
conf = json.load(open('/verif/work/confirm/%s.json' % name))
assert conf['confirmed'], conf
dst = '/verif/seeded/' + name
os.makedirs(dst, exist_ok=True)
for f in ('patch.diff', 'demo.py'):
    shutil.copy(os.path.join(src, f), os.path.join(dst, f))
notes = open(os.path.join(src, 'notes.txt')).read() if os.path.exists(os.path.join(src, 'notes.txt')) else ''
meta = {'id': name, 'property': prop, 'origin': 'independent sub-agent given only the property text and a scratch worktree',
        'needs_to_manifest': notes,
        'confirmed_by': {'command': 'tools/confirm_seed.sh /tmp/seed/out/%s %s (scratch worktree of /repo)' % (name, name),
                         'patch_applies': conf['apply_rc'] == 0, 'demo_exit_without_change': conf['demo_without'],
                         'demo_exit_with_change': conf['demo_with'], 'pytest_summary_with_change': conf['pytest_summary'],
                         'baseline_stable_pass_tests_missing': conf['n_baseline_missing']},
        'detected_by': {}}
mp = os.path.join(dst, 'meta.json')
if os.path.exists(mp):
    meta['detected_by'] = json.load(open(mp)).get('detected_by', {})
json.dump(meta, open(mp, 'w'), indent=1)
print('imported', name)
