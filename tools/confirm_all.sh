#!/bin/bash
# confirm every seed under /tmp/seed/out that has patch.diff and is not yet confirmed (sequential)
for d in /tmp/seed/out/*/; do
  n=$(basename $d)
  [ -f $d/patch.diff ] && [ -f $d/demo.py ] || continue
  [ -f /verif/work/confirm/$n.json ] && continue
  /verif/tools/confirm_seed.sh $d $n
done
