#!/bin/bash
# confirm every /tmp/seed/out/<name> that has notes.txt and no result yet (4 at a time)
cd /verif
for d in /tmp/seed/out/*; do n=$(basename $d); [ -f $d/notes.txt ] && [ -f $d/patch.diff ] && [ ! -f work/confirm/$n.json ] && echo $n; done | xargs -r -P4 -I{} sh -c 'tools/confirm_seed.sh /tmp/seed/out/{} {} 2>&1 | tail -1 | cut -c1-260'
