#!/usr/bin/env python3
"""Regenerates /verif/MANIFEST.json from the table below (keeps it schema-valid)."""
import json
import os

ROOT = os.path.dirname(os.path.dirname(os.path.abspath(__file__)))

TB = ('Trusted: Coq 8.16.1 kernel + vm_compute (no native_compute); no axioms of our own; Python dump/trace drivers '
      'and literal printers (harness/, drivers/) decide which implementation outputs reach the kernel. ')

CHECKS = {
    'C01': dict(
        category='proof',
        text=('Unbounded Coq theorem check_cert_valid (a table accepted by the certificate checker satisfies every clause '
              'of the property, for all rows and all linear combinations) + kernel evaluation (vm_compute) of the checker on the '
              'table the implementation built on this run, for every (class, supported size in the grid, deformation, axis); '
              'grid bound stated in evidence. Sizes beyond the grid are not covered.'),
        design_ref='DESIGN.md section 5 C01',
        note=TB + 'Certificates (independent subset, destabilizers) are found by untrusted Python and only checked in Coq. '
             'Supported-size families as fixed in DESIGN.md section 4.',
        technique='Coq theorem (certificate soundness) + kernel-evaluated certificate check on dumped tables'),
}

CHECKS['C04'] = dict(
    category='proof',
    text=('Unbounded Coq theorem success_iff_stabilizer: for a table accepted by the certificate checker, for EVERY residual error '
          '(all 4^n) is_success <-> error in the span of the generators; plus in_codespace_iff, linearity, coset constancy, sector '
          'layout theorems. Kernel-evaluated: certificate per dumped instance (so the all-errors theorem applies to that instance), '
          'model == implementation on sampled residual errors, and on all 4^n operators for n <= 6 (quick) / 8 (thorough).'),
    design_ref='DESIGN.md section 5 C04',
    note=TB + 'Model of in_codespace/logical_errors/is_logical_error/is_success is hand-written (Code.v) and tied to the implementation by '
         'the correspondence on recorded outputs. Certificates untrusted, checked in Coq.',
    technique='Coq theorem (all-errors success criterion from a checked symplectic-basis certificate) + kernel-evaluated correspondence')
CHECKS['C08'] = dict(
    category='proof',
    text=('Unbounded Coq theorems: the symplectic form is invariant under any per-qubit permutation of {X,Y,Z}; deformation preserves '
          'validity, n, k, rank; deformed code sees D(e) as the code sees e (syndrome, logical effect, success); deform/access state '
          'machine is history independent (and two refuted variants). Kernel-evaluated per dumped deformed instance: deformed table = '
          'image of undeformed table under the dumped per-qubit dictionaries; XZZX = Hadamard exactly on the chosen-axis qubits; XY = '
          'Y<->Z everywhere. Histories and the noise side are correspondence runs against the implementation.'),
    design_ref='DESIGN.md section 5 C08',
    note=TB + 'The noise-side clause (deformed model = undeformed model of D(e)) is checked on the implementation with dyadic parameters '
         '(exact float arithmetic); its Coq statement over Q is in C07. History clause: abstract state machine proved in Coq, tied by '
         'running random deform/access histories on real objects.',
    technique='Coq theorems (GL(2,2) mask algebra, state-machine invariant) + kernel-evaluated image check on dumped tables')

CHECKS['C02'] = dict(
    category='proof',
    text=('Unbounded Coq theorems on the model of to_bsf/from_bsf/matrix construction: dict<->BSF bijection (both directions, Y '
          'included), bit-level characterisation of the image, foreign keys are rejected, row i = image of the i-th stabilizer '
          'operator, CSS masks partition the rows, X-(Z-)syndrome depends only on the Z-(X-)part. Kernel-evaluated per dumped instance '
          '(library grid + random user-defined subclasses): coordinates distinct/disjoint, every row non-empty and equal to the '
          'model image of get_stabilizer(loc), masks/blocks equal the model, implementation round trips equal the model. Hash-seed '
          'independence is a differential run (3 seeds).'),
    design_ref='DESIGN.md section 5 C02',
    note=TB + 'Model (Operator.v) is hand-written and tied per instance; hash-randomisation clause is tested, not proved (CPython runtime).',
    technique='Coq theorems (dict/BSF bijection) + kernel-evaluated faithful-image check on dumped tables')

CHECKS['C17'] = dict(
    category='proof',
    text=('Unbounded Coq theorems: the exhaustive search is complete (visits every operator of weight <= b), the CSS reduction '
          '(a logical of a CSS code has a pure-X or pure-Z logical part of no larger weight), checker soundness '
          '(distance_ok[_css] c d w = true -> Distance c d, quantifying over all 4^n operators), and a deformed code has the distance '
          'of the undeformed code. Kernel-evaluated: the search below the reported d + a weight-d logical witness on every dumped '
          'undeformed instance whose estimated cost fits the tier; deformed instances tied by the image check. Instances too costly '
          'are listed in the evidence, not claimed.'),
    design_ref='DESIGN.md section 5 C17',
    note=TB + 'Distance is stated as in the property (commutes with all stabilizers, non-trivial logical action); equivalence with '
         '"not in the stabilizer group" is C04. Packing certificates of DESIGN section 5 were replaced by the verified search.',
    technique='Coq theorem (complete weight-bounded search + CSS reduction) evaluated in the kernel on dumped tables')

CHECKS['C03'] = dict(
    category='proof',
    text=('Unbounded Coq theorems: the symplectic form is symmetric, alternating, bilinear; syndrome is linear; counting overlaps in '
          'w-bit integers (any w >= 1, any overlap weight) then reducing mod 2 equals the symplectic form (uint8 wrap is harmless); '
          'string<->bvector, bvector<->integer conversions are mutually inverse, weights agree. Kernel-evaluated correspondence: all '
          'ordered pairs on n<=3 in all representation pairs, random stacks up to n=600 (density up to 1.0), converters up to 70 qubits '
          '(incl. unsorted CSR rows), measure_syndrome on unit vectors.'),
    design_ref='DESIGN.md section 5 C03',
    note=TB + 'Models of bs_prod (dense fixed-width path), converters (Convert.v) hand-written; NumPy/scipy are exercised, not modelled.',
    technique='Coq theorems (bilinear form, fixed-width wrap, converter inverses) + kernel-evaluated correspondence')

NOT_APPLICABLE = {}

PENDING = ['C02', 'C03', 'C04', 'C05', 'C06', 'C07', 'C08', 'C09', 'C10', 'C11', 'C12', 'C13', 'C14', 'C15',
           'C16', 'C17', 'C18', 'C19', 'C20']


def main():
    checks = []
    for pid in sorted(CHECKS):
        c = CHECKS[pid]
        checks.append({
            'property_id': pid,
            'quick_cmd': './check %s --tier quick' % pid,
            'thorough_cmd': './check %s --tier thorough' % pid,
            'evidence_file': '/verif/evidence/%s.json' % pid,
            'replay_cmd_template': './check %s --replay {path}' % pid,
            'engine': 'coq',
            'level_claimed': {'category': c['category'], 'text': c['text'], 'design_ref': c['design_ref']},
            'level_note': c['note'],
            'technique': c['technique'],
        })
    na = [{'property_id': p, 'reason': r} for p, r in sorted(NOT_APPLICABLE.items())]
    for p in PENDING:
        if p not in CHECKS and p not in NOT_APPLICABLE:
            na.append({'property_id': p, 'reason': 'not yet claimed: check under construction (see DESIGN.md section 8 staging); '
                                                   'the technique applies and the property is planned'})
    m = {
        'version': 1,
        'setup_cmd': 'cd /verif && ./setup.sh',
        'hooks': {
            'guard': 'PANQEC_VERIF',
            'enable': 'no source hooks: drivers instrument from outside (scripted rng, patched Process/open); checks export PANQEC_VERIF=1 for uniformity',
            'baseline_off_cmd': 'cd /repo && /venv/bin/python -m pytest -ra -q -p no:cacheprovider --timeout=900 --continue-on-collection-errors',
            'source_commits': [],
            'add_only': True,
        },
        'engines': [{'name': 'coq', 'path': '/verif/coq', 'serves_properties': sorted(CHECKS),
                     'kind_free_text': 'Coq 8.16.1 development (theories/ generic theory + models, props/ property theorems) '
                                       '+ Python harness generating kernel-evaluated case files from the implementation'}],
        'checks': checks,
        'not_applicable': na,
        'notes': 'See DESIGN.md. Known genuine defects are listed in known_findings.json.',
    }
    with open(os.path.join(ROOT, 'MANIFEST.json'), 'w') as f:
        json.dump(m, f, indent=1)
    print('wrote MANIFEST.json with %d checks' % len(checks))


if __name__ == '__main__':
    main()
