#!/usr/bin/env python3
"""Regenerates /verif/MANIFEST.json from the table below (keeps it schema-valid)."""
import json
import os

ROOT = os.path.dirname(os.path.dirname(os.path.abspath(__file__)))

TB = ('Trusted: Coq 8.16.1 kernel + vm_compute (no native_compute); no axioms of our own; Python dump/trace drivers '
      'and literal printers (harness/, drivers/) decide which implementation outputs reach the kernel. ')

CHECKS = {
    'C01': dict(
        category='proof',
        text=('Unbounded Coq theorem check_cert_valid (a table accepted by the certificate checker satisfies every clause '
              'of the property, for all rows and all linear combinations) + kernel evaluation (vm_compute) of the checker on the '
              'table the implementation built on this run, for every (class, supported size in the grid, deformation, axis); '
              'grid bound stated in evidence. Beyond the grid: per-class Gallina models (Layer P) of Toric2D, Planar2D, RotatedPlanar2D, '
              'Toric3D, Planar3D, RotatedPlanar3D and XCube with theorems FOR ALL SIZES (all generators pairwise commute; for Toric2D, Toric3D, Planar3D, RotatedPlanar3D also: the '
              'listed logicals commute with the generators and X_i / Z_j anticommute exactly when i = j), tied to the implementation by '
              'kernel comparison of the model tables with the dumped ones at every grid size. Rank n-k and the other 9 classes: grid only.'),
        design_ref='DESIGN.md section 5 C01',
        note=TB + 'Certificates (independent subset, destabilizers) are found by untrusted Python and only checked in Coq. '
             'Supported-size families as fixed in DESIGN.md section 4.',
        technique='Coq theorem (certificate soundness) + kernel-evaluated certificate check on dumped tables'),
}

CHECKS['C04'] = dict(
    category='proof',
    text=('Unbounded Coq theorem success_iff_stabilizer: for a table accepted by the certificate checker, for EVERY residual error '
          '(all 4^n) is_success <-> error in the span of the generators; plus in_codespace_iff, linearity, coset constancy, sector '
          'layout theorems. Kernel-evaluated: certificate per dumped instance (so the all-errors theorem applies to that instance), '
          'model == implementation on sampled residual errors, and on all 4^n operators for n <= 6 (quick) / 8 (thorough).'),
    design_ref='DESIGN.md section 5 C04',
    note=TB + 'Model of in_codespace/logical_errors/is_logical_error/is_success is hand-written (Code.v) and tied to the implementation by '
         'the correspondence on recorded outputs. Certificates untrusted, checked in Coq.',
    technique='Coq theorem (all-errors success criterion from a checked symplectic-basis certificate) + kernel-evaluated correspondence')
CHECKS['C08'] = dict(
    category='proof',
    text=('Unbounded Coq theorems: the symplectic form is invariant under any per-qubit permutation of {X,Y,Z}; deformation preserves '
          'validity, n, k, rank; deformed code sees D(e) as the code sees e (syndrome, logical effect, success); deform/access state '
          'machine is history independent (and two refuted variants). Kernel-evaluated per dumped deformed instance: deformed table = '
          'image of undeformed table under the dumped per-qubit dictionaries; XZZX = Hadamard exactly on the chosen-axis qubits; XY = '
          'Y<->Z everywhere. Histories and the noise side are correspondence runs against the implementation.'),
    design_ref='DESIGN.md section 5 C08',
    note=TB + 'The noise-side clause (deformed model = undeformed model of D(e)) is checked on the implementation with dyadic parameters '
         '(exact float arithmetic); its Coq statement over Q is in C07. History clause: abstract state machine proved in Coq, tied by '
         'running random deform/access histories on real objects.',
    technique='Coq theorems (GL(2,2) mask algebra, state-machine invariant) + kernel-evaluated image check on dumped tables')

CHECKS['C02'] = dict(
    category='proof',
    text=('Unbounded Coq theorems on the model of to_bsf/from_bsf/matrix construction: dict<->BSF bijection (both directions, Y '
          'included), bit-level characterisation of the image, foreign keys are rejected, row i = image of the i-th stabilizer '
          'operator, CSS masks partition the rows, X-(Z-)syndrome depends only on the Z-(X-)part. Kernel-evaluated per dumped instance '
          '(library grid + random user-defined subclasses): coordinates distinct/disjoint, every row non-empty and equal to the '
          'model image of get_stabilizer(loc), masks/blocks equal the model, implementation round trips equal the model. Hash-seed '
          'independence is a differential run (3 seeds).'),
    design_ref='DESIGN.md section 5 C02',
    note=TB + 'Model (Operator.v) is hand-written and tied per instance; hash-randomisation clause is tested, not proved (CPython runtime).',
    technique='Coq theorems (dict/BSF bijection) + kernel-evaluated faithful-image check on dumped tables')

CHECKS['C17'] = dict(
    category='proof',
    text=('Unbounded Coq theorems: the exhaustive search is complete (visits every operator of weight <= b), the CSS reduction '
          '(a logical of a CSS code has a pure-X or pure-Z logical part of no larger weight), checker soundness '
          '(distance_ok[_css] c d w = true -> Distance c d, quantifying over all 4^n operators), and a deformed code has the distance '
          'of the undeformed code. Kernel-evaluated: the search below the reported d + a weight-d logical witness on every dumped '
          'undeformed instance whose estimated cost fits the tier; deformed instances tied by the image check. Instances too costly '
          'are listed in the evidence, not claimed; on those (and on a list of long thin lattices) only the refutation side runs: a '
          'lighter logical found by integer programming and checked in the kernel (lighter_logical c d w = true -> ~ Distance c d).'),
    design_ref='DESIGN.md section 5 C17',
    note=TB + 'Distance is stated as in the property (commutes with all stabilizers, non-trivial logical action); equivalence with '
         '"not in the stabilizer group" is C04. Packing certificates of DESIGN section 5 were replaced by the verified search. '
         'scipy.optimize.milp (HiGHS) is an untrusted witness finder: a wrong or missed candidate can only leave a violation unreported.',
    technique='Coq theorem (complete weight-bounded search + CSS reduction) evaluated in the kernel on dumped tables')

CHECKS['C03'] = dict(
    category='proof',
    text=('Unbounded Coq theorems: the symplectic form is symmetric, alternating, bilinear; syndrome is linear; counting overlaps in '
          'w-bit integers (any w >= 1, any overlap weight) then reducing mod 2 equals the symplectic form (uint8 wrap is harmless); '
          'string<->bvector, bvector<->integer conversions are mutually inverse, weights agree. Kernel-evaluated correspondence: all '
          'ordered pairs on n<=3 in all representation pairs, random stacks up to n=600 (density up to 1.0), converters up to 70 qubits '
          '(incl. unsorted CSR rows), measure_syndrome on unit vectors.'),
    design_ref='DESIGN.md section 5 C03',
    note=TB + 'Models of bs_prod (dense fixed-width path), converters (Convert.v) hand-written; NumPy/scipy are exercised, not modelled.',
    technique='Coq theorems (bilinear form, fixed-width wrap, converter inverses) + kernel-evaluated correspondence')

CHECKS['C14'] = dict(
    category='proof',
    text=('Unbounded Coq theorems over N on the model of the run_parallel loop body: for all (inputs I, tasks M=nodes*cores >= I, '
          'trials T >= tasks per input) the tasks of input i form a block whose trials sum to exactly T, every task gets >= 1 trial, all '
          'divisors are >= 1, file indices are injective; the pre-fix remainder rule is refuted by a kernel-computed witness. '
          'Correspondence: the plan (input, trials) of every task the real run_parallel would launch equals the model plan, evaluated '
          'in the kernel for a small exhaustive grid and random large configurations.'),
    design_ref='DESIGN.md section 5 C14',
    note=TB + 'multiprocessing.Process, cpu_count and glob order are replaced by the driver; file-name padding is checked in Python.',
    technique='Coq theorem (div/mod arithmetic of the task split, all I,N,C,T) + kernel-evaluated plan correspondence')

CHECKS['C07'] = dict(
    category='proof',
    text=('Unbounded Coq theorems over Q (and R for the logarithm): the channel (1-p, p r) and every deformed channel is a probability '
          'distribution; the deformed model assigns to sigma what the undeformed assigns to D(sigma); for EVERY variate u in [0,1) the '
          'inverse-CDF sample is sigma iff u lies in sigma\'s interval, whose length is the probability of sigma; p=0 gives no error, '
          'p=1 an error on every qubit; qubits are sampled independently; the BP conditional update is the conditional probability; '
          'matching weights -ln(m/(1-m)) are strictly decreasing in the flip marginal and positive iff m < 1/2. Correspondence in the '
          'kernel: per-qubit distributions, scripted-generator samples (variates on the cumulative boundaries), BP priors; weights '
          'numerically.'),
    design_ref='DESIGN.md section 5 C07',
    note=TB + 'Real-number theorems depend on the standard library axioms of Reals (sig_not_dec, sig_forall_dec, '
         'functional_extensionality_dep, classic). NumPy Generator is replaced by a scripted object; float rounding for non-dyadic '
         'parameters is not modelled.',
    technique='Coq theorems over Q/R (distribution, inverse-CDF intervals, LLR monotonicity) + kernel-evaluated exact correspondence')
CHECKS['C18'] = dict(
    category='proof',
    text=('Unbounded Coq theorems over Q: error_probability is the product of per-qubit channel probabilities; the probabilities of all '
          '4^n errors sum to 1 for every n (induction); it equals the volume of the box of variates that sampling maps to the error; '
          'changing one qubit changes the probability by that qubit\'s likelihood ratio (Metropolis); the pre-fix Y mask is refuted. '
          'Correspondence in the kernel: the implementation\'s probabilities of ALL 4^n errors of tiny codes (exact, dyadic parameters) '
          'equal the model and sum to 1; log form and random errors on larger codes numerically.'),
    design_ref='DESIGN.md section 5 C18',
    note=TB + 'The splitting simulation itself is not run; its Metropolis ratio is exp(log p_new - log p_prev) of the checked function.',
    technique='Coq theorems over Q (product form, normalisation by induction) + kernel-evaluated exhaustive correspondence on tiny codes')

CHECKS['C13'] = dict(
    category='proof',
    text=('Unbounded Coq theorems on the model of the range expansion (any element types): the number of simulations is the product of '
          'the axis lengths; a tuple is produced iff each component was requested (none dropped, nothing else); no duplicates when no '
          'axis repeats a value; a list of ranges is the concatenation; a parameter range is never empty. Kernel-evaluated: index tuples '
          'of the simulations the real read_input_dict builds = model product in order, for random specs in all three forms; registry '
          'names = class names. Round trip from recorded inputs is a differential run.'),
    design_ref='DESIGN.md section 5 C13',
    note=TB + 'Canonical form of a requested parameter set = params of the object built directly from it (implementation constructors as oracle).',
    technique='Coq theorems (Cartesian-product expansion: length, membership, NoDup) + kernel-evaluated order correspondence')
CHECKS['C19'] = dict(
    category='proof',
    text=('Unbounded Coq theorems over Q on the model of read_range_input / direction-from-bias: on a grid where max-min is a whole '
          'number of steps the values are exactly the arithmetic progression ending at max; no value is ever beyond max; the direction '
          'sums to 1 and its biased component is eta times the rest; infinite bias is pure noise. Kernel-evaluated correspondence on '
          'decimal-grid specs and on every file written by real generate-input invocations (read back with read_input_json), incl. '
          'sequences sharing (bias, eta) in one process; one file per bias ratio, sizes x rates and nothing else.'),
    design_ref='DESIGN.md section 5 C19',
    note=TB + 'Float representation of decimals is compared to the exact rational to 1e-12; file naming/JSON assembly checked in Python.',
    technique='Coq theorems over Q (floor/progression, bias direction) + kernel-evaluated correspondence through the CLI')

CHECKS['C15'] = dict(
    category='proof',
    text=('Unbounded Coq theorems: every reported count (n_trials, n_fail, in-codespace count, per-sector flagged bits, per-sector trial '
          'count) depends only on the multiset of trials (invariant under any permutation); merging files, splitting an entry, and '
          'reordering files leave the pool of each key unchanged / permuted; only entries with the same key are pooled; p_est in [0,1], '
          's^2 (n+1) = p(1-p); the word-error formula over R. Kernel-evaluated: counts of the real Analysis on random splits over '
          'json/gz/zip/merged/nested containers and path lists equal the model counts on the pooled multiset; float columns (p_est, p_se, '
          'word and single-qubit rates each with its own standard error) against closed forms to 1e-12.'),
    design_ref='DESIGN.md section 5 C15',
    note=TB + 'pandas groupby / file discovery are exercised, not modelled; Reals axioms for the word-error theorem.',
    technique='Coq theorems (counts are permutation-invariant monoid homomorphisms) + kernel-evaluated count correspondence')

CHECKS['C12'] = dict(
    category='proof',
    text=('Unbounded Coq theorems on the state-machine model of BatchSimulation._run with atomic checkpoints (any key/trial types, any '
          'generator, any save schedule, any stop point, specifications that grow): a completed run leaves exactly T trials for every '
          'simulation, each list being the adopted one extended; a stopped run leaves on disk the previous file or the memory state at a '
          'save point, always a prefix-extension of the previous file and never beyond the target; only entries with equal inputs are '
          'adopted; the pre-fix truncating write is refuted. Kernel-evaluated correspondence: per-simulation trial counts on disk after '
          'every injected stop (KeyboardInterrupt / kill in a trial, inside a save, after b bytes of a checkpoint write, plain and gzip) '
          'belong to the model\'s reachable set, and equal the model after completion; prefix preservation checked on the real lists.'),
    design_ref='DESIGN.md section 5 C12',
    note=TB + 'Assumes the file system renames atomically. Stops are injected in a child process by patching run_once/save_json/the file object.',
    technique='Coq theorems (run/checkpoint/restart state machine, all histories) + kernel-evaluated correspondence under crash injection')

CHECKS['C11'] = dict(
    category='proof',
    text=('Unbounded Coq theorems: for every decoder and error the trial record satisfies all four relations and success equals the '
          'C04 verdict on error+correction; for any interleaving of run(k) calls all result lists have length n_runs = sum k, the state '
          'does not depend on the interleaving, n_fail + n_success = n_runs; k trials on n qubits consume exactly k*n variates and runs '
          'compose on the stream (reproducibility from the seed). Kernel-evaluated: every recorded trial of the real run_once on six '
          'setups against the model; bookkeeping of DirectSimulation. PARTIAL: calibration (unbiasedness) is a 5-sigma statistical test '
          'of the seeded frequency against the exact failure probability from full 4^n enumeration through the real decoder with a '
          'hand-built channel; the noise-model object is reused across codes.'),
    design_ref='DESIGN.md section 5 C11',
    note=TB + 'NumPy bit generator and third-party decoders exercised, not modelled; unseeded default generator (rng=None) not covered.',
    technique='Coq theorems (trial record relations, bookkeeping state machine, stream discipline) + kernel-evaluated trial correspondence; calibration statistical')

CHECKS['C10'] = dict(
    category='proof',
    text=('Unbounded Coq theorems on the automaton (signs, correction): if flipping an edge toggles exactly the faces anticommuting with '
          'Z on that edge, then after every finite sequence of flips the tracked signs equal the face syndrome of error + correction; the '
          'correction is Z-only; an edge flipped twice is removed; no excitation left implies a clean face syndrome; the pre-fix assignment '
          'variant is refuted. Kernel-evaluated: the geometry hypothesis for every edge of every lattice in the grid (the faces the real '
          'flip_edge toggles vs the dumped parity-check matrix), and full decode traces (every flip, the signs after every sweep, the '
          'returned correction) replayed by the model. RotatedToric3D geometry is a listed known finding (D3).'),
    design_ref='DESIGN.md section 5 C10',
    note=TB + 'Traces are recorded by wrapping flip_edge/sweep_move from outside; the sweep RULE (which edge is chosen) is not modelled and need not be.',
    technique='Coq theorem (invariant of the flip automaton for all flip sequences) + kernel-evaluated geometry and trace replay')

CHECKS['C05'] = dict(
    category='proof',
    text=('PARTIAL. Proved in Coq (unbounded, solvers as section variables with an explicit contract): the CSS glue of matching / '
          'union-find / BP-OSD sends each sector syndrome to the right solver and writes the answers to the right halves, so with solvers '
          'that reproduce their sector syndrome the correction has exactly the measured syndrome for the syndrome of ANY Pauli error and '
          'error+correction is in the code space; trivial syndrome gives trivial correction; the [z|x] column order and swap of the non-CSS '
          'BP-OSD mode. Tested on the real libraries on every run: every decoder x declared code x sizes (incl. non-cubic) x deformations '
          'x noise: constructible, every valid syndrome on tiny codes / weight<=2 and random errors elsewhere, binary length-2n output, '
          'syndrome reproduced (kernel-evaluated on recorded decodes). Known findings D3b, D5, D6 listed.'),
    design_ref='DESIGN.md section 5 C05',
    note=TB + 'PyMatching, ldpc BP+OSD and the union-find clustering/peeling code (uf_support.py) are NOT modelled: their contract is tested, not proved.',
    technique='Coq theorems on the decoder glue (oracle solvers) + kernel-evaluated syndrome check of recorded decodes; solver contracts tested')
CHECKS['C06'] = dict(
    category='proof',
    text=('PARTIAL. Proved in Coq: the wrapper model keeps no state that feeds back into its answer (history independence for any pure '
          'solvers); the stale-buffer variant (BP-OSD wrapper before the fix) is refuted by a 2-call witness. Decided on the implementation '
          'by a differential run: all ordered pairs of valid syndromes on tiny codes (zero and sector-wise-zero included) and random '
          'histories on one decoder object vs a fresh object, for 17 decoder setups incl. BP-OSD with channel_update and deformed codes; '
          'caller syndrome arrays (uint8/int32/int64) and cached noise tables compared before/after.'),
    design_ref='DESIGN.md section 5 C06',
    note=TB + 'Statefulness of PyMatching / ldpc objects is exactly what the differential run measures; not modelled. Randomised sweep decoders: validity only.',
    technique='Coq theorem on the decoder-object state machine + differential history test against fresh objects')
CHECKS['C09'] = dict(
    category='proof',
    text=('PARTIAL. Proved in Coq: soundness of the optimality checker (an accepted correction is maximum-likelihood = minimum total LLR '
          'weight among ALL 2^n corrections of its sector, up to a 1e-6 slack); weights decrease with the flip marginal; any correction with '
          'the syndrome of e whose sectors are no heavier than those of e succeeds when 2 wt(e) < d (so a minimum-weight solver corrects '
          'up to half the distance). Kernel-evaluated: the checker on every syndrome of small toric/planar/rotated-planar lattices for '
          'several noise directions, deformations, axes and rates, with exact rational odds of the stated channel. Tested: every error of '
          'weight <= (d-1)/2 through matching / union-find, every single-qubit error through the sweep-match decoders.'),
    design_ref='DESIGN.md section 5 C09',
    note=TB + 'PyMatching blossom algorithm and the union-find correction radius are not proved; distances used are those certified by C17.',
    technique='Coq theorems (verified optimality checker, half-distance correction) evaluated in the kernel on real decoder output')

CHECKS['C20'] = dict(
    category='proof',
    text=('Coq theorems: with the kitaev fallback the representation lookup is total for both pictures whenever the kitaev picture '
          'defines the type; the offered decoders are exactly those declaring support. Kernel-evaluated on tables regenerated from '
          'gui-config.json, the GUI dicts and allowed_codes on every run (finite domains): every (menu code, picture, stabilizer type the '
          'class produces on the grid) has a complete drawable entry, menu names map to distinct classes, /decoder-names equals the model. '
          'Correspondence through the Flask test client on one server object: /code-data for every menu code x deformation x picture x '
          'menu sizes (L and coprime inside the family) field by field against the library, /decode and /new-errors against the library '
          'decoder and noise model with the generator pinned.'),
    design_ref='DESIGN.md section 5 C20',
    note=TB + 'Flask, JSON serialisation and the JavaScript menu are not modelled (menu options are extracted from main.js by regex and compared). '
         'Totality of the type lookup for lattice sizes beyond the dump grid is not proved per class.',
    technique='Coq lookup/offering theorems evaluated in the kernel on regenerated config tables + field-by-field correspondence via Flask test client')

CHECKS['C16'] = dict(
    category='other',
    text=('PARTIAL, not a proof of the property. Proved in Coq: zero residual at the planted parameters; the least-squares objective is '
          'invariant under any permutation of rows; partial identifiability of (A,B,C) from three distinct scaled variables; the model of '
          'the fit-status rule flags success only for a threshold inside the data range and [0,1] with a non-degenerate confidence '
          'interval and a non-flat curve (the model is evaluated in the kernel on the entries the implementation produced and must agree '
          'with the reported fit_status). The recovery clause itself (reported threshold within 1% of the planted one, inside its own CI '
          'and the data range, flagged successful, identical for 4 file/row orders incl. lists of paths) is decided by a seeded numerical '
          'test against scipy on data placed on the ansatz.'),
    design_ref='DESIGN.md section 5 C16',
    note=TB + 'Convergence of MINPACK Levenberg-Marquardt and the Beta-bootstrap quantiles cannot be stated as theorems about this code with the '
         'tools available; they are exercised, not modelled. Reals axioms for the R theorems.',
    technique='Coq theorems about the ansatz and the fit-status rule; planted-threshold recovery by seeded numerical test (not a proof)')

NOT_APPLICABLE = {}

PENDING = ['C02', 'C03', 'C04', 'C05', 'C06', 'C07', 'C08', 'C09', 'C10', 'C11', 'C12', 'C13', 'C14', 'C15',
           'C16', 'C17', 'C18', 'C19', 'C20']


def main():
    checks = []
    for pid in sorted(CHECKS):
        c = CHECKS[pid]
        checks.append({
            'property_id': pid,
            'quick_cmd': './check %s --tier quick' % pid,
            'thorough_cmd': './check %s --tier thorough' % pid,
            'evidence_file': '/verif/evidence/%s.json' % pid,
            'replay_cmd_template': './check %s --replay {path}' % pid,
            'engine': 'coq',
            'level_claimed': {'category': c['category'], 'text': c['text'], 'design_ref': c['design_ref']},
            'level_note': c['note'],
            'technique': c['technique'],
        })
    na = [{'property_id': p, 'reason': r} for p, r in sorted(NOT_APPLICABLE.items())]
    for p in PENDING:
        if p not in CHECKS and p not in NOT_APPLICABLE:
            na.append({'property_id': p, 'reason': 'not yet claimed: check under construction (see DESIGN.md section 8 staging); '
                                                   'the technique applies and the property is planned'})
    m = {
        'version': 1,
        'setup_cmd': 'cd /verif && ./setup.sh',
        'hooks': {
            'guard': 'PANQEC_VERIF',
            'enable': 'no source hooks: drivers instrument from outside (scripted rng, patched Process/open); checks export PANQEC_VERIF=1 for uniformity',
            'baseline_off_cmd': 'cd /repo && /venv/bin/python -m pytest -ra -q -p no:cacheprovider --timeout=900 --continue-on-collection-errors',
            'source_commits': [],
            'add_only': True,
        },
        'engines': [{'name': 'coq', 'path': '/verif/coq', 'serves_properties': sorted(CHECKS),
                     'kind_free_text': 'Coq 8.16.1 development (theories/ generic theory + models, props/ property theorems) '
                                       '+ Python harness generating kernel-evaluated case files from the implementation'}],
        'checks': checks,
        'not_applicable': na,
        'notes': 'See DESIGN.md. Known genuine defects are listed in known_findings.json.',
    }
    with open(os.path.join(ROOT, 'MANIFEST.json'), 'w') as f:
        json.dump(m, f, indent=1)
    print('wrote MANIFEST.json with %d checks' % len(checks))


if __name__ == '__main__':
    main()
