#!/bin/bash
# usage: seedrun.sh <seed dir containing patch.diff> <Cxx> [<Cyy> ...]   -- applies the change to /repo, runs quick checks, reverts
set -u
D=$1; shift
cd /repo || exit 2
if [ -n "$(git status --porcelain --untracked-files=no)" ]; then echo "/repo not clean"; exit 2; fi
git apply "$D/patch.diff" || { echo "patch does not apply"; exit 2; }
rm -rf /verif/work/evidence.bak; cp -r /verif/evidence /verif/work/evidence.bak
trap 'git -C /repo checkout -- . ; git -C /repo clean -fdq panqec >/dev/null 2>&1; rm -rf /verif/evidence; mv /verif/work/evidence.bak /verif/evidence' EXIT
cd /verif
for c in "$@"; do
  echo "== $c on $(basename $D)"
  ./check $c --tier ${TIER:-quick} 2>/dev/null | grep -E "^(VIOLATION|KNOWN-FINDING|OK|FAIL)" | head -8
done
