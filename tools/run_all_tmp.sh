#!/bin/bash
# like run_all.sh but evidence goes to work/ev_tmp (exploratory runs that must not touch the committed evidence)
cd /verif
for c in "$@"; do
  VERIF_EVIDENCE_DIR=/verif/work/ev_tmp VERIF_REPLAY_DIR=/verif/work/replays_tmp ./check $c --tier ${TIER:-quick} 2>/dev/null | grep -E "^(VIOLATION|KNOWN-FINDING|OK|FAIL)" | head -5 | cut -c1-220
done
