#!/bin/bash
# usage: confirm_seed.sh <dir with patch.diff demo.py> <name>
# Confirms a seeded change in a scratch worktree: demo passes without, fails with, baseline tests unchanged.
set -u
SRC=$1; NAME=$2
WT=/tmp/confirm/$NAME
mkdir -p /tmp/confirm /verif/work/confirm
rm -rf $WT; git -C /repo worktree prune
git -C /repo worktree add --detach $WT HEAD >/dev/null 2>&1 || { echo "worktree failed"; exit 2; }
export PYTHONPATH=$WT PANQEC_DIR=/tmp/confirm/$NAME.pd PYTHONHASHSEED=0 MPLBACKEND=Agg
mkdir -p $PANQEC_DIR
cd $WT
timeout 600 /venv/bin/python $SRC/demo.py >/tmp/confirm/$NAME.demo0.log 2>&1; D0=$?
git apply $SRC/patch.diff; AP=$?
timeout 600 /venv/bin/python $SRC/demo.py >/tmp/confirm/$NAME.demo1.log 2>&1; D1=$?
timeout 3000 /venv/bin/python -m pytest -ra -q -p no:cacheprovider --timeout=900 --continue-on-collection-errors --junitxml=/tmp/confirm/$NAME.junit.xml >/tmp/confirm/$NAME.pytest.log 2>&1
SUMMARY=$(tail -1 /tmp/confirm/$NAME.pytest.log)
/venv/bin/python - <<PY
import json, xml.etree.ElementTree as ET
base=set(json.load(open('/root/.vp/BASELINE.json'))['stable_pass'])
t=ET.parse('/tmp/confirm/$NAME.junit.xml')
passed=set()
for tc in t.iter('testcase'):
    if not any(ch.tag in ('failure','error','skipped') for ch in tc):
        passed.add(tc.get('classname')+'::'+tc.get('name'))
missing=sorted(base-passed)
res={'name':'$NAME','apply_rc':$AP,'demo_without':$D0,'demo_with':$D1,'pytest_summary':'''$SUMMARY''','baseline_missing':missing[:10],'n_baseline_missing':len(missing),
     'confirmed': ($AP==0 and $D0==0 and $D1!=0 and len(missing)==0)}
json.dump(res,open('/verif/work/confirm/$NAME.json','w'),indent=1)
print(json.dumps(res))
PY
cd /; git -C /repo worktree remove --force $WT; rm -rf /tmp/confirm/$NAME.pd
