#!/bin/bash
# usage: seedrun_wt.sh <seed dir containing patch.diff | revert:<commit>> <name> <Cxx> [<Cyy> ...]
# Runs the checks against a scratch worktree of /repo with the seeded change applied (VERIF_REPO override),
# so /repo itself and /verif/evidence stay untouched and several seeds can be examined at once.
set -u
D=$1; NAME=$2; shift; shift
WT=/tmp/seedwt/$NAME
mkdir -p /tmp/seedwt; rm -rf $WT $WT.ev $WT.rp; git -C /repo worktree prune
git -C /repo worktree add --detach $WT HEAD >/dev/null 2>&1 || { echo "worktree failed"; exit 2; }
trap 'cd /; git -C /repo worktree remove --force $WT >/dev/null 2>&1; rm -rf $WT.ev' EXIT
case "$D" in
  revert:*) git -C $WT revert --no-commit ${D#revert:} >/dev/null 2>&1 || { echo "revert failed"; exit 2; } ;;
  *) git -C $WT apply "$D/patch.diff" || { echo "patch does not apply"; exit 2; } ;;
esac
cd /verif
for c in "$@"; do
  echo "== $c on $NAME"
  VERIF_REPO=$WT VERIF_EVIDENCE_DIR=$WT.ev VERIF_REPLAY_DIR=/verif/work/seed_replays/$NAME ./check $c --tier ${TIER:-quick} 2>/dev/null | grep -E "^(VIOLATION|KNOWN-FINDING|OK|FAIL)" | head -6 | cut -c1-300
done
