#!/bin/bash
# Offline build of the Coq development (full .vo build) from files on disk only.
cd "$(dirname "$0")"
exec /venv/bin/python -c "
import sys; sys.path.insert(0, 'harness')
import common
ok, out = common.coq_build(timeout=3000)
print(out[-3000:])
sys.exit(0 if ok else 1)
"
