"""C12 - interrupted batch runs resume without losing or duplicating trials."""
import json
import os
import subprocess

from common import PY, ROOT, driver_env, coqc_many, eval_results

HDR = ('From Coq Require Import Arith List Bool.\nImport ListNotations.\nFrom PQ Require Import Resume.\nLocal Open Scope nat_scope.\n')


def keys_of(args):
    return [(s, str(d.get('error_type')) + ('+weights' if d.get('weights') is not None else ''), r) for s in args['sizes'] for d in args.get('decs', [{}]) for r in args['rates']]


def run(rep, work, tier, seed, only=None):
    rep.rule = ('one case = one chain of batch runs on one results file (plain or gzip): a run stopped by KeyboardInterrupt in the j-th '
                'trial, a kill in the j-th trial, KeyboardInterrupt inside a save, a kill after b bytes of a checkpoint write (b in '
                '{0,1,40,200,beyond end, after the write}), a kill right after a save; then restarts with the same or a grown '
                'specification and non-decreasing targets, save frequencies 1-3. non-trivial = chain contains a stop')
    rep.trusted += ['drivers/c12_child.py injects the stops by patching run_once / save_json / the file object inside a child process',
                    'file system: a rename is atomic, a write is not']
    out = os.path.join(work, 'c12.json')
    r = subprocess.run([PY, os.path.join(ROOT, 'drivers', 'c12_resume.py'), out, tier, str(seed)],
                       env=driver_env(work), capture_output=True, text=True)
    if r.returncode != 0:
        raise RuntimeError('c12 driver failed: ' + r.stderr[-3000:])
    data = json.load(open(out))
    lines = [HDR]
    todo = []
    for sc in data:
        allkeys = []
        for st in sc['steps']:
            for k in keys_of(st['args']):
                if k not in allkeys:
                    allkeys.append(k)
        kid = {k: i for i, k in enumerate(allkeys)}
        desc = {'gzip': sc['gz'], 'chain': [dict(st['args']['event'], target=st['args']['target'], save_freq=st['args']['save_freq'],
                                                 sizes=st['args']['sizes'], rates=st['args']['rates'], decoder_parameter_sets=st['args'].get('decs', [{}])) for st in sc['steps']]}
        stopped = any(st['args']['event']['kind'] != 'none' for st in sc['steps'])
        rep.case(json.dumps(desc, sort_keys=True), stopped, sample=desc if len(rep.samples) < 4 else None)
        for st in sc['steps']:
            rep.count('event:' + st['args']['event']['kind'])
        for si, st in enumerate(sc['steps']):
            a = st['args']
            ev = a['event']
            key = {'site': 'BatchSimulation', 'event': ev['kind'], 'gzip': sc['gz']}
            ctx = {'chain': desc, 'step': si}
            exp_rc = 9 if ev['kind'].startswith('kill') else 0
            # a kill point that is never reached (fewer trials/saves were needed than its position) lets the run finish normally:
            # os._exit(9) cannot return 0, so exit status 0 means the run completed and it is judged as a complete run
            if ev.get('resume_in_process'):
                ev = {'kind': 'none'}      # interrupted and restarted within one process: judged as a run that completed
                st = dict(st, executed=None)
            unreached = ev['kind'].startswith('kill') and st['rc'] == 0
            if unreached:
                ev = {'kind': 'none'}
                rep.count('kill-point-not-reached')
            elif st['rc'] != exp_rc:
                rep.violation(key, 'step %d of chain %s: the run exited %s (%s)' % (si, desc, st['rc'], st['stderr'].strip().split('\n')[-1] if st['stderr'] else ''),
                              dict(ctx, stderr=st['stderr']))
                break
            if isinstance(st['after'], str) and st['after'].startswith('unreadable'):
                rep.violation(key, 'step %d of chain %s: results file is %s after the stop' % (si, desc, st['after']), ctx)
                break
            before = [] if isinstance(st['before'], str) else st['before']
            after = [] if isinstance(st['after'], str) else st['after']
            spec = keys_of(a)
            probs = []
            bmap = {(e['size'], e.get('dec', 'None'), e['rate']): e for e in before}
            amap = {}
            for e in after:
                k = (e['size'], e.get('dec', 'None'), e['rate'])
                if k in amap:
                    probs.append('two entries for the same simulation %s' % (k,))
                amap[k] = e
                if len(set(e['lens'])) != 1 or e['lens'][0] != e['n_runs']:
                    probs.append('simulation %s has result lists of lengths %s and n_runs=%d' % (k, e['lens'], e['n_runs']))
                if k not in spec and after != before:
                    probs.append('entry %s does not belong to the specification' % (k,))
                if k in bmap and after != before:
                    b = bmap[k]
                    n = b['lens'][0]
                    if e['eff'][:n] != b['eff'] or e['succ'][:n] != b['succ'] or e['cs'][:n] != b['cs']:
                        probs.append('simulation %s: the %d trials of the last completed save are not kept unchanged as a prefix' % (k, n))
            # a run that completed must have EXECUTED the trials every simulation was missing: a simulation that takes over the saved
            # trials of another one (or counts trials twice) executes fewer
            if ev['kind'] == 'none' and st.get('executed') is not None and not probs:
                need = sum(max(0, a['target'] - (bmap[k]['lens'][0] if k in bmap else 0)) for k in spec)
                if st['executed'] != need:
                    probs.append('the run executed %d trials, but the simulations of the specification were missing %d (saved before the run: %s)'
                                 % (st['executed'], need, {str(k): bmap[k]['lens'][0] for k in bmap}))
            if probs:
                rep.violation(key, 'step %d of chain %s: %s' % (si, desc, '; '.join(probs[:2])), dict(ctx, problems=probs))
                break
            dlit = '[' + '; '.join('(%d, %d)' % (kid[(e['size'], e.get('dec', 'None'), e['rate'])], e['lens'][0]) for e in before) + ']'
            slit = '[' + '; '.join(str(kid[k]) for k in spec) + ']'
            obs = '[' + '; '.join(str(amap[k]['lens'][0] if k in amap else 0) for k in spec) + ']'
            fn = 'complete_ok' if ev['kind'] == 'none' else 'stop_ok'
            lines.append('Eval vm_compute in %s %s %s %d %d %s.\n' % (fn, slit, dlit, a['target'], a['save_freq'], obs))
            todo.append((sc, si, desc, spec, before, after, fn))
    f = os.path.join(work, 'c12_cases.v')
    open(f, 'w').write(''.join(lines))
    rc, o, e, dt = coqc_many([f])[f]
    vals = eval_results(o)
    if rc != 0 or len(vals) != len(todo):
        raise RuntimeError('c12 cases did not evaluate: ' + (o + e)[-2000:])
    for (sc, si, desc, spec, before, after, fn), v in zip(todo, vals):
        ok = v.startswith('true')
        rep.oblige(1, 1 if ok else 0)
        rep.traces += 1
        if ok:
            continue
        a = sc['steps'][si]['args']
        amap = {(e['size'], e.get('dec', 'None'), e['rate']): e['lens'][0] for e in after}
        bmap = {(e['size'], e.get('dec', 'None'), e['rate']): e['lens'][0] for e in before}
        obs = {str(k): amap.get(k, 0) for k in spec}
        if fn == 'complete_ok':
            what = ('after the run completed the simulations have %s trials, requested %d each (on disk before the run: %s)'
                    % (obs, a['target'], {str(k): v_ for k, v_ in bmap.items()}))
        else:
            what = ('after the stop the file holds %s trials; this is neither the previous file (%s) nor the state at a save point of the run'
                    % (obs, {str(k): v_ for k, v_ in bmap.items()}))
        rep.violation({'site': 'BatchSimulation', 'event': a['event']['kind'], 'gzip': sc['gz']},
                      'step %d of chain %s: %s' % (si, desc, what), {'chain': desc, 'step': si, 'observed': obs, 'before': {str(k): v_ for k, v_ in bmap.items()}})


def replay(path, work):
    print(open(path).read()[:3000])
    return 1
