"""C13 - input specifications expand to exactly the requested simulations."""
import json
import os
import subprocess

from common import PY, ROOT, driver_env, coqc_many, eval_results, CASE_HEADER


def jd(x):
    return json.dumps(x, sort_keys=True)


def run(rep, work, tier, seed, only=None):
    rep.rule = ('one case = one random specification (single ranges dict / list of ranges / explicit runs; 1..5 values per axis; '
                'list or dict parameter forms; every decoder with its allowed codes) passed through read_input_dict; non-trivial = more '
                'than one simulation. Plus one case per registry entry and per recorded-inputs round trip')
    rep.trusted += ['drivers/c13_specs.py: canonical form of a requested parameter set = params of the object built directly from it']
    out = os.path.join(work, 'c13.json')
    r = subprocess.run([PY, os.path.join(ROOT, 'drivers', 'c13_specs.py'), out, tier, str(seed)],
                       env=driver_env(work), capture_output=True, text=True)
    if r.returncode != 0:
        raise RuntimeError('c13 driver failed: ' + r.stderr[-3000:])
    data = json.load(open(out))
    lines = [CASE_HEADER, 'From PQ Require Import Spec.\n']
    # registries, as kernel-checked string equalities on the regenerated table
    reg = data['registry']
    lines.append('Eval vm_compute in forallb (fun p => String.eqb (fst p) (snd p)) [%s].\n'
                 % '; '.join('("%s", "%s")' % (a, b) for a, b, _ in reg))
    for a, b, kind in reg:
        rep.case(('registry', kind, a), True)
        rep.count('registry')
        if a != b:
            rep.violation({'site': 'registry', 'name': a}, "%s['%s'] resolves to class %s" % (kind, a, b), {'registry': kind, 'name': a, 'class': b})
    todo = []
    for i, s in enumerate(data['specs']):
        nsim = len(s.get('sims', []))
        rep.case(('spec', jd(s['spec'])), nsim > 1, sample={'kind': s['kind'], 'n_simulations': nsim, 'spec': s['spec']} if len(rep.samples) < 3 else None)
        rep.count('spec:' + s['kind'])
        key = {'site': 'read_input_dict', 'kind': s['kind']}
        if s.get('echo_bad'):
            si_, got_ = s['echo_bad'][0]
            rep.violation(dict(key, clause='parameters-echo'),
                          'simulation %d of a %s specification is built with noise direction %s, which is none of the requested %s'
                          % (si_, s['kind'], got_, s.get('requested_directions')), {'spec': s['spec'], 'simulation': si_, 'built_direction': got_})
        if 'error' in s:
            rep.violation(key, 'read_input_dict raised %s on a %s specification' % (s['error'], s['kind']), {'spec': s['spec'], 'error': s['error']})
            continue
        bad = [x for x in s['sims'] if not (x['decoder_bound_to_code'] and x['decoder_bound_to_noise'] and x['decoder_rate'] == x['rate'])]
        if bad:
            rep.violation(key, 'a simulation holds a decoder built for a different code / noise model / error rate than its own',
                          {'spec': s['spec'], 'simulation': bad[0]})
            continue
        if s['kind'] == 'runs':
            exp = s['spec']['runs']
            if len(exp) != nsim:
                rep.violation(key, 'explicit runs: %d requested, %d simulations built' % (len(exp), nsim), {'spec': s['spec']})
            else:
                for e, x in zip(exp, s['sims']):
                    if e['code']['name'] != x['code'][0] or e['error_rate'] != x['rate'] or e['decoder']['name'] != x['decoder'][0]:
                        rep.violation(key, 'explicit run %s built as %s' % (jd(e)[:200], jd(x)[:200]), {'spec': s['spec']})
                        break
            rep.oblige(1, 1)
            continue
        # index tuples of the implementation's simulations on the requested axes, part by part
        idx = []
        pos = 0
        ok = True
        dims = []
        for part in s['axes']:
            a, b, c, d = len(part['code']), len(part['noise']), len(part['decoder']), len(part['rate'])
            dims.append((a, b, c, d))
            cnt = a * b * c * d
            sub = s['sims'][pos:pos + cnt]
            pos += cnt
            cm = {jd(v): i for i, v in enumerate(part['code'])}
            nm = {jd(v): i for i, v in enumerate(part['noise'])}
            dm = {jd(v): i for i, v in enumerate(part['decoder'])}
            rm = {jd(v): i for i, v in enumerate(part['rate'])}
            tl = []
            for x in sub:
                t = (cm.get(jd(x['code'])), nm.get(jd(x['noise'])), dm.get(jd(x['decoder'])), rm.get(jd(x['rate'])))
                if None in t:
                    which = ['code', 'noise model', 'decoder', 'error rate'][t.index(None)]
                    rep.violation(key, 'a simulation was built with a %s that was not requested: %s (requested %s)'
                                  % (which, jd([x['code'], x['noise'], x['decoder'], x['rate']][t.index(None)])[:200],
                                     jd(part[['code', 'noise', 'decoder', 'rate'][t.index(None)]])[:300]),
                                  {'spec': s['spec'], 'simulation': x})
                    ok = False
                    break
                tl.append(t)
            if not ok:
                break
            idx.append(tl)
        if not ok:
            continue
        if pos != nsim:
            rep.violation(key, '%d simulations built, the Cartesian products of the requested axes have %d elements' % (nsim, pos), {'spec': s['spec']})
            continue
        if s['kind'] == 'ranges' and s.get('expanded') is not None and len(s['expanded']) != nsim:
            rep.violation(key, 'expand_input_ranges lists %d runs but %d simulations are built' % (len(s['expanded']), nsim), {'spec': s['spec']})
            continue
        todo.append((s, dims, idx))
        model = ' ++ '.join('expand_idx %d %d %d %d' % dm_ for dm_ in dims)
        impl = '[' + '; '.join('(%d, %d, %d, %d)' % t for tl in idx for t in tl) + ']'
        lines.append('Eval vm_compute in idx_eqb (%s) %s.\n' % (model, impl))
    f = os.path.join(work, 'c13_cases.v')
    open(f, 'w').write(''.join(lines).replace('Import ListNotations.\n', 'Import ListNotations.\nOpen Scope string_scope.\nOpen Scope list_scope.\n', 1))
    rc, o, e, dt = coqc_many([f])[f]
    vals = eval_results(o)
    if rc != 0 or len(vals) != len(todo) + 1:
        raise RuntimeError('c13 cases did not evaluate: ' + (o + e)[-2000:])
    rep.oblige(1, 1 if vals[0].startswith('true') else 0)
    for (s, dims, idx), v in zip(todo, vals[1:]):
        ok = v.startswith('true')
        rep.oblige(1, 1 if ok else 0)
        rep.traces += 1
        if not ok:
            flat = [t for tl in idx for t in tl]
            dup = len(flat) - len(set(flat))
            rep.violation({'site': 'read_input_dict', 'kind': s['kind']},
                          'the simulations built are not the Cartesian product of the requested axes in order (axes %s; %d duplicated '
                          'combinations; first simulations %s)' % (dims, dup, flat[:6]),
                          {'spec': s['spec'], 'built_index_tuples': flat, 'axis_lengths': dims})
    # round trip from recorded inputs
    for rt in data['roundtrips']:
        rep.case(('roundtrip', jd(rt['orig'])), True)
        rep.count('roundtrip')
        o_, b_ = rt['orig'], rt['rebuilt']
        diffs = [k for k in ('code', 'noise', 'decoder', 'rate') if jd(o_[k]) != jd(b_[k])]
        ri = rt['recorded']['code']
        if (ri.get('n'), ri.get('k'), ri.get('d')) != (b_['n'], b_['k'], b_['d']):
            diffs.append('n/k/d')
        if diffs:
            rep.violation({'site': 'recorded-inputs', 'field': diffs[0]},
                          're-instantiating from the recorded inputs gives a different %s: recorded %s, original %s, rebuilt %s'
                          % (diffs[0], jd(rt['recorded'].get({'noise': 'error_model'}.get(diffs[0], diffs[0]), ''))[:200],
                             jd(o_.get(diffs[0]))[:200], jd(b_.get(diffs[0]))[:200]),
                          {'original': o_, 'recorded_inputs': rt['recorded'], 'rebuilt': b_})


def replay(path, work):
    r = json.load(open(path))
    print(json.dumps(r, indent=1)[:3000])
    return 1
