"""C20 - visualizer backend serves every offered choice with faithful data."""
import json
import os
import subprocess

import codes_common as cc
from common import PY, ROOT, driver_env, coqc_many, eval_results


def cs(s):
    return '"' + str(s).replace('"', '""') + '"'


def run(rep, work, tier, seed, only=None):
    rep.rule = ('cases: (a) one /code-data request per (menu code, menu size L and coprime (L+1,L[,L]) inside the supported family, code '
                'deformation, picture kitaev/rotated) on ONE server object, in random order with "deformed then None" repeats; (b) one '
                '/decoder-names and /deformation-names request per menu code; (c) /decode and /new-errors per (code, offered decoder, noise '
                'option, code/noise deformation pair) with the generator pinned. non-trivial: (a) n > 1')
    rep.trusted += ['drivers/c20_gui.py (Flask test client); tables regenerated from gui-config.json, _gui.py dicts and main.js by regex']
    rep.assumptions += ['Flask routing/JSON and the JavaScript front end are not modelled; menu sizes above the tier bound are not requested '
                        '(per-class totality of the type lookup for all sizes is bounded by the dump grid)']
    out = os.path.join(work, 'c20.json')
    r = subprocess.run([PY, os.path.join(ROOT, 'drivers', 'c20_gui.py'), out, tier, str(seed)],
                       env=driver_env(work), capture_output=True, text=True)
    if r.returncode != 0:
        raise RuntimeError('c20 driver failed: ' + r.stderr[-3000:])
    data = json.load(open(out))
    t = data['tables']
    # stabilizer types each class produces: from the dump grid (all sizes/deformations there) + what the requests returned
    outdir, idx = cc.run_dump(work, 'quick', None)
    types = {}
    for it in idx:
        rec = cc.load(outdir, it['tag'])
        if rec['ok']:
            types.setdefault(rec['cls'], set()).update(rec['stab_types'])
    for x in data['code_data']:
        if x['status'] == 200:
            types.setdefault(x['cls'], set()).update(x.get('types', []))
    gui_classes = [c for _, c, _ in t['gui_codes']]
    st = '[' + '; '.join('(%s, [%s])' % (cs(cls), '; '.join('(%s, [%s])' % (cs(pic), '; '.join('(%s, %s)' % (cs(ty), 'true' if ok else 'false')
                         for ty, ok in tys.items())) for pic, tys in pics.items())) for cls, pics in t['stab'].items()) + ']'
    qt = '[' + '; '.join('(%s, [%s])' % (cs(cls), '; '.join('(%s, %s)' % (cs(pic), 'true' if ok else 'false') for pic, ok in pics.items()))
                         for cls, pics in t['qubit'].items()) + ']'
    classes = '[' + '; '.join('(%s, [%s])' % (cs(c), '; '.join(cs(ty) for ty in sorted(types.get(c, [])))) for c in gui_classes) + ']'
    decs = '[' + '; '.join('(%s, %s)' % (cs(name), 'None' if al is None else 'Some [%s]' % '; '.join(cs(a) for a in al)) for name, _, al in t['gui_decoders']) + ']'
    lines = ['From Coq Require Import List Bool String.\nImport ListNotations.\nFrom PQ Require Import Gui.\nOpen Scope string_scope.\n',
             'Definition st : stab_table := %s.\nDefinition qt : qubit_table := %s.\n' % (st, qt),
             'Definition classes : list (string * list string) := %s.\n' % classes,
             'Definition decs : list (string * option (list string)) := %s.\n' % decs,
             'Eval vm_compute in all_served st qt classes.\n',
             'Eval vm_compute in distinct [%s].\n' % '; '.join(cs(c) for c in gui_classes)]
    todo = ['served', 'distinct']
    for dn in data['decoder_names']:
        rep.case(('decoder-names', dn['menu']), True)
        rep.count('decoder-names')
        if dn['status'] != 200:
            rep.violation({'site': '/decoder-names', 'menu': dn['menu']}, '/decoder-names for %s returned HTTP %s' % (dn['menu'], dn['status']), {'menu': dn['menu']})
            continue
        lines.append('Eval vm_compute in sl_eqb (offered decs %s) [%s].\n' % (cs(dn['cls']), '; '.join(cs(n_) for n_ in dn['names'])))
        todo.append(('offered', dn))
    f = os.path.join(work, 'c20_cases.v')
    open(f, 'w').write(''.join(lines))
    rc, o, e, dt = coqc_many([f])[f]
    vals = eval_results(o)
    if rc != 0 or len(vals) != len(todo):
        raise RuntimeError('c20 cases did not evaluate: ' + (o + e)[-2000:])
    for item, v in zip(todo, vals):
        ok = v.startswith('true')
        rep.oblige(1, 1 if ok else 0)
        if ok:
            continue
        if item == 'served':
            miss = []
            for c in gui_classes:
                for pic in ('kitaev', 'rotated'):
                    for ty in sorted(types.get(c, [])):
                        e1 = t['stab'].get(c, {}).get(pic, {}).get(ty)
                        e2 = t['stab'].get(c, {}).get('kitaev', {}).get(ty)
                        if not (e1 if e1 is not None else e2):
                            miss.append((c, pic, ty))
                    if not t['qubit'].get(c, {}).get(pic):
                        miss.append((c, pic, 'qubits'))
            rep.violation({'site': 'gui-config', 'cls': miss[0][0] if miss else '?'},
                          'gui-config.json has no complete drawable entry for %s' % (miss[:4],), {'missing': miss})
        elif item == 'distinct':
            rep.violation({'site': 'gui-codes'}, 'two menu names map to the same code class: %s' % gui_classes, {'classes': gui_classes})
        else:
            dn = item[1]
            exp = [name for name, _, al in t['gui_decoders'] if al is None or dn['cls'] in al]
            rep.violation({'site': '/decoder-names', 'menu': dn['menu']},
                          'decoders offered for %s are %s; the decoders declaring support for %s are %s' % (dn['menu'], dn['names'], dn['cls'], exp),
                          {'menu': dn['menu'], 'offered': dn['names'], 'declared': exp})
    m = data['menu']
    menu_ok = m.get('rotated_toggle') and m.get('coprime_toggle') and m.get('coprime_rule') and m.get('L') == list(range(1, 13))
    rep.oblige(1, 1 if menu_ok else 0)
    if not menu_ok:
        rep.violation({'site': 'main.js'}, 'the menu transcription no longer matches main.js: %s' % m, {'menu': m}, no_input=True)
    for dn in data['deformation_names']:
        rep.case(('deformation-names', dn['menu']), True)
        if dn['status'] != 200 or dn['names'] != dn['library']:
            rep.violation({'site': '/deformation-names', 'menu': dn['menu']}, '/deformation-names for %s gives %s, library has %s'
                          % (dn['menu'], dn['names'], dn['library']), {'menu': dn['menu']})
    for x in data['code_data']:
        desc = {'menu': x['menu'], 'size': x['size'], 'deformation': x['deformation'], 'rotated_picture': x['rotated']}
        rep.case(('code-data', json.dumps(desc, sort_keys=True), len(rep.nontrivial)), True, sample=desc if len(rep.samples) < 3 else None)
        rep.count('code-data')
        key = {'site': '/code-data', 'cls': x['cls'], 'deformation': x['deformation'], 'rotated': x['rotated']}
        rep.oblige(1, 1 if (x['status'] == 200 and not x.get('problems')) else 0)
        rep.traces += 1
        if x['status'] != 200:
            rep.violation(key, '/code-data for %s returned HTTP %s' % (desc, x['status']), {'request': desc})
        elif x['problems']:
            rep.violation(key, '/code-data for %s: %s' % (desc, '; '.join(x['problems'][:2])), {'request': desc, 'problems': x['problems']})
    for x in data['decode']:
        desc = {k: x[k] for k in ('menu', 'size', 'decoder', 'code_deformation', 'noise_deformation', 'error_model')}
        if x.get('clean_lattice'):
            desc['syndrome'] = 'all-zero (clean lattice)'
            x.setdefault('status_new', 200)       # no /new-errors request goes with these
        rep.case(('decode', json.dumps(desc, sort_keys=True)), True, sample=desc if len(rep.samples) < 5 else None)
        rep.count('decode')
        key = {'site': '/decode', 'cls': x['cls'], 'decoder': x['decoder']}
        bad = x.get('exception') or x.get('status') != 200 or x.get('equal') is False or x.get('status_new') != 200 or x.get('equal_new') is False
        rep.oblige(1, 0 if bad else 1)
        if bad:
            why = x.get('exception') or ('HTTP %s / %s' % (x.get('status'), x.get('status_new')) if (x.get('status') != 200 or x.get('status_new') != 200)
                                         else ('/decode differs from the library decoder' if x.get('equal') is False
                                               else '/new-errors differs from the library noise model with the same generator'))
            rep.violation(key, 'request %s: %s' % (desc, why), {'request': desc})


def replay(path, work):
    print(open(path).read()[:3000])
    return 1
