"""C16 - threshold estimation recovers a planted finite-size-scaling threshold (partial; level "other")."""
import json
import math
import os
import subprocess
from fractions import Fraction

from common import PY, ROOT, driver_env, coqc_many, eval_results

LEVEL = 'other'
RTOL = 0.01     # relative tolerance on the recovered threshold (counts are rounded to 8000 trials per point)


def qf(x):
    f = Fraction(float(x))
    return '(%d # %d)' % (f.numerator, f.denominator)


def run(rep, work, tier, seed, only=None):
    rep.rule = ('one case = one planted (p_th, nu, A, B, C) in a well-conditioned box with 3-4 distances (sets crossing d=10 included) and '
                '7-11 error rates in symmetric or asymmetric windows around p_th, counts placed on the ansatz (8000 trials per point), analysed in 4 orders: sorted files, '
                'shuffled rows over files, a list of per-distance paths, the reversed list. non-trivial: always')
    rep.trusted += ['drivers/c16_threshold.py fabricates results files on the ansatz', 'scipy curve_fit (MINPACK) and the Beta bootstrap are '
                    'exercised, not modelled']
    rep.extra['explanation'] = (
        'PARTIAL. Proved in Coq: zero residual at the planted parameters, order-independence of the least-squares objective, partial '
        'identifiability of (A,B,C), and that the fit-status rule flags success only for thresholds inside the data range with a '
        'non-degenerate CI (model of get_fit_status, tied by evaluating the model on the entries the implementation produced). Recovery of '
        'the planted threshold (within %.0f%% of its value, inside its own CI and the data range, flagged successful, identical under reordering) is a '
        'numerical test against scipy, not a theorem: convergence of Levenberg-Marquardt and bootstrap quantiles are outside the technique.' % (100 * RTOL))
    out = os.path.join(work, 'c16.json')
    r = subprocess.run([PY, os.path.join(ROOT, 'drivers', 'c16_threshold.py'), out, tier, str(seed)],
                       env=driver_env(work), capture_output=True, text=True)
    if r.returncode != 0:
        raise RuntimeError('c16 driver failed: ' + r.stderr[-3000:])
    data = json.load(open(out))
    for f in data['fit_function']:
        rep.case(('fit_function', tuple(f['args'])), True)
        rep.count('fit_function')
        if abs(f['value'] - f['expected']) > 1e-12 or abs(f['rescaled'] - f['expected_x']) > 1e-12:
            rep.violation({'site': 'fit_function'}, 'fit_function%s = %r, the documented ansatz gives %r' % (tuple(f['args']), f['value'], f['expected']),
                          {'args': f['args']})
    lines = ['From Coq Require Import QArith List Bool.\nImport ListNotations.\nFrom PQ Require Import Fss.\nLocal Open Scope Q_scope.\n']
    todo = []
    for p in data['plants']:
        desc = {k: p[k] for k in ('p_th', 'nu', 'A', 'B', 'C', 'distances', 'n_trials')}
        desc['n_rates'] = len(p['rates'])
        rep.case(json.dumps(desc, sort_keys=True), True, sample=desc if len(rep.samples) < 4 else None)
        rep.count('planted')
        key = {'site': 'threshold', 'distances': '-'.join(map(str, p['distances']))}
        base = None
        for o in p['orders']:
            rep.evaluations += 1
            rep.nontrivial.add(json.dumps(desc, sort_keys=True) + o['order'])
            if 'error' in o:
                rep.violation(dict(key, order=o['order']), 'analysis of planted data %s (%s) raised %s' % (desc, o['order'], o['error']),
                              {'planted': desc, 'order': o['order'], 'trace': o.get('trace')})
                continue
            probs = []
            TOL = RTOL * p['p_th']
            if o.get('n_rows') != 1 or o.get('p_th_fss') is None or math.isnan(o['p_th_fss']):
                probs.append('no threshold row / NaN threshold')
            else:
                # a shallow curve (small nu, small B) is not expected back to 1 %: there the planted value must lie in the reported
                # confidence interval (checked below), the fit must be flagged successful and must not depend on the order
                if abs(o['p_th_fss'] - p['p_th']) > TOL and not p.get('shallow'):
                    probs.append('reported threshold %.5f, planted %.5f' % (o['p_th_fss'], p['p_th']))
                if not (o['p_th_fss_left'] <= o['p_th_fss'] <= o['p_th_fss_right']):
                    probs.append('threshold %.5f outside its own confidence interval [%.5f, %.5f]' % (o['p_th_fss'], o['p_th_fss_left'], o['p_th_fss_right']))
                if not (o['p_th_fss_left'] - TOL <= p['p_th'] <= o['p_th_fss_right'] + TOL):
                    probs.append('planted threshold %.5f far outside the reported confidence interval [%.5f, %.5f]' % (p['p_th'], o['p_th_fss_left'], o['p_th_fss_right']))
                if not (min(p['rates']) <= o['p_th_fss'] <= max(p['rates'])):
                    probs.append('threshold %.5f outside the data range' % o['p_th_fss'])
                if o['fit_status'] != 'success':
                    probs.append('fit flagged %r' % o['fit_status'])
                if o.get('n_points') != len(p['distances']) * len(p['rates']):
                    probs.append('%s data points analysed, %d supplied' % (o.get('n_points'), len(p['distances']) * len(p['rates'])))
                if base is None:
                    base = o
                elif abs(o['p_th_fss'] - base['p_th_fss']) > 1e-9 or abs(o['p_th_fss_left'] - base['p_th_fss_left']) > 1e-9 \
                        or abs(o['p_th_fss_right'] - base['p_th_fss_right']) > 1e-9:
                    probs.append('result depends on the order of files/rows: %.6f [%.6f, %.6f] for order %s vs %.6f [%.6f, %.6f] for order %s'
                                 % (o['p_th_fss'], o['p_th_fss_left'], o['p_th_fss_right'], o['order'], base['p_th_fss'], base['p_th_fss_left'],
                                    base['p_th_fss_right'], base['order']))
                # the model of the decision rule on the entry the implementation produced
                fp = o['fss_params']
                lines.append('Eval vm_compute in Bool.eqb (fit_success (Fit (Some (%s, %s, %s, %s, %s)) (Some %s) (Some %s) (Some %s) (Some %s) %s %s)) %s.\n' % (
                    qf(fp[0]), qf(fp[1]), qf(fp[2]), qf(fp[3]), qf(fp[4]), qf(o['p_th_fss']), qf(o['p_th_fss_left']), qf(o['p_th_fss_right']),
                    qf(o['p_th_fss_se']), qf(o['p_left']), qf(o['p_right']), 'true' if o['fit_status'] == 'success' else 'false'))
                todo.append((p, o, desc))
            if probs:
                rep.violation(dict(key, order=o['order']), 'planted %s, order %s: %s' % (desc, o['order'], '; '.join(probs[:2])),
                              {'planted': desc, 'order': o['order'], 'reported': {k: v for k, v in o.items() if k != 'trace'}, 'problems': probs})
    f = os.path.join(work, 'c16_cases.v')
    open(f, 'w').write(''.join(lines))
    rc, o_, e, dt = coqc_many([f])[f]
    vals = eval_results(o_)
    if rc != 0 or len(vals) != len(todo):
        raise RuntimeError('c16 cases did not evaluate: ' + (o_ + e)[-2000:])
    for (p, o, desc), v in zip(todo, vals):
        if not v.startswith('true'):
            rep.violation({'site': 'get_fit_status'}, 'planted %s, order %s: fit_status is %r but the decision-rule model says otherwise for the '
                          'reported entry' % (desc, o['order'], o['fit_status']), {'planted': desc, 'reported': o})


def replay(path, work):
    print(open(path).read()[:3000])
    return 1
