"""C17 - the reported distance d is the true code distance."""
import itertools
import json
import math
import os
import subprocess

import codegen
import codes_common as cc
import gf2
from common import PY, ROOT, driver_env, log
from props.c08 import masks

COST_CAP = {'quick': 8.0, 'thorough': 150.0}


def leaves(n, d, css):
    if css:
        return 2 * sum(math.comb(n, w) for w in range(d))
    return sum(math.comb(n, w) * 3 ** w for w in range(d))


def est(rec):
    css = rows_css(rec)
    if css:   # incremental-syndrome search (DistanceFast.v)
        return 4.5e-6 * leaves(rec['n'], rec['d'], True) * max(1.0, len(rec['H']) / 64.0) + 0.05
    return 1.2e-6 * leaves(rec['n'], rec['d'], False) * (len(rec['H']) + 2 * rec['k']) * max(1.0, rec['n'] / 50.0) + 0.05


def rows_css(rec):
    return all(not (r['x'] and r['z']) for r in rec['H'])


def wt(r):
    return len(set(r['x']) | set(r['z']))


def witness(rec):
    rows = rec['lx'] + rec['lz']
    cands = [r for r in rows if wt(r) == rec['d']]
    return cands[0] if cands else None


def true_distance_search(rec, limit):
    """python evaluator: a logical operator of weight < reported d, if the search space is affordable"""
    n, d = rec['n'], rec['d']
    H = [codegen.bsf_int(r, n) for r in rec['H']]
    L = [codegen.bsf_int(r, n) for r in rec['lx'] + rec['lz']]
    css = rows_css(rec)
    if leaves(n, d, css) > limit:
        return None
    def is_log(e):
        return all(gf2.sp(h, e, n) == 0 for h in H) and any(gf2.sp(l, e, n) for l in L)
    for w in range(1, d):
        for supp in itertools.combinations(range(n), w):
            if css:
                ex = gf2.rows_to_int(supp)
                for e in (ex, ex << n):
                    if is_log(e):
                        return codegen.int_to_row(e, n)
            else:
                for ps in itertools.product((1, 2, 3), repeat=w):
                    e = 0
                    for q, p in zip(supp, ps):
                        if p & 1:
                            e |= 1 << q
                        if p & 2:
                            e |= 1 << (n + q)
                    if is_log(e):
                        return codegen.int_to_row(e, n)
    return None


def _ilp_task(t):
    n, H, L, d, tl = t
    import ilp_distance
    try:
        return ilp_distance.low_weight_logical(n, [(r['x'], r['z']) for r in H], [(r['x'], r['z']) for r in L], d, tl)
    except Exception:
        return None


def run(rep, work, tier, seed, only=None):
    rep.rule = ('one case = one (class, size[, deformation, axis]) instance with its reported d; undeformed instances get the '
                'kernel-evaluated exhaustive search below d (all 4^n operators, via the proved CSS reduction where rows are '
                'pure-type) when the estimated cost is within the tier cap; deformed instances are tied to the undeformed one by '
                'the image check + theorem. non-trivial = d >= 2')
    rep.trusted += ['drivers/dump_codes.py, harness/codegen.py (Python); cost estimator only selects instances']
    outdir, idx = cc.run_dump(work, tier, only, extra='c17')
    recs = {it['tag']: cc.load(outdir, it['tag']) for it in idx}
    und, dfm, skipped = [], [], []
    for tag, rec in recs.items():
        if not rec['ok']:
            continue
        key = cc.inst_key(rec)
        k = min(len(rec['lx']), len(rec['lz']))
        if k == 0:
            continue
        # reported d must be what the class documents: min weight of the listed logicals is an upper bound witness
        if rec['deformation'] is None:
            if est(rec) <= COST_CAP[tier]:
                und.append(rec)
            else:
                skipped.append(tag)
        else:
            dfm.append(rec)
    rep.extra['undeformed_instances_too_costly_for_exhaustive_search_this_tier'] = skipped
    cc.report_cross_class(rep, outdir, ('d',))
    certified = set()

    def body_u(rec, uid):
        w = witness(rec)
        defs = codegen.code_def('c_' + uid, rec)
        fn = 'distance_ok_css_fast' if rows_css(rec) else 'distance_ok'
        wl = codegen.bsf_lit(w) if w else 'bzero'
        return defs, [('dist_' + uid, '%s c_%s %d%%nat (%s)' % (fn, uid, rec['d'], wl))]

    hdr = cc.HDR + 'From PQ Require Import Operator Deform Distance DistanceFast.\n'
    groups = cc.batch(und, est, 5.0)
    log('[C17] %d undeformed instances in %d files (%d skipped as too costly)' % (len(und), len(groups), len(skipped)))
    for rec in und:
        rep.case(cc.inst_key(rec), rec['d'] >= 2, sample={'instance': cc.inst_key(rec), 'n': rec['n'], 'd': rec['d'],
                                                           'operators_searched': leaves(rec['n'], rec['d'], rows_css(rec))})
        rep.count(rec['cls'])
    res = cc.run_obligation_files(work, 'c17u', groups, body_u, hdr=hdr, timeout=3000)
    bytag = {r['tag']: r for r in und}
    for tag, obs in res.items():
        rec = bytag[tag]
        key = cc.inst_key(rec)
        for name, v in obs.items():
            rep.oblige(1, 1 if v is True else 0)
            if v is True:
                certified.add((rec['cls'], tuple(rec['size'])))
                continue
            e = true_distance_search(rec, 3e6)
            if e is not None:
                rep.violation(dict(key, site='d', clause='lower'),
                              '%s reports d=%d but the operator X%s Z%s of weight %d commutes with all stabilizers and acts '
                              'non-trivially on the logical qubits' % (tag, rec['d'], e['x'], e['z'], wt(e)),
                              {'instance': key, 'reported_d': rec['d'], 'lighter_logical': e})
            elif witness(rec) is None:
                rep.violation(dict(key, site='d', clause='upper'),
                              '%s reports d=%d but no listed logical has that weight (weights %s)' % (
                                  tag, rec['d'], sorted(wt(r) for r in rec['lx'] + rec['lz'])),
                              {'instance': key, 'reported_d': rec['d']})
            else:
                fails = cc.eval_validity(rec)
                if fails:
                    rep.violation(dict(key, site='d', clause='table'), '%s: distance obligation fails and the table is invalid: %s'
                                  % (tag, fails[0][1]), {'instance': key, 'detail': fails[0]})
                else:
                    rep.violation(dict(key, site='d', clause='obligation'), '%s: obligation %s not true (%s)' % (tag, name, v),
                                  {'instance': key, 'broken': name}, no_input=True)
    # instances out of reach of the exhaustive search: an untrusted integer-programming search looks for a logical operator
    # lighter than the reported d; a candidate is believed only after the kernel has checked it (lighter_logical)
    from multiprocessing import Pool
    ilp_recs = [recs[t] for t in skipped if recs[t]['n'] <= (200 if tier == 'quick' else 420) and recs[t]['d'] >= 2]
    with Pool(14) as pool:
        cands = pool.map(_ilp_task, [(r['n'], r['H'], r['lx'] + r['lz'], r['d'], 20.0 if tier == 'quick' else 120.0) for r in ilp_recs])
    rep.extra['instances_searched_by_integer_programming_for_a_lighter_logical'] = len(ilp_recs)
    found = [(r, c_) for r, c_ in zip(ilp_recs, cands) if c_ is not None]
    for r in ilp_recs:
        rep.case(dict(cc.inst_key(r), search='ilp'), True)
        rep.count(r['cls'] + ':ilp')

    def body_l(rec, uid):
        w, xs, zs = rec['_cand']
        return codegen.code_def('c_' + uid, rec), [('lighter_' + uid, 'lighter_logical c_%s %d%%nat (%s)' % (uid, rec['d'], codegen.bsf_lit({'x': xs, 'z': zs})))]
    for r, c_ in found:
        r['_cand'] = c_
    if found:
        resl = cc.run_obligation_files(work, 'c17l', cc.batch([r for r, _ in found], lambda r: 0.1, 2.0), body_l, hdr=hdr)
        for r, c_ in found:
            ok = all(v is True for v in resl.get(r['tag'], {'x': False}).values())
            key = cc.inst_key(r)
            if ok:
                rep.violation(dict(key, site='d', clause='lower'),
                              '%s reports d=%d but the operator X%s Z%s of weight %d commutes with all stabilizers and acts non-trivially on '
                              'the logical qubits (found by integer programming, checked in the kernel)' % (r['tag'], r['d'], c_[1], c_[2], c_[0]),
                              {'instance': key, 'reported_d': r['d'], 'lighter_logical': {'x': c_[1], 'z': c_[2]}})
    # deformed instances: same d as the undeformed instance, table is the image (so the theorem applies)
    todo = []
    for rec in dfm:
        key = cc.inst_key(rec)
        u = recs.get('%s_%s_none_def' % (rec['cls'], 'x'.join(map(str, rec['size']))))
        if u is None or not u['ok']:
            continue
        rep.case(key, rec['d'] >= 2)
        rep.count(rec['cls'] + ':deformed')
        if rec['d'] != u['d']:
            lw = sorted(wt(r) for r in rec['lx'] + rec['lz'])
            rep.violation(dict(key, site='d', clause='deformed'),
                          '%s reports d=%d but the undeformed code has d=%d (a per-qubit relabelling preserves weights; listed '
                          'logical weights: %s)' % (rec['tag'], rec['d'], u['d'], lw),
                          {'instance': key, 'reported_d': rec['d'], 'undeformed_d': u['d']})
            continue
        if (rec['cls'], tuple(rec['size'])) in certified and rec['n'] <= 130:
            m, bad = masks(rec)
            if not bad:
                rec['_und'], rec['_masks'] = u, m
                todo.append(rec)

    def body_d(rec, uid):
        a, b, c, d = rec['_masks']
        defs = codegen.code_def('cu_' + uid, rec['_und']) + codegen.code_def('cd_' + uid, rec)
        defs += 'Definition D_%s : dmask := DM (ofl %s) (ofl %s) (ofl %s) (ofl %s).\n' % (
            uid, codegen.nlist(a), codegen.nlist(b), codegen.nlist(c), codegen.nlist(d))
        return defs, [('img_' + uid, 'deformed_ok cu_%s cd_%s D_%s' % (uid, uid, uid))]
    groups = cc.batch(todo, lambda r: 0.05 + (r['n'] / 300.0) ** 2, 3.0)
    res = cc.run_obligation_files(work, 'c17d', groups, body_d, hdr=hdr)
    bytag = {r['tag']: r for r in todo}
    for tag, obs in res.items():
        for name, v in obs.items():
            rep.oblige(1, 1 if v is True else 0)
            if v is not True:
                key = cc.inst_key(bytag[tag])
                rep.violation(dict(key, site='d', clause='deformed-image'),
                              '%s: deformed table is not the image of the undeformed table, so its distance is not tied to the '
                              'certified one' % tag, {'instance': key, 'broken': name}, no_input=True)


def replay(path, work):
    r = json.load(open(path))
    print(json.dumps(r, indent=1)[:2000])
    inst = r.get('instance')
    if inst and 'lighter_logical' in r:
        e = r['lighter_logical']
        code = ("import numpy as np, panqec.codes as pc\n"
                "size=tuple(int(x) for x in %r.split('x')); c=getattr(pc,%r)(*size)\n"
                "dn=%r; ax=%r\n"
                "if dn!='none': c.deform(dn, **({} if ax=='default' else {'deformation_axis':ax}))\n"
                "e=np.zeros(2*c.n,dtype='uint8')\n"
                "for i in %r: e[i]=1\n"
                "for i in %r: e[c.n+i]=1\n"
                "print('reported d', c.d, 'weight', int(np.count_nonzero(e[:c.n]|e[c.n:])), 'in_codespace', c.in_codespace(e), "
                "'is_logical_error', c.is_logical_error(e))\n") % (inst['size'], inst['cls'], inst['deformation'], inst['axis'], e['x'], e['z'])
        out = subprocess.run([PY, '-c', code], env=driver_env(work), capture_output=True, text=True)
        print(out.stdout, out.stderr[-800:])
    return 1
