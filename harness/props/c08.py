"""C08 - Clifford deformation is one consistent single-qubit relabelling."""
import json
import os
import subprocess

import codegen
import codes_common as cc
from common import PY, ROOT, driver_env, log, coqc_many, eval_results, CASE_HEADER

CAP = {'quick': 300, 'thorough': 800}
IMG = {'X': (1, 0), 'Y': (1, 1), 'Z': (0, 1)}


def masks(rec):
    """per-qubit dicts -> (a,b,c,d) index lists; returns (masks, problems)"""
    a, b, c, d, bad = [], [], [], [], []
    for q, (ix, iy, iz, ln) in enumerate(rec['deform_dicts']):
        if ln != 3 or sorted([ix, iy, iz]) != ['X', 'Y', 'Z']:
            bad.append((q, [ix, iy, iz]))
            continue
        (xa, xc), (zb, zd) = IMG[ix], IMG[iz]
        if xa:
            a.append(q)
        if xc:
            c.append(q)
        if zb:
            b.append(q)
        if zd:
            d.append(q)
    return (a, b, c, d), bad


def run(rep, work, tier, seed, only=None):
    rep.rule = ('cases: (a) one per deformed (class,size,name,axis) instance: dumped deformed table vs image of the dumped '
                'undeformed table under the dumped per-qubit dictionaries; (b) one per history of deform/access calls on one '
                'object; (c) one per (instance, direction, rate) for the noise side. non-trivial: (a) the relabelling moves at '
                'least one qubit, (b) history contains a deform, (c) always')
    rep.trusted += ['drivers/dump_codes.py, drivers/c08_hist.py, harness/codegen.py (Python)']
    outdir, idx = cc.run_dump(work, tier, only)
    recs = {it['tag']: cc.load(outdir, it['tag']) for it in idx}
    pairs = []
    for tag, rec in recs.items():
        if not rec['ok'] or not rec['deformation']:
            continue
        und = recs.get('%s_%s_none_def' % (rec['cls'], 'x'.join(map(str, rec['size']))))
        key = cc.inst_key(rec)
        if und is None or not und['ok']:
            continue
        rep.count(rec['cls'] + ':' + rec['deformation'])
        cc.report_hist_diff(rep, rec, key, queries=True)
        m, bad = masks(rec)
        moved = sum(1 for t in rec['deform_dicts'] if t[:3] != ['X', 'Y', 'Z'])
        rep.case(key, moved > 0, sample={'instance': key, 'n': rec['n'], 'qubits_relabelled': moved})
        if bad:
            rep.oblige(1, 0)
            rep.violation(dict(key, site='get_deformation', clause='permutation'),
                          '%s: deformation dictionary of qubit %d is not a permutation of X,Y,Z: %s' % (tag, bad[0][0], bad[0][1]),
                          {'instance': key, 'qubit': bad[0][0], 'dict': bad[0][1]})
            continue
        for q, t in enumerate(rec['deform_dicts']):
            if IMG[t[1]] != tuple((u + v) % 2 for u, v in zip(IMG[t[0]], IMG[t[2]])):
                pass  # any permutation of {X,Y,Z} is linear; nothing to report
        if rec['n'] > CAP[tier]:
            continue
        rec['_und'] = und
        rec['_masks'] = m
        pairs.append(rec)

    def body(rec, uid):
        und = rec['_und']
        a, b, c, d = rec['_masks']
        n = rec['n']
        defs = codegen.code_def('cu_' + uid, und) + codegen.code_def('cd_' + uid, rec)
        defs += 'Definition D_%s : dmask := DM (ofl %s) (ofl %s) (ofl %s) (ofl %s).\n' % (
            uid, codegen.nlist(a), codegen.nlist(b), codegen.nlist(c), codegen.nlist(d))
        obl = [('img_' + uid, 'deformed_ok cu_%s cd_%s D_%s' % (uid, uid, uid))]
        if rec['deformation'] == 'XZZX':
            axq = [q for q, ax in enumerate(rec['qubit_axes']) if ax == rec['axis_effective']]
            obl.append(('xzzx_' + uid, 'dmask_eqb D_%s (hadamard_on %d (ofl %s))' % (uid, n, codegen.nlist(axq))))
        if rec['deformation'] == 'XY':
            obl.append(('xy_' + uid, 'dmask_eqb D_%s (yz_swap_on %d (N.ones %d))' % (uid, n, n)))
        return defs, obl

    hdr = cc.HDR + 'From PQ Require Import Deform.\n'
    groups = cc.batch(pairs, lambda r: 0.05 + (r['n'] / 300.0) ** 2, 3.0)
    log('[C08] %d deformed instances in %d files' % (len(pairs), len(groups)))
    res = cc.run_obligation_files(work, 'c08', groups, body, hdr=hdr)
    bytag = {r['tag']: r for r in pairs}
    for tag, obs in res.items():
        rec = bytag[tag]
        key = cc.inst_key(rec)
        for name, v in obs.items():
            rep.oblige(1, 1 if v is True else 0)
            if v is True:
                continue
            kind = name.split('_')[0]
            what = evaluator_image(rec, kind)
            if what:
                rep.violation(dict(key, site='deform', clause=kind), '%s: %s' % (tag, what[0]),
                              {'instance': key, 'clause': kind, 'detail': what})
            else:
                rep.violation(dict(key, site='deform', clause=kind),
                              '%s: obligation %s not true (%s)' % (tag, name, v),
                              {'instance': key, 'broken': name}, no_input=True)

    # histories + noise
    hp = os.path.join(work, 'c08_hist.json')
    r = subprocess.run([PY, os.path.join(ROOT, 'drivers', 'c08_hist.py'), hp, tier, str(seed)],
                       env=driver_env(work), capture_output=True, text=True)
    if r.returncode != 0:
        raise RuntimeError('c08_hist driver failed: ' + r.stderr[-3000:])
    hist = json.load(open(hp))
    # the model's prediction (last_deform) evaluated in Coq
    lines = [CASE_HEADER, 'From PQ Require Import DeformSM.\n',
             'Definition pred (ops : list (op nat)) : nat := match last_deform nat ops None with None => 0%nat | Some d => S d end.\n']
    for h in hist['histories']:
        ops = '; '.join('Deform nat %d%%nat' % a if k == 'deform' else 'Access nat' for k, a in h['ops'])
        lines.append('Eval vm_compute in pred [%s].\n' % ops)
    hv = os.path.join(work, 'c08_hist_cases.v')
    open(hv, 'w').write(''.join(lines))
    out = coqc_many([hv])[hv]
    vals = eval_results(out[1])
    if out[0] != 0 or len(vals) != len(hist['histories']):
        raise RuntimeError('history cases did not evaluate: ' + (out[1] + out[2])[-2000:])
    for h, v in zip(hist['histories'], vals):
        pred = int(v.split('%')[0])
        has_deform = any(k == 'deform' for k, _ in h['ops'])
        rep.case(('hist', h['cls'], tuple(h['size']), json.dumps(h['ops'])), has_deform,
                 sample={'history': h['ops'], 'cls': h['cls'], 'size': h['size']} if has_deform else None)
        rep.count('history')
        rep.traces += 1
        if pred not in h['matches']:
            key = {'cls': h['cls'], 'size': 'x'.join(map(str, h['size'])), 'site': 'deform-history'}
            exp = 'undeformed' if pred == 0 else str(h['choices'][pred - 1])
            rep.violation(key, '%s%s: after history %s the object does not equal a fresh object deformed once by %s'
                          % (h['cls'], tuple(h['size']), h['ops'], exp),
                          {'instance': key, 'history': h['ops'], 'choices': h['choices'], 'expected_fresh': exp,
                           'equals_fresh_candidates': h['matches']})
    for ad in hist.get('apply_deformation', []):
        rep.case(('apply_deformation', ad['cls'], tuple(ad['size']), ad['name'], ad['axis']), ad['n_flagged'] > 0)
        rep.count('apply_deformation')
        if ad['bad']:
            key = {'cls': ad['cls'], 'size': 'x'.join(map(str, ad['size'])), 'deformation': ad['name'], 'axis': ad['axis'] or 'default',
                   'site': 'bpauli.apply_deformation'}
            rep.violation(key, '%s%s %s axis=%s: bpauli.apply_deformation with the flags given as %s does not map the undeformed %s to '
                          'the deformed one' % (ad['cls'], tuple(ad['size']), ad['name'], ad['axis'], ad['bad'][0][0], ad['bad'][0][1]),
                          {'instance': key, 'flags_form': ad['bad'][0][0], 'what': ad['bad']})
    for nz in hist['noise']:
        rep.case(('noise', nz['cls'], tuple(nz['size']), nz['name'], nz['axis'], tuple(nz['direction']), nz['p']), True)
        rep.count('noise')
        if nz['bad']:
            key = {'cls': nz['cls'], 'size': 'x'.join(map(str, nz['size'])), 'deformation': nz['name'],
                   'axis': nz['axis'] or 'default', 'site': 'noise-deformation'}
            i, s, pd, ds, pu = nz['bad'][0]
            rep.violation(key, '%s%s %s axis=%s: deformed noise gives qubit %d P(%s)=%r but undeformed model gives D(%s)=%s '
                          'probability %r' % (nz['cls'], tuple(nz['size']), nz['name'], nz['axis'], i, s, pd, s, ds, pu),
                          {'instance': key, 'direction': nz['direction'], 'p': nz['p'], 'bad': nz['bad']})


def evaluator_image(rec, kind):
    und = rec['_und']
    n = rec['n']
    out = []
    if kind == 'img':
        for name in ('H', 'lx', 'lz'):
            if len(und[name]) != len(rec[name]):
                out.append('%s has %d rows undeformed but %d rows deformed' % (name, len(und[name]), len(rec[name])))
                continue
            for i, (ru, rd) in enumerate(zip(und[name], rec[name])):
                exp_x, exp_z = set(), set()
                for q in set(ru['x']) | set(ru['z']):
                    p = 'Y' if (q in ru['x'] and q in ru['z']) else ('X' if q in ru['x'] else 'Z')
                    img = rec['deform_dicts'][q]['XYZ'.index(p)]
                    if img in 'XY':
                        exp_x.add(q)
                    if img in 'YZ':
                        exp_z.add(q)
                if exp_x != set(rd['x']) or exp_z != set(rd['z']):
                    out.append('row %d of %s of the deformed code is not the image of the undeformed row under the '
                               'per-qubit deformation dictionaries' % (i, name))
                    break
    elif kind == 'xzzx':
        for q, t in enumerate(rec['deform_dicts']):
            on_axis = rec['qubit_axes'][q] == rec['axis_effective']
            if on_axis and t[:3] != ['Z', 'Y', 'X']:
                out.append('qubit %d lies along axis %s but XZZX maps X,Y,Z to %s (not a Hadamard)' % (q, rec['axis_effective'], t[:3]))
                break
            if not on_axis and t[:3] != ['X', 'Y', 'Z']:
                out.append('qubit %d (axis %s) is off the chosen axis %s but XZZX maps X,Y,Z to %s' % (q, rec['qubit_axes'][q], rec['axis_effective'], t[:3]))
                break
    elif kind == 'xy':
        for q, t in enumerate(rec['deform_dicts']):
            if t[:3] != ['X', 'Z', 'Y']:
                out.append('qubit %d: XY maps X,Y,Z to %s (expected Y<->Z)' % (q, t[:3]))
                break
    return out


def replay(path, work):
    r = json.load(open(path))
    print(json.dumps(r, indent=1)[:3000])
    if 'history' in r:
        code = ("import panqec.codes as pc, sys\nsys.path.insert(0,%r)\nimport c08_hist as h\n"
                "k=getattr(pc,%r); size=tuple(int(x) for x in %r.split('x')); c=k(*size)\n"
                "for kind,arg in %r:\n"
                "    if kind=='deform':\n        nm,ax=%r[arg]; c.deform(nm, **({'deformation_axis':ax} if ax else {}))\n"
                "    else: h.touch(c,arg)\n"
                "print('final object snapshot hash', hash(str(h.snapshot(c))))\n"
                ) % (os.path.join(ROOT, 'drivers'), r['instance']['cls'], r['instance']['size'], r['history'], r['choices'])
        o = subprocess.run([PY, '-c', code], env=driver_env(work), capture_output=True, text=True)
        print(o.stdout, o.stderr[-800:])
    return 1
