"""C07 - Pauli noise model is the stated i.i.d. channel and is sampled faithfully."""
import json
import math
import os
import subprocess
from fractions import Fraction

from common import PY, ROOT, driver_env, coqc_many, eval_results, log

HDR = ('From Coq Require Import QArith NArith List Bool.\nImport ListNotations.\nFrom PQ Require Import Noise.\n'
       'Local Open Scope Q_scope.\n')
P4 = {'I': 'I4', 'X': 'X4', 'Y': 'Y4', 'Z': 'Z4'}


def q(f):
    return '(%d # %d)' % (f[0], f[1])


def qf(x):
    f = Fraction(float(x))
    return '(%d # %d)' % (f.numerator, f.denominator)


def dist_lit(d):
    return 'D4 %s %s %s %s' % tuple(q(x) for x in d)


def dists_lit(ds):
    return '[' + '; '.join(dist_lit(d) for d in ds) + ']'


def run_driver(work, tier, seed):
    out = os.path.join(work, 'c07.json')
    r = subprocess.run([PY, os.path.join(ROOT, 'drivers', 'c07_noise.py'), out, tier, str(seed)],
                       env=driver_env(work), capture_output=True, text=True)
    if r.returncode != 0:
        raise RuntimeError('c07 driver failed: ' + r.stderr[-3000:])
    return json.load(open(out))


def eval_files(work, prefix, items, per, render, hdr=None):
    """items -> files of `Eval vm_compute in <bool>.`; returns list of booleans aligned with items"""
    files = []
    for ci in range(0, len(items), per):
        sub = items[ci:ci + per]
        f = os.path.join(work, '%s_%03d.v' % (prefix, ci // per))
        open(f, 'w').write((hdr or HDR) + ''.join('Eval vm_compute in (%s).\n' % render(it) for it in sub))
        files.append((f, sub))
    res = coqc_many([f for f, _ in files], timeout=900)
    out = []
    for f, sub in files:
        rc, o, e, dt = res[f]
        vals = eval_results(o)
        if rc != 0 or len(vals) != len(sub):
            raise RuntimeError('%s did not evaluate: %s' % (f, (o + e)[-1500:]))
        out += [v.startswith('true') for v in vals]
    return out


def ikey(r, site):
    return {'site': site, 'cls': r['cls'], 'size': 'x'.join(map(str, r['size'])), 'deformation': r['name'] or 'none',
            'axis': r['axis'] or 'default'}


def model_dist(r, i):
    a, b, c = r['dir']
    p = Fraction(r['p16'], 16)
    base = {'I': 1 - p, 'X': p * Fraction(a, 8), 'Y': p * Fraction(b, 8), 'Z': p * Fraction(c, 8)}
    d = r['dicts'][i]
    return [base['I'], base[d[0]], base[d[1]], base[d[2]]]


def run(rep, work, tier, seed, only=None):
    rep.rule = ('cases: (a) per-qubit distributions for (class,size,deformation,axis,direction,rate) with dyadic direction a/8 and rate '
                'k/16 incl. simplex vertices/faces and p in {0,1}; the same model object is reused across codes and the same code '
                'object across models; (b) generate() driven by a scripted generator with variates on/next to the cumulative '
                'boundaries, 0 and 1-2^-30; (c) matching weights; (d) BP-OSD channel probabilities and conditional update with int, '
                'uint8 and bool corrections. non-trivial: 0 < p and not all qubits identical')
    rep.trusted += ['drivers/c07_noise.py (scripted generator; Fraction(float) is exact for the dyadic parameters used)']
    rep.assumptions += ['float rounding for non-dyadic parameters is not modelled', 'weights compared as exp(-w) to relative 1e-12; '
                        'conditional updates to absolute 2^-50']
    data = run_driver(work, tier, seed)
    # (a) distributions
    def r_d(r):
        a, b, c = r['dir']
        dd = '[' + '; '.join('DD %s %s %s' % (P4[d[0]], P4[d[1]], P4[d[2]]) for d in r['dicts']) + ']'
        return 'dists_ok (%d # 16) (%d # 8) (%d # 8) (%d # 8) %s %s' % (r['p16'], a, b, c, dd, dists_lit(r['impl']))
    for r in data['dists']:
        rep.case(('dist', r['cls'], tuple(r['size']), r['name'], r['axis'], tuple(r['dir']), r['p16'], r.get('again', False)), r['p16'] > 0,
                 sample={'cls': r['cls'], 'size': r['size'], 'deformation': r['name'], 'axis': r['axis'],
                         'direction_eighths': r['dir'], 'rate_sixteenths': r['p16']} if len(rep.samples) < 3 else None)
        rep.count('distribution')
    oks = eval_files(work, 'c07d', data['dists'], 60, r_d)
    for r, ok in zip(data['dists'], oks):
        rep.oblige(1, 1 if ok else 0)
        if ok:
            continue
        bad = None
        for i in range(r['n']):
            m = model_dist(r, i)
            im = [Fraction(*x) for x in r['impl'][i]]
            if m != im:
                bad = (i, m, im)
                break
        what = ('qubit %d has (pI,pX,pY,pZ) = %s, the stated channel permuted by %s gives %s'
                % (bad[0], [str(x) for x in bad[2]], r['dicts'][bad[0]], [str(x) for x in bad[1]])) if bad else 'distribution obligation false'
        rep.violation(ikey(r, 'probability_distribution'),
                      '%s%s deformation=%s axis=%s direction=%s/8 p=%d/16%s: %s' % (r['cls'], tuple(r['size']), r['name'], r['axis'], r['dir'], r['p16'],
                                                                                    ' (asked again after generate(), get_weights() and error_probability() on the same objects)' if r.get('again') else '', what),
                      {'instance': ikey(r, 'probability_distribution'), 'direction_eighths': r['dir'], 'rate_sixteenths': r['p16'],
                       'qubit': bad[0] if bad else None}, no_input=bad is None)
    # (b) sampling
    good = []
    for s in data['samples']:
        rep.case(('sample', s['cls'], tuple(s['size']), s['name'], s['axis'], tuple(s['dir']), s['p16'], json.dumps(s['us'])[:200]), s['p16'] > 0)
        rep.count('sample')
        n = len(s['us'])
        if s['error'] or not s['ok_shape'] or s['calls'] != n:
            rep.violation(ikey(s, 'generate'), '%s%s: generate %s' % (s['cls'], tuple(s['size']),
                          s['error'] or ('returned a non-binary / wrong-length vector' if not s['ok_shape'] else
                                         'consumed %d variates for %d qubits' % (s['calls'], n))),
                          {'instance': ikey(s, 'generate'), 'variates': s['us'], 'error': s['error']})
            continue
        good.append(s)
    def r_s(s):
        return 'sample_ok [%s] %s [%s]' % ('; '.join(q(u) for u in s['us']), dists_lit(s['dists']), '; '.join(P4[ch] for ch in s['pauli']))
    oks = eval_files(work, 'c07s', good, 80, r_s)
    for s, ok in zip(good, oks):
        rep.oblige(1, 1 if ok else 0)
        rep.traces += 1
        if ok:
            continue
        # locate the qubit
        bad = None
        for i, (u, d, ch) in enumerate(zip(s['us'], s['dists'], s['pauli'])):
            uu = Fraction(*u)
            cum = Fraction(0)
            exp = 'Z'
            for name, pr in zip('IXYZ', d):
                cum += Fraction(*pr)
                if uu < cum:
                    exp = name
                    break
            if exp != ch:
                bad = (i, str(uu), ch, exp)
                break
        rep.violation(ikey(s, 'generate'), '%s%s p=%d/16 dir=%s/8: qubit %s drew %s for variate %s, the inverse CDF of its distribution gives %s'
                      % ((s['cls'], tuple(s['size']), s['p16'], s['dir']) + ((bad[0], bad[2], bad[1], bad[3]) if bad else ('?', '?', '?', '?'))),
                      {'instance': ikey(s, 'generate'), 'variates': s['us'], 'returned': s['pauli'], 'dists': s['dists']}, no_input=bad is None)
    # (c) weights (floats)
    for w in data['weights']:
        rep.case(('weights', w['cls'], tuple(w['size']), w['name'], w['axis'], tuple(w['dir']), w['p16'], w.get('again', False)), True)
        rep.count('weights')
        for i, d in enumerate(w['dists']):
            px, py, pz = (Fraction(*d[1]), Fraction(*d[2]), Fraction(*d[3]))
            for nm, wv, m in (('weights_x', w['wx'][i], px + py), ('weights_z', w['wz'][i], pz + py)):
                eps = Fraction(1, 10 ** 20)
                odds = float((m + eps) / (1 - m + eps))
                got = math.exp(-wv) if math.isfinite(wv) else (0.0 if wv > 0 else math.inf)
                if not (abs(got - odds) <= 1e-12 * max(odds, 1e-300) or (odds > 1e18 and got > 1e18)):
                    rep.violation(ikey(w, 'get_weights'),
                                  '%s%s deformation=%s axis=%s dir=%s/8 p=%d/16: %s[%d] = %r, i.e. odds %r, but the %s-flip marginal %s gives odds %r'
                                  % (w['cls'], tuple(w['size']), w['name'], w['axis'], w['dir'], w['p16'], nm, i, wv, got, nm[-1].upper(), m, odds),
                                  {'instance': ikey(w, 'get_weights'), 'direction_eighths': w['dir'], 'rate_sixteenths': w['p16'], 'qubit': i})
                    break
            else:
                continue
            break
    # (d) BP priors
    goodb = []
    for b in data['bp']:
        rep.case(('bp', b['cls'], tuple(b['size']), b['name'], b['axis'], tuple(b['dir']), b['p16'], b['channel_update']), True)
        rep.count('bp')
        if 'error' in b:
            rep.violation(ikey(b, 'bposd'), 'BP-OSD priors: %s' % b['error'], {'instance': ikey(b, 'bposd'), 'error': b['error']})
            continue
        same = all(b['upd_zx_int'] == b['upd_zx_' + k] and b['upd_xz_int'] == b['upd_xz_' + k] for k in ('uint8', 'bool'))
        if not same:
            rep.violation(ikey(b, 'update_probabilities'),
                          '%s%s: update_probabilities depends on the dtype of the correction (int %s, uint8 %s, bool %s)'
                          % (b['cls'], tuple(b['size']), b['upd_zx_int'][:4], b['upd_zx_uint8'][:4], b['upd_zx_bool'][:4]),
                          {'instance': ikey(b, 'update_probabilities'), 'correction': b['corr'], 'direction_eighths': b['dir'],
                           'rate_sixteenths': b['p16']})
            continue
        goodb.append(b)
    def r_b(b):
        ds = dists_lit(b['dists'])
        corr = '[' + ';'.join('true' if c else 'false' for c in b['corr']) + ']'
        fin = lambda l: '[' + '; '.join(qf(v) if math.isfinite(v) else '(0#1)' for v in l) + ']'
        s = 'upd_ok %s %s %s %s' % (ds, corr, fin(b['upd_zx_int']), fin(b['upd_xz_int']))
        if not b['channel_update'] or True:
            if b['css']:
                if b['channel_update']:
                    s += ' && forallb2 Qeq_bool (snd (bp_css %s)) %s' % (ds, fin(b['chan_z']))
                else:
                    s += ' && bp_css_ok %s %s %s' % (ds, fin(b['chan_x']), fin(b['chan_z']))
            else:
                s += ' && bp_full_ok %s %s' % (ds, fin(b['chan']))
        return s
    oks = eval_files(work, 'c07b', goodb, 40, r_b)
    for b, ok in zip(goodb, oks):
        rep.oblige(1, 1 if ok else 0)
        if not ok:
            rep.violation(ikey(b, 'bposd-priors'),
                          '%s%s deformation=%s dir=%s/8 p=%d/16 channel_update=%s: BP-OSD channel probabilities / conditional update '
                          'differ from the X-/Z-flip marginals of the channel (correction %s: z->x %s, x->z %s)'
                          % (b['cls'], tuple(b['size']), b['name'], b['dir'], b['p16'], b['channel_update'], b['corr'][:6],
                             b['upd_zx_int'][:6], b['upd_xz_int'][:6]),
                          {'instance': ikey(b, 'bposd-priors'), 'correction': b['corr'], 'direction_eighths': b['dir'],
                           'rate_sixteenths': b['p16'], 'dists': b['dists'], 'upd_zx': b['upd_zx_int'], 'upd_xz': b['upd_xz_int'],
                           'chan_x': b.get('chan_x'), 'chan_z': b.get('chan_z'), 'chan': b.get('chan')})


def replay(path, work):
    print(open(path).read()[:3000])
    return 1
