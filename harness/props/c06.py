"""C06 - decoding is a pure function of the syndrome."""
import json

from props.c05 import run_driver, vkey

LEVEL = 'proof'


def run(rep, work, tier, seed, only=None):
    rep.rule = ('one case = one call history on ONE decoder object followed by a syndrome s, compared with a freshly built decoder on s: '
                'all ordered pairs (s1, s) of valid syndromes of tiny codes incl. the zero and sector-wise-zero syndromes (sampled to 120 '
                'pairs per setup in the quick tier) plus random histories of length 3-20; syndrome arrays of dtype uint8/int32/int64 '
                'compared before/after; noise-model probability tables compared before/after. 17 (decoder, code, parameters, code '
                'deformation) setups incl. BP-OSD with channel_update. non-trivial = history non-empty')
    rep.trusted += ['drivers/c05_decoders.py (mode pure)']
    rep.assumptions += ['PARTIAL: whether PyMatching / ldpc / union-find objects carry state between calls is not modelled; it is exactly what '
                        'the differential run measures. For the randomised sweep decoders only validity (binary vector, vertex syndrome '
                        'reproduced by the matching half) is compared.']
    outdir, data = run_driver(work, 'pure', tier, seed)
    for r in data:
        desc = {'decoder': r['decoder'], 'cls': r['cls'], 'size': r['size'], 'params': r['params'], 'deformation': r['deformation'],
                'direction': r['direction']}
        rep.case(json.dumps(desc, sort_keys=True), False, sample=dict(desc, histories=r.get('n_checks')) if len(rep.samples) < 4 else None)
        rep.evaluations += max(0, r.get('n_checks', 0) - 1)
        rep.count('histories:' + r['decoder'], r.get('n_checks', 0))
        for i in range(r.get('n_checks', 0)):
            rep.nontrivial.add('%s/%d' % (json.dumps(desc, sort_keys=True), i))
        rep.oblige(1, 0 if (r.get('error') or r.get('bad')) else 1)
        rep.traces += r.get('n_checks', 0)
        if r.get('error'):
            rep.violation(vkey(r, 'history', 'exception'), '%s on %s%s: %s' % (r['decoder'], r['cls'], tuple(r['size']), r['error']),
                          {'config': desc, 'error': r['error'], 'trace': r.get('trace')})
        for b in r.get('bad', [])[:3]:
            rep.violation(vkey(r, 'history', 'purity'),
                          '%s%s on %s%s (code deformation %s): after decoding the syndromes %s the answer for syndrome %s %s'
                          % (r['decoder'], r['params'] or '', r['cls'], tuple(r['size']), r['deformation'], b['history'][:-1],
                             b['history'][-1] if b['history'] else '-', b['why']),
                          {'config': desc, 'history_of_syndromes': b['history'], 'why': b['why'], 'reused_object_answer': b.get('reused'),
                           'fresh_object_answer': b.get('fresh'), 'dtype': b.get('dtype')})


def replay(path, work):
    print(open(path).read()[:3000])
    return 1
