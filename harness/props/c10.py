"""C10 - sweep decoders track the true residual syndrome."""
import json
import os
import subprocess

import codegen
import codes_common as cc
from common import PY, ROOT, driver_env, coqc_many, eval_results


def bl(v):
    return '[' + ';'.join('true' if b else 'false' for b in v) + ']'


def idx_to_bl(idx, m):
    s = set(idx)
    return bl([i in s for i in range(m)])


def run(rep, work, tier, seed, only=None):
    rep.rule = ('cases: (a) one per edge of each lattice (Toric3D, Planar3D with SweepDecoder3D; RotatedPlanar3D, RotatedToric3D with '
                'RotatedSweepDecoder3D; cubic and non-cubic sizes): the faces flip_edge toggles; (b) one per complete decode trace '
                '(every flip_edge call and the signs returned by every sweep_move): all weight-1, sampled/all weight-2 and random Z '
                'errors at 4 rates, 2-5 tie-break seeds, all 8 sweep directions for the rotated decoder. non-trivial: trace has a flip')
    rep.trusted += ['drivers/c10_sweep.py wraps flip_edge / sweep_move of the decoder objects from outside']
    outdir = os.path.join(work, 'c10')
    r = subprocess.run([PY, os.path.join(ROOT, 'drivers', 'c10_sweep.py'), outdir, tier, str(seed)],
                       env=driver_env(work), capture_output=True, text=True)
    if r.returncode != 0:
        raise RuntimeError('c10 driver failed: ' + r.stderr[-3000:])
    tags = json.load(open(os.path.join(outdir, 'C10_INDEX.json')))
    files = []
    alone = {}
    for tag in tags:
        rec = json.load(open(os.path.join(outdir, 'c10_%s.json' % tag)))
        alone[(rec['cls'], tuple(rec['size']))] = rec
        code = cc.load(outdir, tag)
        n, m = code['n'], len(code['H'])
        face = [not z for z in code['z_indices']]
        hdr = (cc.HDR + 'From PQ Require Import Sweep.\n' + codegen.code_def('c', code) + 'Definition face : list bool := %s.\n' % bl(face)
               + 'Definition tab := Eval vm_compute in model_table c face.\n')
        # geometry
        glines = [hdr]
        gsub = []
        for q, tog, vals in rec['geom']:
            rep.case(('geom', tag, q), True)
            rep.count('edge:' + rec['cls'])
            key = {'site': 'flip_edge', 'cls': rec['cls'], 'decoder': rec['decoder'], 'size': 'x'.join(map(str, rec['size']))}
            if isinstance(tog, str) or any(v not in (0, 1) for v in vals):
                rep.violation(key, '%s: flip_edge on edge %d %s' % (tag, q, tog if isinstance(tog, str) else 'left non-binary signs %s' % vals),
                              {'lattice': tag, 'edge': q, 'edge_location': code['qubits'][q]})
                continue
            glines.append('Eval vm_compute in geom_ok c face %d %s.\n' % (q, idx_to_bl(tog, m)))
            gsub.append((rec, code, q, tog, key))
        gf = os.path.join(work, 'c10g_%s.v' % tag.replace('-', '_'))
        open(gf, 'w').write(''.join(glines))
        files.append((gf, 'geom', gsub))
        # traces
        per = 120
        tr = rec['traces']
        for ci in range(0, len(tr), per):
            sub = []
            lines = [hdr]
            for ti, t in enumerate(tr[ci:ci + per]):
                nflip = sum(1 for e in t.get('events', []) if e[0] == 'F')
                rep.case(('trace', tag, tuple(t['z']), t['tiebreak_seed']), nflip > 0,
                         sample={'lattice': tag, 'decoder': rec['decoder'], 'z_error': t['z'], 'flips': nflip,
                                 'sweeps': sum(1 for e in t.get('events', []) if e[0] == 'S')} if (ti == 7 and len(rep.samples) < 5) else None)
                rep.count('trace:' + rec['decoder'])
                key = {'site': 'decode', 'cls': rec['cls'], 'decoder': rec['decoder'], 'size': 'x'.join(map(str, rec['size']))}
                if 'error' in t:
                    rep.violation(key, '%s: decoding Z error on %s raised %s' % (tag, t['z'], t['error']), {'lattice': tag, 'z_error': t['z']})
                    continue
                if not t['binary'] or not t['syndrome_untouched']:
                    rep.violation(key, '%s: decode of Z error %s %s' % (tag, t['z'], 'returned a non-binary vector' if not t['binary']
                                                                        else "modified the caller's syndrome array"), {'lattice': tag, 'z_error': t['z']})
                    continue
                comp = []
                for e in t['events']:
                    # a snapshot identical to the previous one with no flip in between checks the same equality again: drop it
                    if e[0] == 'S' and comp and comp[-1][0] == 'S' and comp[-1][1] == e[1]:
                        continue
                    comp.append(e)
                evs = '; '.join(('Flip %d' % e[1]) if e[0] == 'F' else ('Snap %s' % idx_to_bl(e[1], m)) for e in comp)
                lines.append('Eval vm_compute in trace_ok c face tab (B 0 (ofl %s)) [%s] (B (ofl %s) (ofl %s)).\n' % (
                    codegen.nlist(t['z']), evs, codegen.nlist(t['final_x']), codegen.nlist(t['final_z'])))
                sub.append((rec, code, t, key))
            f = os.path.join(work, 'c10t_%s_%03d.v' % (tag.replace('-', '_'), ci // per))
            open(f, 'w').write(''.join(lines))
            files.append((f, 'trace', sub))
    # histories: a decoder used after decoders of another lattice class of the same size must behave as when used alone
    # (its stand-alone behaviour is what the kernel-checked obligations above are about)
    for h in json.load(open(os.path.join(outdir, 'c10_hist.json'))):
        for pos, st in enumerate(h['steps']):
            rec = alone[(st['cls'], tuple(h['size']))]
            rep.case(('history', tuple(h['history']), tuple(h['size']), pos), pos > 0)
            rep.count('history-step')
            key = {'site': 'history', 'cls': st['cls'], 'decoder': h['decoder'], 'size': 'x'.join(map(str, h['size']))}
            rep.oblige(1)
            bad = None
            for (q, tog, vals), (q0, tog0, vals0) in zip(st['geom'], rec['geom']):
                if tog != tog0 or vals != vals0:
                    bad = 'flip_edge on edge %d toggles %s (stand-alone: %s)' % (q, tog, tog0)
                    break
            if bad is None:
                first = {tuple(t['z']): t for t in rec['traces'] if t['tiebreak_seed'] == 0 and len(t['z']) == 1}
                for q, cx, cz in st['decodes']:
                    t = first.get((q,))
                    if t is None:
                        continue
                    if isinstance(cx, str) or 'error' in t:
                        if isinstance(cx, str) != ('error' in t):
                            bad = 'decode of Z on edge %d: %s (stand-alone: %s)' % (q, cx, t.get('error', 'no exception'))
                            break
                        continue
                    if cx != t['final_x'] or cz != t['final_z']:
                        bad = 'decode of Z on edge %d returns Z on %s (stand-alone, same tie-break seed: Z on %s)' % (q, cz, t['final_z'])
                        break
            if bad is None:
                rep.oblige(0, 1)
            else:
                rep.violation(dict(key, clause='history'),
                              '%s %s, step %d of the history %s in one process: %s' % (st['cls'], h['size'], pos + 1, ' -> '.join(h['history']), bad),
                              {'history': h['history'], 'size': h['size'], 'decoder': h['decoder'], 'step': pos, 'what': bad})
    res = coqc_many([f for f, _, _ in files], timeout=1200)
    import gf2
    for f, kind, sub in files:
        rc, o, e, dt = res[f]
        vals = eval_results(o)
        if rc != 0 or len(vals) != len(sub):
            raise RuntimeError('c10 cases did not evaluate (%s): %s' % (f, (o + e)[-1500:]))
        for item, v in zip(sub, vals):
            ok = v.startswith('true')
            rep.oblige(1, 1 if ok else 0)
            if ok:
                continue
            if kind == 'geom':
                rec, code, q, tog, key = item
                n = code['n']
                exp = [i for i, (r_, z) in enumerate(zip(code['H'], code['z_indices'])) if (not z) and q in r_['x']]
                # does the edge have an anticommuting face across a periodic boundary (coordinates more than one unit apart)?
                qloc = code['qubits'][q]
                allc = code['qubits'] + code['stab_coords']
                lo = [min(c_[a] for c_ in allc) for a in range(len(qloc))]
                hi = [max(c_[a] for c_ in allc) for a in range(len(qloc))]
                seam = any(max(abs(a - b) for a, b in zip(qloc, code['stab_coords'][i])) > 1 for i in set(exp) | set(tog)) \
                    or any(qloc[a] - lo[a] <= 1 or hi[a] - qloc[a] <= 1 for a in range(len(qloc)))
                rep.violation(dict(key, clause='geometry', across_periodic_boundary=seam),
                              '%s: flipping edge %d at %s toggles faces %s; the face stabilizers anticommuting with Z on that edge are %s'
                              % (rec['tag'], q, code['qubits'][q], tog, exp),
                              {'lattice': rec['tag'], 'edge': q, 'edge_location': code['qubits'][q], 'toggled': tog, 'anticommuting_faces': exp})
            else:
                rec, code, t, key = item
                rep.traces += 1
                n, m = code['n'], len(code['H'])
                H = [codegen.bsf_int(r_, n) for r_ in code['H']]
                facem = [not z for z in code['z_indices']]
                err = gf2.rows_to_int([n + q for q in t['z']])
                corr = 0
                what = None
                step = 0
                for ev in t['events']:
                    if ev[0] == 'F':
                        corr ^= 1 << (n + ev[1])
                    else:
                        step += 1
                        true = [i for i in range(m) if facem[i] and gf2.sp(H[i], err ^ corr, n)]
                        if true != ev[1]:
                            what = ('after sweep step %d the decoder tracks excitations on faces %s but the face syndrome of error + '
                                    'correction so far is %s' % (step, ev[1], true))
                            break
                fin = gf2.rows_to_int(t['final_x']) | (gf2.rows_to_int(t['final_z']) << n)
                if what is None and fin != corr:
                    what = ('the returned correction (Z on %s) is not the product of the flips made (Z on %s): an edge flipped twice must be '
                            'removed' % (t['final_z'], gf2.bits(corr >> n)))
                if what is None and t['final_x']:
                    what = 'the returned correction has X components %s' % t['final_x']
                rep.violation(dict(key, clause='tracking'), '%s, Z error on %s, tie-break seed %d: %s' % (rec['tag'], t['z'], t['tiebreak_seed'], what),
                              {'lattice': rec['tag'], 'z_error': t['z'], 'tiebreak_seed': t['tiebreak_seed'], 'what': what}, no_input=what is None)


def replay(path, work):
    print(open(path).read()[:3000])
    return 1
