"""C04 - decoding success is declared iff the residual error is a stabilizer."""
import json
import os
import subprocess

import codegen
import codes_common as cc
from common import PY, ROOT, driver_env, log, NPROC

CAP = {'quick': 200, 'thorough': 420}
BRUTE = {'quick': 6, 'thorough': 8}


def obs_lit(o):
    return 'Obs (B (ofl %s) (ofl %s)) %s [%s] %s %s' % (
        codegen.nlist(o['x']), codegen.nlist(o['z']), 'true' if o['cs'] else 'false',
        ';'.join('true' if b else 'false' for b in o['le']), 'true' if o['ile'] else 'false',
        'true' if o['ok'] else 'false')


def run(rep, work, tier, seed, only=None):
    rep.rule = ('one case = one (code instance, residual error) pair with the four values the implementation reported; '
                'kinds: zero, unit, generator, logical, products of generators (x logical, x unit), random; plus, for '
                'n <= %d, every one of the 4^n operators. non-trivial = error non-zero; distinct by (instance, error)'
                % BRUTE[tier])
    rep.trusted += ['drivers/dump_codes.py, drivers/c04_errors.py, harness/codegen.py (Python)']
    rep.assumptions += ['certificate search untrusted; only check_cert decides',
                        'instances with n > %d are not given the all-errors theorem in this tier' % CAP[tier]]
    outdir, idx = cc.run_dump(work, tier, only)
    edir = os.path.join(work, 'c04')
    r = subprocess.run([PY, os.path.join(ROOT, 'drivers', 'c04_errors.py'), outdir, edir, str(seed),
                        str(BRUTE[tier]), str(CAP[tier]), '--jobs', str(NPROC)],
                       env=driver_env(work), capture_output=True, text=True)
    if r.returncode != 0:
        raise RuntimeError('c04 driver failed: ' + r.stderr[-3000:])
    recs = []
    for it in idx:
        rec = cc.load(outdir, it['tag'])
        if not rec['ok'] or rec['n'] > CAP[tier]:
            continue
        p = os.path.join(edir, it['tag'] + '.json')
        if not os.path.exists(p):
            continue
        rec['_obs'] = json.load(open(p))
        recs.append(rec)
    nbr = 0
    for rec in recs:
        key = cc.inst_key(rec)
        for o in rec['_obs']['cases']:
            rep.case((rec['tag'], tuple(o['x']), tuple(o['z'])), bool(o['x'] or o['z']),
                     sample={'instance': key, 'error_x': o['x'], 'error_z': o['z'], 'in_codespace': o['cs'],
                             'logical_errors': o['le'], 'is_success': o['ok']})
        for kind, c in rec['_obs']['kinds'].items():
            rep.count(kind, c)
        ob = rec['_obs']
        if ob.get('batch_error') or ('batch_le' in ob and ob['batch_le'] != [o['le'] for o in ob['cases']]):
            bad = next((i for i, o in enumerate(ob['cases']) if ob.get('batch_le', [None] * 10**6)[i] != o['le']), 0) \
                if 'batch_le' in ob else 0
            rep.violation(dict(key, site='logical_errors-batch'),
                          '%s: logical_errors on a 2-D stack of %d errors %s' % (
                              rec['tag'], len(ob['cases']),
                              ob.get('batch_error') or ('gives row %d = %s but the same error alone gives %s'
                                                        % (bad, ob['batch_le'][bad], ob['cases'][bad]['le']))),
                          {'instance': key, 'error': {'x': ob['cases'][bad]['x'], 'z': ob['cases'][bad]['z']},
                           'what': 'batch row differs', 'stack': [[o['x'], o['z']] for o in ob['cases']]})
        if ob.get('after_props_diff'):
            d = ob['after_props_diff'][0]
            rep.violation(dict(key, site='query-after-reading-properties'),
                          '%s: the error X%s Z%s was judged %s; after the properties of the code object (d, k, n, matrices, masks) were read '
                          'the same object judges it %s' % (rec['tag'], d['x'], d['z'], d['before'], d['after']),
                          {'instance': key, 'error': {'x': d['x'], 'z': d['z']}, 'what': 'history: query; read d, k, n, ...; query', 'detail': d})
        if ob.get('run_once_diff'):
            d = ob['run_once_diff'][0]
            rep.violation(dict(key, site='run_once'),
                          '%s: a trial whose residual error is X%s Z%s is recorded by run_once as %s; the code object says %s about that error'
                          % (rec['tag'], d['x'], d['z'], d['run_once'], d['code_object']),
                          {'instance': key, 'error': {'x': d['x'], 'z': d['z']}, 'what': 'run_once with scripted noise and zero correction', 'detail': d})
        if ob.get('form_diff'):
            d = ob['form_diff'][0]
            rep.violation(dict(key, site='argument-form'),
                          '%s: the error X%s Z%s given as %s is judged %s, the same error as a flat uint8 vector %s'
                          % (rec['tag'], d['x'], d['z'], d['form'], d['got'], d['dense']),
                          {'instance': key, 'error': {'x': d['x'], 'z': d['z']}, 'what': 'argument form: ' + d['form'], 'detail': d})
        if ob.get('used_diff'):
            d = ob['used_diff'][0]
            rep.violation(dict(key, site='deform-after-use'),
                          '%s: object queried (logical_errors/is_success) before deform() reports %s where a fresh deformed '
                          'object reports %s' % (rec['tag'], d['used_then_deformed'], d['fresh']),
                          {'instance': key, 'error': {'x': d['fresh']['x'], 'z': d['fresh']['z']},
                           'what': 'history: construct; logical_errors(0); is_success(0); deform; query', 'detail': d})
        if 'brute' in rec['_obs']:
            nb = 4 ** rec['n']
            nbr += 1
            rep.evaluations += nb
            rep.count('exhaustive_4^n', nb)
            for v in rec['_obs']['brute']['success'][:200]:
                rep.nontrivial.add('%s/b%d' % (rec['tag'], v))
    rep.extra['instances_with_full_4^n_enumeration'] = nbr
    rep.traces = sum(len(r['_obs']['cases']) for r in recs)

    def body(rec, uid):
        c, ct = 'c_' + uid, 'ct_' + uid
        cert, why = codegen.cert_def(ct, rec)
        defs = codegen.code_def(c, rec)
        obl = []
        if cert is not None:
            defs += cert
            obl.append(('cert_' + uid, 'check_cert %s %s' % (c, ct)))
        defs += 'Definition obs_%s : list obs := [\n  %s].\n' % (uid, ';\n  '.join(obs_lit(o) for o in rec['_obs']['cases']))
        obl.append(('obs_ok_' + uid, 'forallb (check_obs %s) obs_%s' % (c, uid)))
        if 'brute' in rec['_obs']:
            b = rec['_obs']['brute']
            defs += 'Definition bcs_%s : list N := %s.\nDefinition bok_%s : list N := %s.\n' % (
                uid, codegen.nlist(b['codespace']), uid, codegen.nlist(b['success']))
            defs += 'Definition ble_%s : list (list bool) := [%s].\n' % (
                uid, ';'.join('[' + ';'.join('true' if ch == '1' else 'false' for ch in s) + ']' for s in b['le_codespace']))
            obl.append(('brute_impl_' + uid, 'brute_sets_ok %s bcs_%s bok_%s ble_%s' % (c, uid, uid, uid)))
            obl.append(('brute_group_' + uid, 'brute_success_ok %s' % c))
        return defs, obl

    groups = cc.batch(recs, lambda r: cc.est_cost(r) + (2.0 if 'brute' in r['_obs'] else 0), 6.0)
    log('[C04] %d instances in %d files' % (len(recs), len(groups)))
    res = cc.run_obligation_files(work, 'c04', groups, body)
    bytag = {r['tag']: r for r in recs}
    for tag, obs in res.items():
        rec = bytag[tag]
        key = cc.inst_key(rec)
        for name, v in obs.items():
            rep.oblige(1, 1 if v is True else 0)
            if v is True:
                continue
            kind = name.split('_')[0]
            found = evaluator(rec)
            if found:
                for site, what, e in found[:3]:
                    rep.violation(dict(key, site=site), '%s: %s' % (tag, what), {'instance': key, 'error': e, 'what': what})
            else:
                rep.violation(dict(key, site='obligation-' + kind),
                              '%s: obligation %s did not evaluate to true (%s); evaluator found no failing input'
                              % (tag, name, v), {'instance': key, 'broken': name}, no_input=True)


def evaluator(rec):
    """Independent re-statement on the recorded implementation answers: success must equal membership in the
    GF(2) row space of H (decided here by elimination), codespace must equal zero syndrome, etc."""
    import gf2
    n = rec['n']
    H = [codegen.bsf_int(r, n) for r in rec['H']]
    LX = [codegen.bsf_int(r, n) for r in rec['lx']]
    LZ = [codegen.bsf_int(r, n) for r in rec['lz']]
    rk = gf2.rank(H)
    out = []
    fails = cc.eval_validity(rec)
    for clause, detail in fails[:2]:
        out.append(('table', 'code table invalid (%s)' % detail, None))

    def chk(x, z, cs, le, ile, ok):
        e = gf2.rows_to_int(x) | (gf2.rows_to_int(z) << n)
        in_cs = all(gf2.sp(h, e, n) == 0 for h in H)
        in_grp = gf2.rank(H + [e]) == rk
        exp_le = [gf2.sp(l, e, n) for l in LZ] + [gf2.sp(l, e, n) for l in LX]
        ed = {'x': x, 'z': z}
        if cs != in_cs:
            out.append(('in_codespace', 'in_codespace reports %s but error %s all generators' % (cs, 'commutes with' if in_cs else 'does not commute with'), ed))
        if le is not None and list(le) != exp_le:
            out.append(('logical_errors', 'logical_errors reports %s, symplectic products with (Z logicals | X logicals) are %s' % (le, exp_le), ed))
        if ile is not None and ile != any(exp_le):
            out.append(('is_logical_error', 'is_logical_error reports %s' % ile, ed))
        if ok != in_grp:
            out.append(('is_success', 'is_success reports %s but error is%s a product of generators' % (ok, '' if in_grp else ' not'), ed))

    for o in rec['_obs']['cases']:
        chk(o['x'], o['z'], o['cs'], o['le'], o['ile'], o['ok'])
    if 'brute' in rec['_obs']:
        b = rec['_obs']['brute']
        okset, csset = set(b['success']), set(b['codespace'])
        for v in range(4 ** n):
            mask = (1 << n) - 1
            x, z = gf2.bits(v & mask), gf2.bits(v >> n)
            chk(x, z, v in csset, None, None, v in okset)
            if len(out) > 5:
                break
    return out


def replay(path, work):
    r = json.load(open(path))
    inst = r.get('instance')
    if not inst or not r.get('error'):
        print('replay names a broken obligation, not an input:', r.get('broken') or r.get('what'))
        return 1
    code = ("import numpy as np, panqec.codes as pc\n"
            "size=tuple(int(x) for x in %r.split('x')); c=getattr(pc,%r)(*size)\n"
            "dn=%r; ax=%r\n"
            "if dn!='none': c.deform(dn, **({} if ax=='default' else {'deformation_axis':ax}))\n"
            "e=np.zeros(2*c.n,dtype='uint8')\n"
            "for i in %r: e[i]=1\n"
            "for i in %r: e[c.n+i]=1\n"
            "print('in_codespace',c.in_codespace(e),'logical_errors',list(c.logical_errors(e)),'is_success',c.is_success(e))\n"
            "print('syndrome weight', int(c.measure_syndrome(e).sum()))\n"
            ) % (inst['size'], inst['cls'], inst['deformation'], inst['axis'], r['error']['x'], r['error']['z'])
    out = subprocess.run([PY, '-c', code], env=driver_env(work), capture_output=True, text=True)
    print(out.stdout, out.stderr[-1000:])
    print('expected:', r['what'])
    return 1
