"""C18 - error probabilities multiply per qubit and normalise."""
import json
import math
from fractions import Fraction

from props.c07 import run_driver, eval_files, dists_lit, q, ikey, HDR, model_dist


def run(rep, work, tier, seed, only=None):
    rep.rule = ('cases: (a) one per (tiny code, deformation, axis, direction a/8, rate k/16): the implementation probabilities of ALL 4^n '
                'errors (exact, dyadic parameters) vs the model product and their sum; log form on a sample incl. impossible errors; '
                '(b) random errors on larger codes (float tolerance 1e-12); (c) SplittingSimulation.get_next_error on mixed-noise channels from dense previous errors: '
                'the accept probability it draws with and the log-probability it returns vs the stated channel. non-trivial = rate > 0')
    rep.trusted += ['drivers/c07_noise.py; Fraction(float) exact for the dyadic parameters used']
    data = run_driver(work, tier, seed)
    items = [p for p in data['probs'] if p['vals']]
    for p in data['probs']:
        rep.case(('probs', p['cls'], tuple(p['size']), p['name'], p['axis'], tuple(p['dir']), p['p16']), p['p16'] > 0,
                 sample={'cls': p['cls'], 'size': p['size'], 'deformation': p['name'], 'direction_eighths': p['dir'],
                         'rate_sixteenths': p['p16'], 'errors_enumerated': len(p['vals'])} if len(rep.samples) < 3 else None)
        rep.evaluations += max(0, len(p['vals']) - 1)
        rep.count('all_errors_4^n', len(p['vals']))
        if p['log_bad']:
            lb = p['log_bad']
            rep.violation(ikey(p, 'error_probability-log'),
                          '%s%s dir=%s/8 p=%d/16: log_output for error bits %d is %r, log of the probability is %r'
                          % (p['cls'], tuple(p['size']), p['dir'], p['p16'], lb['error_bits'], lb['log'], lb['expected']),
                          {'instance': ikey(p, 'error_probability-log'), 'direction_eighths': p['dir'], 'rate_sixteenths': p['p16'], 'detail': lb})
    # the per-qubit channel the product is taken over is the STATED one (direction, rate, deformation dictionary of each qubit)
    def stated(p):
        return [[[f.numerator, f.denominator] for f in model_dist(p, i)] for i in range(p['n'])]
    for p in items:
        p['stated'] = stated(p)
    render = lambda p: 'probs_ok_fast %s [%s]' % (dists_lit(p['stated']), '; '.join(q(v) for v in p['vals']))
    small = [p for p in items if len(p['vals']) <= 2000]
    big = [p for p in items if len(p['vals']) > 2000]        # one case per file: a 4^7-element literal is large enough
    okmap = {}
    for grp, per, pre in ((small, 6, 'c18p'), (big, 1, 'c18q')):
        for p, ok in zip(grp, eval_files(work, pre, grp, per, render, hdr=HDR + 'From PQ Require Import NoiseEval.\n')):
            okmap[id(p)] = ok
    oks = [okmap[id(p)] for p in items]
    for p, ok in zip(items, oks):
        rep.oblige(1, 1 if ok else 0)
        if ok:
            continue
        n = p['n']
        tot = Fraction(*p['total'])
        bad = None
        for v, val in enumerate(p['vals']):
            exp = Fraction(1)
            for i in range(n):
                x, z = (v >> i) & 1, (v >> (n + i)) & 1
                exp *= Fraction(*p['stated'][i][(0, 1, 3, 2)[x + 2 * z]])
            if exp != Fraction(*val):
                bad = (v, str(Fraction(*val)), str(exp))
                break
        what = ('error with bits %d has probability %s, product of per-qubit channel probabilities is %s' % bad) if bad else ''
        if tot != 1:
            what += '; probabilities of all 4^%d errors sum to %s' % (n, tot)
        rep.violation(ikey(p, 'error_probability'), '%s%s deformation=%s dir=%s/8 p=%d/16: %s'
                      % (p['cls'], tuple(p['size']), p['name'], p['dir'], p['p16'], what or 'probs_ok false'),
                      {'instance': ikey(p, 'error_probability'), 'direction_eighths': p['dir'], 'rate_sixteenths': p['p16'],
                       'error_bits': bad[0] if bad else None, 'total': str(tot)}, no_input=not what)
    for l in data['logs']:
        rep.case(('rand', l['cls'], tuple(l['size']), l['name'], l['axis'], tuple(l['x']), tuple(l['z'])), True)
        rep.count('random_error')
        okp = abs(l['prob'] - l['expected']) <= 1e-12 * max(l['expected'], 1e-300)
        okl = (l['log'] == l['expected_log']) or (math.isfinite(l['log']) and math.isfinite(l['expected_log'])
                                                  and abs(l['log'] - l['expected_log']) <= 1e-9 * max(1, abs(l['expected_log'])))
        if not (okp and okl):
            rep.violation(ikey(l, 'error_probability'),
                          '%s%s: error X%s Z%s has probability %r (log %r), product of channel probabilities is %r (log %r)'
                          % (l['cls'], tuple(l['size']), l['x'], l['z'], l['prob'], l['log'], l['expected'], l['expected_log']),
                          {'instance': ikey(l, 'error_probability'), 'x': l['x'], 'z': l['z'], 'direction_eighths': l['dir'], 'p': l['p']})

    # Metropolis step of the splitting method: accept probability and returned log-probability against the stated channel
    for m in data.get('metro', []):
        rep.case(('metro', m['cls'], tuple(m['size']), m['name'], m['axis'], tuple(m['x']), tuple(m['z']), str(m['proposal'])), True)
        rep.count('metropolis_step')
        close = lambda u, v: (u == v) or (math.isfinite(u) and math.isfinite(v) and abs(u - v) <= 1e-9 * max(1, abs(v)))
        okq = m['q'] is None or abs(m['q'] - m['q_expected']) <= 1e-9
        okl = close(m['logp'], m['logp_expected'])
        rep.oblige(1, 1 if (okq and okl) else 0)
        if not (okq and okl):
            what = []
            if not okq:
                what.append('accepts the proposal %s with probability %r, the likelihood ratio min(1, P(new)/P(previous)) is %r' % (m['proposal'], m['q'], m['q_expected']))
            if not okl:
                what.append('returns log-probability %r for the error it moved to (X%s Z%s), the log of the product of channel probabilities is %r'
                            % (m['logp'], m['next_x'], m['next_z'], m['logp_expected']))
            rep.violation(ikey(m, 'metropolis-step'),
                          '%s%s deformation=%s dir=%s/8 p=%r: SplittingSimulation.get_next_error from previous error X%s Z%s %s'
                          % (m['cls'], tuple(m['size']), m['name'], m['dir'], m['p'], m['x'], m['z'], '; '.join(what)),
                          {'instance': ikey(m, 'metropolis-step'), 'x': m['x'], 'z': m['z'], 'direction_eighths': m['dir'], 'p': m['p'], 'detail': m})

def replay(path, work):
    print(open(path).read()[:3000])
    return 1
