"""C11 - Monte-Carlo trials are self-consistent, reproducible and calibrated."""
import json
import math
import os
import subprocess

import codegen
import codes_common as cc
from common import PY, ROOT, driver_env, coqc_many, eval_results

LEVEL = 'proof'


def bl(v):
    return '[' + ';'.join('true' if b else 'false' for b in v) + ']'


def run(rep, work, tier, seed, only=None):
    rep.rule = ('cases: (a) one per recorded trial of run_once with a seeded generator on 6 (code, noise, decoder) setups incl. a decoder '
                'that leaves residual syndromes; (b) one per setup for bookkeeping under a random split into run(k) calls and for '
                'same-seed reproducibility; (c) one per (noise model object reused across codes, code) for calibration against the '
                'exact failure probability from full 4^n enumeration. non-trivial: (a) error non-zero')
    rep.trusted += ['drivers/c11_sim.py; NumPy generator and the third-party decoders are exercised, not modelled']
    rep.assumptions += ['calibration is a statistical test: |frequency - exact| <= 5 sigma (false alarm probability < 1e-6 per case)']
    out = os.path.join(work, 'c11.json')
    r = subprocess.run([PY, os.path.join(ROOT, 'drivers', 'c11_sim.py'), out, tier, str(seed)],
                       env=driver_env(work), capture_output=True, text=True)
    if r.returncode != 0:
        raise RuntimeError('c11 driver failed: ' + r.stderr[-3000:])
    data = json.load(open(out))
    files = []
    for ri, rec in enumerate(data['records']):
        code = cc.load(out + '.dump', rec['tag'])
        n = code['n']
        key = {'site': 'run_once', 'cls': rec['cls'], 'decoder': rec['decoder']}
        lines = [cc.HDR, 'From PQ Require Import Sim.\n', codegen.code_def('c', code)]
        sub = []
        for ti, t in enumerate(rec['trials']):
            rep.case(('trial', rec['tag'], rec['decoder'], ti), bool(t['error']['x'] or t['error']['z']),
                     sample={'setup': rec['tag'], 'decoder': rec['decoder'], 'error': t['error'], 'correction': t['correction'],
                             'codespace': t['codespace'], 'success': t['success']} if ti == 3 and len(rep.samples) < 4 else None)
            rep.count('trial:' + rec['decoder'])
            if not t['corr_binary']:
                rep.violation(key, '%s: decoder returned a non-binary or wrong-length correction' % rec['tag'], {'setup': rec['tag'], 'trial': ti})
                continue
            lines.append('Eval vm_compute in trial_ok c (%s) (%s) %s %s %s %s.\n' % (
                codegen.bsf_lit(t['error']), codegen.bsf_lit(t['correction']), bl(t['syndrome']), bl(t['effective']),
                'true' if t['codespace'] else 'false', 'true' if t['success'] else 'false'))
            sub.append((rec, ti, t))
        f = os.path.join(work, 'c11_rec_%d.v' % ri)
        open(f, 'w').write(''.join(lines))
        files.append((f, sub, code))
    # bookkeeping
    blines = [cc.HDR, 'From PQ Require Import Sim.\n']
    btodo = []
    for b in data['book']:
        rep.case(('book', b['tag'], b['decoder']), True)
        rep.count('bookkeeping')
        key = {'site': 'DirectSimulation', 'decoder': b['decoder']}
        cum = 0
        bad = None
        for k, ln in zip(b['ks'], b['lens']):
            cum += k
            if ln != [cum] * 4:
                bad = (k, ln, cum)
                break
        if bad:
            rep.violation(key, '%s: after run(%d) (total %d) n_runs and list lengths are %s' % (b['tag'], bad[0], bad[2], bad[1]),
                          {'setup': b['tag'], 'run_calls': b['ks'], 'lengths_after_each_call': b['lens']})
            continue
        badp = next((pt for pt in b.get('partials', []) if pt[1] != pt[4] or pt[2] != pt[0] - pt[4]
                     or abs(pt[3] - (pt[4] / pt[0] if pt[0] else 0.0)) > 1e-15), None)
        if badp:
            rep.violation(key, '%s: after %d trials of which %d failed, get_results() reports n_fail=%d n_success=%d p_est=%r'
                          % (b['tag'], badp[0], badp[4], badp[1], badp[2], badp[3]),
                          {'setup': b['tag'], 'run_calls': b['ks'], 'summaries_after_each_call': b['partials']})
            continue
        rec = next(r_ for r_ in data['records'] if r_['tag'] == b['tag'] and r_['decoder'] == b['decoder'])
        same = ([t['effective'] for t in rec['trials']] == b['sim_eff'] and [t['success'] for t in rec['trials']] == b['sim_succ']
                and [t['codespace'] for t in rec['trials']] == b['sim_cs'])
        if not same:
            rep.violation(key, '%s: DirectSimulation with seed %d records different trials than run_once called with the same seeded generator '
                          '(stream discipline / determinism)' % (b['tag'], rec['seed']), {'setup': b['tag'], 'seed': rec['seed'], 'run_calls': b['ks']})
            continue
        nf = sum(1 for s in b['sim_succ'] if not s)
        pe = nf / b['n_runs'] if b['n_runs'] else float('nan')
        if abs(b['p_est'] - pe) > 1e-15 or abs(b['p_se'] - math.sqrt(pe * (1 - pe) / (b['n_runs'] + 1))) > 1e-12:
            rep.violation(key, '%s: estimator p_est=%r p_se=%r but n_fail/n_runs = %d/%d' % (b['tag'], b['p_est'], b['p_se'], nf, b['n_runs']),
                          {'setup': b['tag']})
            continue
        pos = 0
        batches = []
        for k in b['ks']:
            batches.append('[' + '; '.join('mkshot %s %s %s' % ('true' if b['sim_succ'][i] else 'false', 'true' if b['sim_cs'][i] else 'false',
                                                               bl(b['sim_eff'][i])) for i in range(pos, pos + k)) + ']')
            pos += k
        blines.append('Eval vm_compute in book_ok [%s] %d %d %d.\n' % ('; '.join(batches), b['n_runs'], b['n_fail'], b['n_success']))
        btodo.append(b)
    bf = os.path.join(work, 'c11_book.v')
    open(bf, 'w').write(''.join(blines))
    res = coqc_many([f for f, _, _ in files] + [bf])
    for f, sub, code in files:
        rc, o, e, dt = res[f]
        vals = eval_results(o)
        if rc != 0 or len(vals) != len(sub):
            raise RuntimeError('c11 cases did not evaluate: ' + (o + e)[-2000:])
        n = code['n']
        for (rec, ti, t), v in zip(sub, vals):
            ok = v.startswith('true')
            rep.oblige(1, 1 if ok else 0)
            rep.traces += 1
            if ok:
                continue
            import gf2
            H = [codegen.bsf_int(r_, n) for r_ in code['H']]
            L = [codegen.bsf_int(r_, n) for r_ in code['lz']] + [codegen.bsf_int(r_, n) for r_ in code['lx']]
            e_ = codegen.bsf_int(t['error'], n)
            tot = e_ ^ codegen.bsf_int(t['correction'], n)
            syn = [gf2.sp(h, e_, n) for h in H]
            eff = [gf2.sp(l, tot, n) for l in L]
            cs = all(gf2.sp(h, tot, n) == 0 for h in H)
            probs = []
            if syn != t['syndrome']:
                probs.append('recorded syndrome is not the syndrome of the recorded error')
            if eff != t['effective']:
                probs.append('effective_error %s is not the logical effect %s of error+correction' % (t['effective'], eff))
            if cs != t['codespace']:
                probs.append('codespace=%s but the residual syndrome of error+correction is %s' % (t['codespace'], 'zero' if cs else 'non-zero'))
            if t['success'] != (cs and not any(eff)):
                probs.append('success=%s but codespace and zero effective error is %s' % (t['success'], cs and not any(eff)))
            rep.violation({'site': 'run_once', 'cls': rec['cls'], 'decoder': rec['decoder']},
                          '%s with %s, seed %d, trial %d (error X%s Z%s, correction X%s Z%s): %s'
                          % (rec['tag'], rec['decoder'], rec['seed'], ti, t['error']['x'], t['error']['z'], t['correction']['x'], t['correction']['z'],
                             '; '.join(probs) or 'trial_ok false'),
                          {'setup': rec['tag'], 'decoder': rec['decoder'], 'seed': rec['seed'], 'trial': ti, 'record': t, 'problems': probs},
                          no_input=not probs)
    rc, o, e, dt = res[bf]
    vals = eval_results(o)
    if rc != 0 or len(vals) != len(btodo):
        raise RuntimeError('c11 bookkeeping cases did not evaluate: ' + (o + e)[-2000:])
    for b, v in zip(btodo, vals):
        ok = v.startswith('true')
        rep.oblige(1, 1 if ok else 0)
        if not ok:
            rep.violation({'site': 'DirectSimulation', 'decoder': b['decoder']},
                          '%s: get_results reports n_runs=%d n_fail=%d n_success=%d, the recorded verdict lists give %d failures'
                          % (b['tag'], b['n_runs'], b['n_fail'], b['n_success'], sum(1 for s in b['sim_succ'] if not s)), {'setup': b['tag']})
    for rp in data['repro']:
        rep.case(('repro', rp['tag'], rp['decoder']), True)
        rep.count('reproducibility')
        if not rp['equal']:
            rep.violation({'site': 'DirectSimulation', 'decoder': rp['decoder'], 'clause': 'reproducible'},
                          '%s with %s: two runs with seed %d differ' % (rp['tag'], rp['decoder'], rp['seed']), {'setup': rp['tag'], 'seed': rp['seed']})
    for c in data['calib']:
        rep.case(('calib', c['cls'], tuple(c['size']), c['deformation'], c['decoder']), True,
                 sample={'calibration': c} if len(rep.samples) < 6 else None)
        rep.count('calibration')
        sd = math.sqrt(max(c['exact'] * (1 - c['exact']), 1e-12) / c['n'])
        if abs(c['freq'] - c['exact']) > 5 * sd + 1e-9:
            rep.violation({'site': 'calibration', 'cls': c['cls'], 'decoder': c['decoder']},
                          '%s%s noise %s (deformation %s) p=%s with %s: failure frequency %.4f over %d seeded trials, exact failure probability '
                          'of the stated channel %.4f (%.1f sigma)' % (c['cls'], tuple(c['size']), c['direction'], c['deformation'], c['p'],
                                                                        c['decoder'], c['freq'], c['n'], c['exact'], (c['freq'] - c['exact']) / sd),
                          {'calibration': c})


def replay(path, work):
    print(open(path).read()[:3000])
    return 1
