"""C01 - every library code is a valid [[n,k]] stabilizer code."""
import json
import os

import codegen
import codes_common as cc
from common import log

CAP = {'quick': 400, 'thorough': 800}


def body(rec, uid):
    c, ct = 'c_' + uid, 'ct_' + uid
    cert, why = codegen.cert_def(ct, rec)
    return codegen.code_def(c, rec) + cert, [('ob_' + uid, 'check_cert %s %s' % (c, ct))]


def run(rep, work, tier, seed, only=None):
    rep.rule = ('one case = one (class, size, deformation, axis) instance dumped from the implementation; '
                'non-trivial = n >= 4 and at least one stabilizer; distinct by (class,size,deformation,axis)')
    rep.assumptions += ['supported size families as in DESIGN.md section 4',
                        'certificate search (gf2.find_certificate) is untrusted: only check_cert decides']
    rep.trusted += ['dump driver drivers/dump_codes.py + literal printer harness/codegen.py (Python)',
                    'Layer-I: the table checked is the one the implementation built on this run']
    outdir, idx = cc.run_dump(work, tier, only, extra='c01')
    recs = []
    skipped = 0
    for it in idx:
        rec = cc.load(outdir, it['tag'])
        key = cc.inst_key(rec)
        if not rec['ok']:
            rep.case(key, True)
            rep.oblige(1, 0)
            rep.violation(dict(key, site='construct', clause='constructible'),
                          '%s cannot be constructed: %s' % (rec['tag'], rec['error']),
                          {'instance': key, 'error': rec['error'], 'trace': rec.get('trace')})
            continue
        rep.count(rec['cls'])
        cc.report_hist_diff(rep, rec, key)
        if rec['n'] > CAP[tier]:
            skipped += 1
            # still decide by the independent evaluator (test, not counted as an obligation)
            fails = cc.eval_validity(rec)
            for clause, detail in fails:
                rep.violation(dict(key, site='table', clause=clause), '%s: %s' % (rec['tag'], detail),
                              {'instance': key, 'clause': clause, 'detail': detail})
            continue
        recs.append(rec)
    rep.extra['instances_too_large_for_certificate_this_tier'] = skipped
    # certificate search; where none exists the evaluator must explain why
    good = []
    for rec in recs:
        key = cc.inst_key(rec)
        rep.case(key, rec['n'] >= 4 and len(rec['H']) > 0,
                 sample={'instance': key, 'n': rec['n'], 'k': rec['k'], 'm': len(rec['H'])})
        rep.oblige(1)
        cert, why = codegen.cert_def('x', rec)
        if cert is None:
            fails = cc.eval_validity(rec)
            if not fails:
                fails = [('certificate', 'no certificate found (%s) but evaluator found no failing clause' % why)]
            for clause, detail in fails[:3]:
                rep.violation(dict(key, site='table', clause=clause), '%s: %s' % (rec['tag'], detail),
                              {'instance': key, 'clause': clause, 'detail': detail},
                              no_input=(clause == 'certificate'))
            continue
        good.append(rec)
    toric2d_tie(rep, work, good)
    cc.report_cross_class(rep, outdir, ('n', 'k', 'H', 'logicals', 'exception'))
    groups = cc.batch(good, cc.est_cost, 6.0)
    log('[C01] %d instances in %d files' % (len(good), len(groups)))
    res = cc.run_obligation_files(work, 'c01', groups, body)
    bytag = {r['tag']: r for r in good}
    for tag, obs in res.items():
        rec = bytag[tag]
        key = cc.inst_key(rec)
        for name, v in obs.items():
            if v is True:
                rep.oblige(0, 1)
                continue
            fails = cc.eval_validity(rec)
            if fails:
                for clause, detail in fails[:3]:
                    rep.violation(dict(key, site='table', clause=clause), '%s: %s' % (tag, detail),
                                  {'instance': key, 'clause': clause, 'detail': detail})
            else:
                rep.violation(dict(key, site='table', clause='certificate'),
                              '%s: check_cert did not evaluate to true (%s) and the evaluator found no failing clause'
                              % (tag, v), {'instance': key, 'broken': 'check_cert obligation ' + name}, no_input=True)


def toric2d_tie(rep, work, recs):
    """Layer P tie: the parametric Toric2D model's tables equal the dumped ones on every grid size."""
    from common import coqc_many, eval_results, coq_Z
    items = [r for r in recs if r['cls'] in ('Toric2DCode', 'Planar2DCode', 'RotatedPlanar2DCode', 'Toric3DCode', 'Planar3DCode', 'RotatedPlanar3DCode', 'XCubeCode') and r['deformation'] is None]
    if not items:
        return
    pt = lambda c: '(' + ', '.join(coq_Z(x) for x in c) + ')'
    pl = lambda l: '[' + '; '.join(pt(c) for c in l) + ']'
    lines = ['From Coq Require Import ZArith List Bool.\nImport ListNotations.\nFrom PQ Require Import Toric2D.\nFrom PQ Require Planar2D Planar2DLogicals RotatedPlanar2D RotatedPlanar2DLogicals Toric3D Planar3D Planar3DLogicals RotatedPlanar3D RotatedPlanar3DLogicals XCube.\nLocal Open Scope Z_scope.\n']
    for r in items:
        sup = '[' + '; '.join(pl([it[1] for it in op]) for op in r['stab_ops']) + ']'
        lg = [pl([it[1] for it in op]) for op in r['lx_ops'] + r['lz_ops']]
        if r['cls'] == 'Toric2DCode':
            lines.append('Eval vm_compute in table_matches %d %d %s %s %s && %s.\n' % (
                r['size'][0], r['size'][1], pl(r['qubits']), pl(r['stab_coords']), sup,
                ('logicals_match %d %d %s' % (r['size'][0], r['size'][1], ' '.join(lg))) if len(lg) == 4 else 'false'))
        elif r['cls'] == 'XCubeCode':
            sc, ops = r['stab_coords'], [pl([it[1] for it in op]) for op in r['stab_ops']]
            cubes_i = [i for i, c in enumerate(sc) if len(c) == 3]
            faces_i = {a: [i for i, c in enumerate(sc) if len(c) == 4 and c[0] == a] for a in (0, 1, 2)}
            lines.append('Eval vm_compute in XCube.table_matches %d %d %d %s %s %s %s %s.\n' % (
                r['size'][0], r['size'][1], r['size'][2], pl(r['qubits']), pl([sc[i] for i in cubes_i]), pl([sc[i][1:] for i in faces_i[0]]),
                '[' + '; '.join(ops[i] for i in cubes_i) + ']',
                '[' + '; '.join('[' + '; '.join(ops[i] for i in faces_i[a]) + ']' for a in (0, 1, 2)) + ']'))
        elif r['cls'] in ('Toric3DCode', 'Planar3DCode', 'RotatedPlanar3DCode'):
            extra = ''
            if r['cls'] == 'Toric3DCode':
                extra = (' && Toric3D.logicals_match %d %d %d %s' % (r['size'][0], r['size'][1], r['size'][2], ' '.join(lg))) if len(lg) == 6 else ' && false'
            elif r['cls'] == 'RotatedPlanar3DCode':
                extra = (' && RotatedPlanar3DLogicals.logicals_match %d %d %d %s' % (r['size'][0], r['size'][1], r['size'][2], ' '.join(lg))) if len(lg) == 2 else ' && false'
            else:
                extra = (' && Planar3DLogicals.logicals_match %d %d %d %s' % (r['size'][0], r['size'][1], r['size'][2], ' '.join(lg))) if len(lg) == 2 else ' && false'
            lines.append('Eval vm_compute in ' + r['cls'][:-4] + '.table_matches %d %d %d %s %s %s%s.\n' % (
                r['size'][0], r['size'][1], r['size'][2], pl(r['qubits']), pl(r['stab_coords']), sup, extra))
        else:
            extra = ''
            if r['cls'] in ('Planar2DCode', 'RotatedPlanar2DCode'):
                extra = (' && ' + r['cls'][:-4] + 'Logicals.logicals_match %d %d %s' % (r['size'][0], r['size'][1], ' '.join(lg))) if len(lg) == 2 else ' && false'
            lines.append('Eval vm_compute in ' + r['cls'][:-4] + '.table_matches %d %d %s %s %s%s.\n' % (
                r['size'][0], r['size'][1], pl(r['qubits']), pl(r['stab_coords']), sup, extra))
    f = os.path.join(work, 'c01_toric2d.v')
    open(f, 'w').write(''.join(lines))
    rc, o, e, dt = coqc_many([f])[f]
    vals = eval_results(o)
    if rc != 0 or len(vals) != len(items):
        raise RuntimeError('toric2d tie did not evaluate: ' + (o + e)[-1500:])
    for r, v in zip(items, vals):
        ok = v.startswith('true')
        rep.oblige(1, 1 if ok else 0)
        rep.count('layerP:' + r['cls'])
        if not ok:
            key = cc.inst_key(r)
            rep.violation(dict(key, site='layer-P', clause='model-matches-implementation'),
                          '%s: qubit coordinates / stabilizer coordinates / stabilizer supports / listed logicals differ from the parametric Layer-P model '
                          '(the all-sizes theorems no longer apply to the implementation)' % r['tag'],
                          {'instance': key, 'broken': r['cls'][:-4] + '.table_matches'}, no_input=True)


def replay(path, work):
    r = json.load(open(path))
    inst = r.get('instance')
    if not inst:
        print('replay names a broken obligation, not an input:', r.get('broken'))
        return 1
    import subprocess
    from common import PY, ROOT, driver_env
    import os
    code = ("import sys, json; sys.path.insert(0, %r)\n"
            "import dump_codes as d\n"
            "size=tuple(int(x) for x in %r.split('x'))\n"
            "dn=%r; ax=%r\n"
            "t=d.dump_instance((%r, size, None if dn=='none' else dn, None if ax=='default' else ax, %r))\n"
            "print(t[0])\n") % (os.path.join(ROOT, 'drivers'), inst['size'], inst['deformation'], inst['axis'],
                                 inst['cls'], work)
    out = subprocess.run([PY, '-c', code], env=driver_env(work), capture_output=True, text=True)
    tag = out.stdout.strip().split('\n')[-1]
    rec = cc.load(work, tag)
    if not rec['ok']:
        print('REPRODUCED: construction fails:', rec['error'])
        return 1
    fails = cc.eval_validity(rec)
    for c, d in fails:
        print('REPRODUCED:', c, d)
    return 1 if fails else 0
