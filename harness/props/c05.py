"""C05 - decoders return valid corrections that reproduce the measured syndrome."""
import json
import os
import subprocess

import codegen
import codes_common as cc
from common import PY, ROOT, driver_env, coqc_many, eval_results

COMPLETE = ('MatchingDecoder', 'UnionFindDecoder', 'BeliefPropagationOSDDecoder')


def bl(v):
    return '[' + ';'.join('true' if b else 'false' for b in v) + ']'


def vkey(r, site, clause=None):
    k = {'site': site, 'decoder': r['decoder'], 'cls': r['cls'], 'size': 'x'.join(map(str, r['size'])),
         'deformation': r['deformation'] or 'none', 'noncubic': len(set(r['size'])) > 1, 'has_dimension_2': 2 in r['size']}
    if clause:
        k['clause'] = clause
    return k


def run_driver(work, mode, tier, seed):
    outdir = os.path.join(work, 'dec')
    r = subprocess.run([PY, os.path.join(ROOT, 'drivers', 'c05_decoders.py'), outdir, mode, tier, str(seed)],
                       env=driver_env(work), capture_output=True, text=True)
    if r.returncode != 0:
        raise RuntimeError('decoder driver failed: ' + r.stderr[-3000:])
    return outdir, json.load(open(os.path.join(outdir, mode + '.json')))


def run(rep, work, tier, seed, only=None):
    rep.rule = ('one case = one (decoder, declared code class, size incl. non-cubic, code deformation for BP-OSD, noise direction, rate): '
                'construct, decode the zero syndrome, then EVERY valid syndrome when the syndrome space has <= 2^10 elements, else all '
                'weight-1 Pauli errors, sampled weight-2 errors and random errors at 5 rates. non-trivial = at least 10 decodes')
    rep.trusted += ['drivers/c05_decoders.py', 'PyMatching, ldpc BP+OSD and the union-find clustering are exercised, not modelled '
                    '(oracle contracts of Decoders.v)']
    rep.assumptions += ['PARTIAL: only the glue around the third-party solvers is proved; solver contracts are tested on this run']
    outdir, data = run_driver(work, 'valid', tier, seed)
    bytag = {}
    for r in data:
        desc = {'decoder': r['decoder'], 'options': r.get('options', {}), 'cls': r['cls'], 'size': r['size'], 'deformation': r['deformation'], 'direction': r['direction'], 'p': r['p']}
        rep.case(json.dumps(desc, sort_keys=True), r.get('n_decodes', 0) >= 10,
                 sample=dict(desc, decodes=r.get('n_decodes'), kinds=r.get('kinds')) if len(rep.samples) < 4 else None)
        rep.evaluations += max(0, r.get('n_decodes', 0) - 1)
        rep.count('decoder:' + r['decoder'], r.get('n_decodes', 0))
        if 'construct_error' in r:
            rep.violation(vkey(r, 'construct'), '%s cannot be constructed on its declared code %s%s: %s'
                          % (r['decoder'], r['cls'], tuple(r['size']), r['construct_error']), {'config': desc, 'error': r['construct_error']})
            continue
        for d in r['decodes']:
            if not d.get('bad'):
                if r['decoder'] in COMPLETE and 'correction' in d:
                    bytag.setdefault(r['tag'], []).append((r, d))
                continue
            if 'exception' in d:
                clause, what = 'exception', 'raised %s' % d['exception']
            elif not d.get('shape_ok') or not d.get('binary'):
                clause, what = 'binary', 'returned a vector that is not binary of length 2n'
            elif r['decoder'] in COMPLETE and not d.get('reproduces'):
                clause, what = 'syndrome', 'returned a correction (X%s Z%s) whose syndrome differs from the measured syndrome %s' % (
                    d['correction']['x'], d['correction']['z'], d['syndrome'])
            elif d['kind'] == 'zero':
                if r['decoder'] == 'MemoryBeliefPropagationDecoder':
                    continue
                clause, what = 'zero', 'returned the non-trivial correction X%s Z%s for the trivial syndrome' % (d['correction']['x'], d['correction']['z'])
            else:
                continue
            rep.violation(vkey(r, 'decode', clause), '%s on %s%s (deformation %s, noise %s, p=%s), error X%s Z%s: %s'
                          % (r['decoder'], r['cls'], tuple(r['size']), r['deformation'], r['direction'], r['p'], d['error']['x'], d['error']['z'], what),
                          {'config': desc, 'error': d['error'], 'what': what})
    # kernel check of recorded decodes of the complete decoders against the dumped table
    files = []
    for tag, items in bytag.items():
        code = cc.load(outdir, tag)
        m = len(code['H'])
        lines = [cc.HDR, 'From PQ Require Import Operator Distance Decoders.\n', codegen.code_def('c', code)]
        for r, d in items[:400]:
            syn = set(d['syndrome'])
            lines.append('Eval vm_compute in decode_ok c %s (%s).\n' % (bl([i in syn for i in range(m)]), codegen.bsf_lit(d['correction'])))
        f = os.path.join(work, 'c05_%s.v' % tag.replace('-', '_'))
        open(f, 'w').write(''.join(lines))
        files.append((f, items[:400]))
    res = coqc_many([f for f, _ in files])
    for f, items in files:
        rc, o, e, dt = res[f]
        vals = eval_results(o)
        if rc != 0 or len(vals) != len(items):
            raise RuntimeError('c05 cases did not evaluate: ' + (o + e)[-1500:])
        for (r, d), v in zip(items, vals):
            ok = v.startswith('true')
            rep.oblige(1, 1 if ok else 0)
            rep.traces += 1
            if not ok:
                rep.violation(vkey(r, 'decode', 'syndrome'), '%s on %s%s: the model syndrome of the returned correction X%s Z%s differs from the '
                              'measured syndrome %s' % (r['decoder'], r['cls'], tuple(r['size']), d['correction']['x'], d['correction']['z'], d['syndrome']),
                              {'config': {'decoder': r['decoder'], 'cls': r['cls'], 'size': r['size']}, 'error': d['error']})


def replay(path, work):
    print(open(path).read()[:3000])
    return 1
