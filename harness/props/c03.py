"""C03 - Pauli representations are lossless and the symplectic product is exact."""
import json
import os
import subprocess

import codegen
import codes_common as cc
from common import PY, ROOT, driver_env, log, coqc_many, eval_results

P4 = {'I': 'I4', 'X': 'X4', 'Y': 'Y4', 'Z': 'Z4'}


def bl(v):
    return '[' + ';'.join('true' if b else 'false' for b in v) + ']'


def row_lit(idx, n):
    return 'B (ofl %s) (ofl %s)' % (codegen.nlist([i for i in idx if i < n]), codegen.nlist([i - n for i in idx if i >= n]))


def py_sp(a, b, n):
    A, B = set(a), set(b)
    return (sum(1 for i in A if i < n and (i + n) in B) + sum(1 for i in A if i >= n and (i - n) in B)) % 2


def run(rep, work, tier, seed, only=None):
    rep.rule = ('cases: (a) every ordered pair of Pauli operators on n<=3 qubits, each evaluated by bs_prod in several '
                'representation pairs (list/uint8/int8/int64/uint64/csr x 1-D/2-D; all 144 combinations are covered across the '
                'pairs); (b) random stacks up to n=600 incl. density 1.0 (overlap > 255) in 9 representation pairs, both argument '
                'orders and stack-vs-vector; (c) converters on all strings of length<=3 and random strings up to length 70. '
                'non-trivial: (a) both operands non-identity, (b,c) always')
    rep.trusted += ['drivers/c03_bsprod.py and the literal printers (Python)']
    out = os.path.join(work, 'c03.json')
    r = subprocess.run([PY, os.path.join(ROOT, 'drivers', 'c03_bsprod.py'), out, tier, str(seed)],
                       env=driver_env(work), capture_output=True, text=True)
    if r.returncode != 0:
        raise RuntimeError('c03 driver failed: ' + r.stderr[-3000:])
    data = json.load(open(out))
    files = []
    hdr = cc.HDR + 'From PQ Require Import Convert.\n'
    # (a) pairs
    plist = []
    for p in data['pairs']:
        n, a, b = p['n'], p['a'], p['b']
        rep.case(('pair', n, a, b), a != 0 and b != 0)
        rep.count('pair_n%d' % n)
        rep.count('bs_prod_calls', p['ncombos'])
        if len(p['vals']) != 1:
            exp = py_sp([i for i in range(2 * n) if (a >> i) & 1], [i for i in range(2 * n) if (b >> i) & 1], n)
            wrong = [(v, reps) for v, reps in p['vals'].items() if v != json.dumps([exp])]
            rep.violation({'site': 'bs_prod', 'representation': wrong[0][1][0]},
                          'bs_prod on n=%d operators %d,%d gives %s in representation %s but the symplectic form is %d'
                          % (n, a, b, wrong[0][0], wrong[0][1][0], exp),
                          {'n': n, 'a_bits': a, 'b_bits': b, 'values_by_representation': p['vals'], 'expected': exp})
            continue
        v = json.loads(list(p['vals'].keys())[0])
        if not isinstance(v, list) or len(v) != 1 or v[0] not in (0, 1):
            rep.violation({'site': 'bs_prod', 'representation': list(p['vals'].values())[0][0]},
                          'bs_prod on n=%d operators %d,%d returned %s' % (n, a, b, v), {'n': n, 'a_bits': a, 'b_bits': b, 'value': v})
            continue
        plist.append((n, a, b, v[0]))
    lines = [hdr, 'Definition pairs : list (nat * N * N * bool) := [\n' +
             ';\n'.join('(%d%%nat, %d, %d, %s)' % (n, a, b, 'true' if v else 'false') for n, a, b, v in plist) + '].\n',
             'Lemma pairs_ok : forallb (fun t => match t with (n, a, b, v) => pair_ok n a b v end) pairs = true.\n'
             'Proof. vm_cast_no_check (eq_refl true). Qed.\n']
    f = os.path.join(work, 'c03_pairs.v')
    open(f, 'w').write(''.join(lines))
    files.append((f, 'pairs', len(plist)))
    # (b) stacks
    sfiles = []
    chunk = []
    for i, s in enumerate(data['stacks']):
        n = s['n']
        rep.case(('stack', i), True, sample={'n': n, 'rows_a': len(s['A']), 'rows_b': len(s['B']), 'reps': s['reps'],
                                             'kind': s['kind'], 'density': s['density']} if i % 97 == 0 else None)
        rep.count('stack:' + 'x'.join(s['reps']))
        a2d, b2d = s['kind'] in ('ab', 'ba', 'a-vec'), s['kind'] in ('ab', 'ba', 'vec-b')
        exp_shape = [len(s['A']), len(s['B'])] if (a2d and b2d) else ([len(s['A'])] if a2d else [len(s['B'])])
        if isinstance(s['val'], str) or s['shape'] != exp_shape:
            rep.violation({'site': 'bs_prod', 'representation': 'x'.join(s['reps'])},
                          'bs_prod of a %d-row stack (%s) with a %d-row stack (%s) on n=%d returned %s, expected shape %s'
                          % (len(s['A']), s['reps'][0], len(s['B']), s['reps'][1], n,
                             s['val'] if isinstance(s['val'], str) else 'shape %s' % s['shape'], exp_shape),
                          {'n': n, 'A': s['A'], 'B': s['B'], 'reps': s['reps'], 'kind': s['kind'], 'shape': s['shape']})
            continue
        chunk.append((i, s))
    per = 60
    for ci in range(0, len(chunk), per):
        sub = chunk[ci:ci + per]
        lines = [hdr]
        for i, s in sub:
            n = s['n']
            lines.append('Lemma stack_%d : stack_ok [%s] [%s] %s = true. Proof. vm_cast_no_check (eq_refl true). Qed.\n' % (
                i, '; '.join(row_lit(r, n) for r in s['A']), '; '.join(row_lit(r, n) for r in s['B']), bl(s['val'])))
        f = os.path.join(work, 'c03_stacks_%03d.v' % (ci // per))
        open(f, 'w').write(''.join(lines))
        sfiles.append((f, sub))
    # (c) converters
    clines = [hdr]
    cl = []
    for i, c in enumerate(data['conv']):
        s = c['s']
        rep.case(('conv', s), True, sample={'string': s} if i % 40 == 3 else None)
        rep.count('converter')
        if not s:
            continue
        if 'error' in c:
            rep.violation({'site': 'converter'}, 'converter raised on %r: %s' % (s, c['error']), {'string': s, 'error': c['error']})
            continue
        same = [c['back1'], c['back2'], c['back2_2d'][0], c['back3'][0], c['back4'][0]]
        names = ['bvector_to_pauli_string', 'bsf_to_pauli(1-D)', 'bsf_to_pauli(2-D)', 'bsf_to_pauli(csr)', 'bsf_to_pauli(csr, unsorted indices)']
        bad = [(nm, v) for nm, v in zip(names, same) if v != s]
        if bad:
            rep.violation({'site': 'converter', 'function': bad[0][0]}, '%s maps the bvector of %r back to %r' % (bad[0][0], s, bad[0][1]),
                          {'string': s, 'function': bad[0][0], 'got': bad[0][1]})
            continue
        if c['ints_rt'] != [c['v1'], c['rev']]:
            rep.violation({'site': 'converter', 'function': 'ints_to_bvectors'},
                          'ints_to_bvectors(bvectors_to_ints(.)) is not the identity on the bvector of %r' % s, {'string': s})
            continue
        if not (c['wt_dense'] == c['wt_csr'] == c['wt_unsorted']):
            rep.violation({'site': 'converter', 'function': 'bsf_wt'}, 'bsf_wt of %r: dense %d, csr %d, unsorted csr %d'
                          % (s, c['wt_dense'], c['wt_csr'], c['wt_unsorted']), {'string': s})
            continue
        cl.append((i, c))
        clines.append('Lemma conv_%d : conv_ok [%s] [%s] %s %s %s %s %d%%nat = true. Proof. vm_cast_no_check (eq_refl true). Qed.\n' % (
            i, ';'.join(P4[ch] for ch in s), ';'.join(P4[ch] for ch in c['back1']), bl(c['v1']), bl(c['v2']), bl(c['from_int']),
            c['int'], c['wt_dense']))
    cf = os.path.join(work, 'c03_conv.v')
    open(cf, 'w').write(''.join(clines))
    allf = [f for f, _, _ in files] + [f for f, _ in sfiles] + [cf]
    res = coqc_many(allf, timeout=900)
    # decide
    rc, o, e, dt = res[files[0][0]]
    rep.oblige(len(plist), len(plist) if rc == 0 else 0)
    if rc != 0:
        bad = None
        for (n, a, b, v) in plist:
            exp = py_sp([i for i in range(2 * n) if (a >> i) & 1], [i for i in range(2 * n) if (b >> i) & 1], n)
            if exp != v:
                bad = (n, a, b, v, exp)
                break
        if bad:
            rep.violation({'site': 'bs_prod', 'representation': 'all'}, 'bs_prod on n=%d operators %d,%d returns %d, symplectic form is %d' % bad,
                          {'n': bad[0], 'a_bits': bad[1], 'b_bits': bad[2], 'value': bad[3], 'expected': bad[4]})
        else:
            rep.violation({'site': 'obligation-pairs'}, 'pairs obligation does not check: ' + (o + e)[-300:], {'broken': 'pairs_ok'}, no_input=True)
    for f, sub in sfiles:
        rc, o, e, dt = res[f]
        if rc == 0:
            rep.oblige(len(sub), len(sub))
            continue
        for i, s in sub:
            n = s['n']
            exp = [py_sp(a, b, n) for a in s['A'] for b in s['B']]
            rep.oblige(1, 1 if exp == s['val'] else 0)
            if exp != s['val']:
                rep.violation({'site': 'bs_prod', 'representation': 'x'.join(s['reps'])},
                              'bs_prod of stacks (%s x %s, n=%d, %dx%d rows, %s) differs from the symplectic form at flat index %d'
                              % (s['reps'][0], s['reps'][1], n, len(s['A']), len(s['B']), s['kind'],
                                 next(j for j in range(len(exp)) if j >= len(s['val']) or exp[j] != s['val'][j])),
                              {'n': n, 'A': s['A'], 'B': s['B'], 'reps': s['reps'], 'kind': s['kind'], 'got': s['val'], 'expected': exp})
    rc, o, e, dt = res[cf]
    if rc == 0:
        rep.oblige(len(cl), len(cl))
    else:
        rep.oblige(len(cl), 0)
        found = False
        for i, c in cl:
            s = c['s']
            n = len(s)
            v = [1 if ch in 'XY' else 0 for ch in s] + [1 if ch in 'ZY' else 0 for ch in s]
            k = int(''.join(map(str, v)), 2)
            wt = sum(1 for ch in s if ch != 'I')
            probs = []
            if c['v1'] != v or c['v2'] != v:
                probs.append('pauli_string_to_bvector/pauli_to_bsf gives %s' % (c['v1'] if c['v1'] != v else c['v2']))
            if int(c['int']) != k:
                probs.append('bvector_to_int gave %s, expected %d' % (c['int'], k))
            if c['from_int'] != v and int(c['int']) == k:
                probs.append('int_to_bvector(%d) gave %s' % (k, c['from_int']))
            if c['wt_dense'] != wt:
                probs.append('bsf_wt gave %d, expected %d' % (c['wt_dense'], wt))
            if probs:
                found = True
                rep.violation({'site': 'converter', 'function': probs[0].split(' ')[0]}, 'on the %d-qubit Pauli %r: %s' % (n, s, probs[0]),
                              {'string': s, 'problems': probs})
        if not found:
            rep.violation({'site': 'obligation-conv'}, 'converter obligations do not check: ' + (o + e)[-300:], {'broken': 'conv'}, no_input=True)
    # measure_syndrome on unit vectors = columns of H (ties measure_syndrome/bs_prod to the matrix), small instances
    outdir, idx = cc.run_dump(work, 'quick', ['Toric2DCode', 'Planar2DCode', 'RotatedPlanar2DCode', 'Color666PlanarCode', 'Planar3DCode', 'XCubeCode'])
    for it in idx:
        rec = cc.load(outdir, it['tag'])
        if not rec['ok'] or 'unit_syndromes' not in rec:
            continue
        n = rec['n']
        # history: the object was queried (measure_syndrome etc. on dense and sparse arguments) BEFORE it was deformed
        msd = [d_ for d_ in rec.get('used_then_deformed_diff', []) if d_.startswith('measure_syndrome')]
        if rec.get('deformation'):
            rep.case(('syn_after_deform', rec['tag']), True)
            rep.count('measure_syndrome_used_then_deformed')
            if msd:
                key = dict(cc.inst_key(rec), site='measure_syndrome-history')
                rep.violation(key, '%s: measure_syndrome was used, then the code object was deformed: %s now differs from bs_prod with the '
                              'deformed stabilizer matrix (what a freshly deformed object returns)' % (rec['tag'], ', '.join(msd)),
                              {'instance': key, 'history': ['measure_syndrome(e)', 'deform', 'measure_syndrome(e)'], 'differs': msd})
        rep.case(('unit_syn', rec['tag']), True)
        rep.count('unit_syndromes')
        for j, syn in enumerate(rec['unit_syndromes']):
            exp = [i for i, r in enumerate(rec['H']) if ((j < n and j in r['z']) or (j >= n and (j - n) in r['x']))]
            if syn != exp:
                key = dict(cc.inst_key(rec), site='measure_syndrome')
                rep.violation(key, '%s: measure_syndrome of the unit vector %d flags stabilizers %s, parity-check column gives %s'
                              % (rec['tag'], j, syn, exp), {'instance': key, 'unit': j, 'got': syn, 'expected': exp})
                break


def replay(path, work):
    r = json.load(open(path))
    print(json.dumps(r, indent=1)[:3000])
    return 1
