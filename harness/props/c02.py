"""C02 - parity-check matrix is the faithful image of the lattice definition."""
import json
import os
import subprocess

import codegen
import codes_common as cc
from common import PY, ROOT, driver_env, log, NPROC, coq_Z

CAP = {'quick': 260, 'thorough': 800}
NUSER = {'quick': 80, 'thorough': 400}
PMAP = {'X': 'PX', 'Y': 'PY', 'Z': 'PZ'}


def coord_lit(c):
    return '[' + ';'.join(coq_Z(int(x)) for x in c) + ']%Z'


def coords_lit(cs):
    return '[' + '; '.join(coord_lit(c) for c in cs) + ']'


def op_lit(op):
    """op: list of [qidx, coord, pauli] or [coord, pauli]"""
    items = []
    for it in op:
        coord, p = (it[1], it[2]) if len(it) == 3 else (it[0], it[1])
        items.append('(%s, %s)' % (coord_lit(coord), PMAP[p]))
    return '[' + '; '.join(items) + ']'


def body(rec, uid):
    n = rec['n']
    defs = 'Definition qs_%s : list coord := %s.\n' % (uid, coords_lit(rec['qubits']))
    if rec.get('foreign_key') and not rec['ok']:
        defs = 'Definition qs_%s : list coord := %s.\n' % (uid, coords_lit(rec['given_qubits']))
        defs += 'Definition ops_%s : list opn := [%s].\n' % (uid, ';\n  '.join(op_lit(o) for o in rec['given_ops']))
        return defs, [('rejects_' + uid, 'rejects qs_%s ops_%s' % (uid, uid))]
    defs += 'Definition ss_%s : list coord := %s.\n' % (uid, coords_lit(rec['stab_coords']))
    defs += 'Definition ops_%s : list opn := [%s].\n' % (uid, ';\n  '.join(op_lit(o) for o in rec['stab_ops']))
    defs += 'Definition rows_%s : list bsf := [%s].\n' % (uid, ';\n  '.join(codegen.bsf_lit(r) for r in rec['H']))
    bl = lambda l: '[' + ';'.join('true' if b else 'false' for b in l) + ']'
    hx = '[' + ';'.join('ofl ' + codegen.nlist(r) for r in rec.get('Hx', [])) + ']'
    hz = '[' + ';'.join('ofl ' + codegen.nlist(r) for r in rec.get('Hz', [])) + ']'
    obl = [('faithful_' + uid, 'table_faithful qs_%s ss_%s ops_%s rows_%s %s %s %s %s %s' % (
        uid, uid, uid, uid, bl(rec['x_indices']), bl(rec['z_indices']), 'true' if rec['is_css'] else 'false', hx, hz))]
    for j, rt in enumerate(rec.get('roundtrips', [])):
        if 'op' in rt:
            obl.append(('rt%d_%s' % (j, uid), 'roundtrip_ok qs_%s %s (%s) %s' % (
                uid, op_lit(rt['op']), codegen.bsf_lit(rt['bsf']), op_lit(rt['back']))))
        else:
            obl.append(('fr%d_%s' % (j, uid), 'from_ok qs_%s (%s) %s' % (uid, codegen.bsf_lit(rt['bsf']), op_lit(rt['back']))))
    return defs, obl


def evaluator(rec):
    """independent python restatement, returns list of (clause, detail)"""
    out = []
    if rec.get('foreign_key'):
        if rec['ok']:
            out.append(('foreign_key', 'an operator key outside the qubit set was silently accepted'))
        return out
    if not rec['ok']:
        return [('construct', rec['error'])]
    q = [tuple(c) for c in rec['qubits']]
    s = [tuple(c) for c in rec['stab_coords']]
    n = rec['n']
    if rec.get('half_integer_coordinates'):
        if q != [tuple(c) for c in rec['given_qubits_x2']] or s != [tuple(c) for c in rec['given_stabs_x2']]:
            out.append(('coordinates', 'the code reports qubit/stabilizer coordinates %s... for the half-integer coordinates it was given (x2: %s...)'
                        % (rec['qubits'][:3], rec['given_qubits_x2'][:3])))
    if len(set(q)) != len(q):
        out.append(('distinct_qubits', 'duplicate qubit coordinate'))
    if len(set(s)) != len(s):
        out.append(('distinct_stabilizers', 'duplicate stabilizer coordinate'))
    if set(q) & set(s):
        out.append(('disjoint', 'coordinate %s is both a qubit and a stabilizer' % (sorted(set(q) & set(s))[0],)))
    if not rec.get('qubit_index_ok', True) or not rec.get('stab_index_ok', True):
        out.append(('index', 'qubit_index / stabilizer_index is not the enumeration of the coordinate list'))
    qi = {c: i for i, c in enumerate(q)}
    if len(rec['H']) != len(s) or len(rec['stab_ops']) != len(s):
        out.append(('shape', 'matrix has %d rows for %d stabilizer coordinates' % (len(rec['H']), len(s))))
    for i, (op, row) in enumerate(zip(rec['stab_ops'], rec['H'])):
        ex, ez = set(), set()
        for qidx, coord, p in op:
            if tuple(coord) not in qi:
                out.append(('support', 'stabilizer %d at %s acts on %s which is not a qubit' % (i, s[i], coord)))
                continue
            j = qi[tuple(coord)]
            if p in 'XY':
                ex ^= {j}
            if p in 'YZ':
                ez ^= {j}
        if not op:
            out.append(('nonempty', 'stabilizer coordinate %s (row %d) has an EMPTY support' % (s[i], i)))
        if ex != set(row['x']) or ez != set(row['z']):
            out.append(('row_image', 'row %d of the parity-check matrix is not the image of get_stabilizer(%s)' % (i, s[i])))
        if len(out) > 4:
            break
    xm = [bool(r['x']) for r in rec['H']]
    zm = [bool(r['z']) for r in rec['H']]
    if xm != rec['x_indices'] or zm != rec['z_indices']:
        out.append(('masks', 'x_indices/z_indices are not the masks of rows with X/Z support (%d rows flagged X, %d rows of H '
                             'have X support)' % (sum(rec['x_indices']), sum(xm))))
    css = not any(a and b for a, b in zip(xm, zm))
    if css != rec['is_css']:
        out.append(('is_css', 'is_css reports %s but rows %s mix X and Z' % (rec['is_css'], 'do not' if css else 'do')))
    if rec['is_css'] and css:
        if rec.get('Hx') != [r['x'] for r in rec['H'] if r['x']] or rec.get('Hz') != [r['z'] for r in rec['H'] if r['z']]:
            out.append(('blocks', 'Hx/Hz are not the X/Z blocks of the parity-check matrix'))
    for rt in rec.get('roundtrips', []):
        back = {tuple(c): p for c, p in rt['back']}
        exp = {}
        for j in set(rt['bsf']['x']) | set(rt['bsf']['z']):
            exp[q[j]] = 'Y' if (j in rt['bsf']['x'] and j in rt['bsf']['z']) else ('X' if j in rt['bsf']['x'] else 'Z')
        if back != exp:
            out.append(('from_bsf', 'from_bsf(%s) returned %s' % (rt['bsf'], rt['back'])))
        if 'op' in rt:
            given = {tuple(c): p for _, c, p in rt['op']}
            if given != exp:
                out.append(('to_bsf', 'to_bsf(%s) returned %s' % (given, rt['bsf'])))
    return out


def run(rep, work, tier, seed, only=None):
    rep.rule = ('one case = one code instance (library class x size x deformation x axis, or a random user-defined '
                'StabilizerCode subclass) with its coordinates, get_stabilizer dictionaries, matrix, masks, blocks and 7 '
                'to_bsf/from_bsf round trips; non-trivial = at least 2 qubits and one stabilizer; separate malformed stream: '
                'operator key outside the qubit set; plus byte-identical dumps under 3 interpreter hash seeds')
    rep.trusted += ['drivers/dump_codes.py, drivers/c02_usercodes.py, harness/codegen.py (Python)']
    outdir, idx = cc.run_dump(work, tier, only)
    udir = os.path.join(work, 'user')
    r = subprocess.run([PY, os.path.join(ROOT, 'drivers', 'c02_usercodes.py'), udir, str(NUSER[tier]), str(seed)],
                       env=driver_env(work), capture_output=True, text=True)
    if r.returncode != 0:
        raise RuntimeError('user code driver failed: ' + r.stderr[-3000:])
    uidx = json.load(open(os.path.join(udir, 'INDEX.json')))
    recs = []
    for d, ix in ((outdir, idx), (udir, uidx)):
        for it in ix:
            rec = cc.load(d, it['tag'])
            key = cc.inst_key(rec)
            if rec.get('user'):
                key['cls'] = 'UserCode'
                key['size'] = rec['tag']
            if not rec['ok'] and not rec.get('foreign_key'):
                rep.violation(dict(key, site='construct'), '%s cannot be constructed: %s' % (rec['tag'], rec['error']),
                              {'instance': key, 'error': rec['error']})
                continue
            if rec.get('foreign_key'):
                rep.count('malformed:foreign_key')
                if rec['ok'] or 'KeyError' not in rec.get('error', ''):
                    rep.violation(dict(key, site='foreign_key'), '%s: operator key outside the qubit set was not rejected with '
                                  'KeyError (%s)' % (rec['tag'], rec.get('error')), {'instance': key})
                    continue
            elif rec['n'] > CAP[tier]:
                for clause, detail in evaluator(rec)[:2]:
                    rep.violation(dict(key, site='table', clause=clause), '%s: %s' % (rec['tag'], detail),
                                  {'instance': key, 'clause': clause, 'detail': detail})
                continue
            rec['_key'] = key
            if rec.get('half_integer_coordinates') and (rec['qubits'] != rec['given_qubits_x2'] or rec['stab_coords'] != rec['given_stabs_x2']):
                rep.violation(dict(key, site='table', clause='coordinates'),
                              '%s: a user-defined code with half-integer coordinates reports qubit/stabilizer coordinates (x2) %s..., it was given %s...'
                              % (rec['tag'], rec['qubits'][:3], rec['given_qubits_x2'][:3]),
                              {'instance': key, 'reported_x2': rec['qubits'], 'given_x2': rec['given_qubits_x2'], 'user_code': True})
                continue
            cc.report_hist_diff(rep, rec, key)
            rep.count('user' if rec.get('user') else rec['cls'])
            rep.case(key, rec.get('n', 0) >= 2, sample={'instance': key, 'n': rec.get('n'), 'rows': len(rec.get('H', []))}
                     if rec.get('n', 0) >= 2 else None)
            recs.append(rec)
    groups = cc.batch(recs, lambda r: 0.05 + (r.get('n', 5) / 150.0) ** 2, 3.0)
    log('[C02] %d instances in %d files' % (len(recs), len(groups)))
    hdr = cc.HDR + 'From PQ Require Import Operator.\n'
    res = cc.run_obligation_files(work, 'c02', groups, body, hdr=hdr)
    bytag = {r['tag']: r for r in recs}
    for tag, obs in res.items():
        rec = bytag[tag]
        key = rec['_key']
        for name, v in obs.items():
            rep.oblige(1, 1 if v is True else 0)
            if v is True:
                continue
            found = evaluator(rec)
            if found:
                for clause, detail in found[:2]:
                    rep.violation(dict(key, site='table', clause=clause), '%s: %s' % (tag, detail),
                                  {'instance': key, 'clause': clause, 'detail': detail, 'user_code': rec.get('user', False)})
            else:
                rep.violation(dict(key, site='table', clause='obligation'), '%s: obligation %s not true (%s)' % (tag, name, v),
                              {'instance': key, 'broken': name}, no_input=True)
    # interpreter hash seeds: identical indexing in every process
    sub = ['Toric2DCode', 'Planar3DCode', 'RhombicPlanarCode', 'Color488Code', 'XCubeCode', 'Color3DCode'] if tier == 'quick' else None
    base = {}
    for hs in ('1', '12345'):
        od, ix = cc.run_dump(work, 'quick', sub, hashseed=hs, sub='dump_hs' + hs)
        ref, _ = (outdir, None) if tier == 'quick' else cc.run_dump(work, 'quick', sub, hashseed='0', sub='dump_hs0')
        for it in ix:
            a = open(os.path.join(od, it['tag'] + '.json')).read()
            pb = os.path.join(ref, it['tag'] + '.json')
            rep.case(('hash', hs, it['tag']), True)
            rep.count('hashseed')
            if not os.path.exists(pb) or a != open(pb).read():
                rec = json.loads(a)
                key = dict(cc.inst_key(rec), site='hash-randomisation')
                rep.violation(key, '%s: dump under PYTHONHASHSEED=%s differs from PYTHONHASHSEED=0' % (it['tag'], hs),
                              {'instance': key, 'hashseed': hs})


def replay(path, work):
    r = json.load(open(path))
    print(json.dumps(r, indent=1)[:2500])
    inst = r.get('instance', {})
    if r.get('user_code') or inst.get('cls') == 'UserCode' or 'clause' not in r:
        return 1
    import props.c01 as c01
    # re-dump and re-evaluate
    code = ("import sys, json; sys.path.insert(0, %r)\nimport dump_codes as d\n"
            "size=tuple(int(x) for x in %r.split('x')); dn=%r; ax=%r\n"
            "t=d.dump_instance((%r, size, None if dn=='none' else dn, None if ax=='default' else ax, %r)); print(t[0])\n"
            ) % (os.path.join(ROOT, 'drivers'), inst['size'], inst['deformation'], inst['axis'], inst['cls'], work)
    out = subprocess.run([PY, '-c', code], env=driver_env(work), capture_output=True, text=True)
    rec = cc.load(work, out.stdout.strip().split('\n')[-1])
    f = evaluator(rec)
    for c, d in f:
        print('REPRODUCED:', c, d)
    return 1 if f else 0
