"""C09 - matching is exactly minimum-weight; correctable sets are always corrected."""
import json
import os

import codes_common as cc
import codegen
from common import coqc_many, eval_results
from props.c05 import run_driver, vkey

LEVEL = 'proof'
SLACK = '(1000001 # 1000000)'     # relative 1e-6: PyMatching discretises edge weights


def bl(v):
    return '[' + ';'.join('true' if b else 'false' for b in v) + ']'


def run(rep, work, tier, seed, only=None):
    rep.rule = ('cases: (a) one per (small 2-D lattice, noise direction, noise deformation/axis, rate) setup with marginals < 1/2, every '
                'syndrome of both sectors decoded by the real MatchingDecoder and checked in the kernel against ALL 2^n corrections of '
                'that sector (exact rational odds of the stated channel); (b) one per (decoder, lattice): every Pauli error of weight <= '
                'floor((d-1)/2) (all supports, all X/Y/Z; sampled above 4000 per weight in the quick tier) through matching (toric, planar, '
                'rotated planar, L up to 5/7), union-find (toric) and every single-qubit error through the sweep-match decoders. '
                'non-trivial: syndrome non-zero')
    rep.trusted += ['drivers/c05_decoders.py (mode optimal)', 'PyMatching exercised, not modelled']
    rep.assumptions += ['PARTIAL: optimality is decided per instance by the verified checker (slack 1e-6 for weight discretisation); the '
                        'blossom algorithm and the union-find correction radius are not proved', 'odds come from the stated channel, not '
                        'from the implementation']
    outdir, data = run_driver(work, 'optimal', tier, seed)
    files = []
    for si, r in enumerate(data['optimal']):
        desc = {'cls': r['cls'], 'size': r['size'], 'direction': r['direction'], 'deformation': r['deformation'], 'axis': r['axis'], 'p': r['p']}
        key = {'site': 'matching-optimality', 'cls': r['cls'], 'size': 'x'.join(map(str, r['size'])), 'deformation': r['deformation'] or 'none'}
        if 'error' in r:
            rep.violation(key, 'MatchingDecoder on %s: %s' % (desc, r['error']), {'config': desc, 'trace': r.get('trace')})
            continue
        if not r['marginals_below_half']:
            continue
        n = r['n']
        hdr = (cc.HDR + 'From Coq Require Import QArith.\nFrom PQ Require Import Operator Distance Decoders.\nLocal Open Scope N_scope.\n'
               + 'Definition Hxs : list N := [%s].\nDefinition Hzs : list N := [%s].\n' % (
                   '; '.join('ofl ' + codegen.nlist(h) for h in r['H_x_sector']), '; '.join('ofl ' + codegen.nlist(h) for h in r['H_z_sector']))
               + 'Definition ox : list Q := [%s]%%Q.\nDefinition oz : list Q := [%s]%%Q.\n' % (
                   '; '.join('(%d # %d)' % tuple(o) for o in r['odds_x']), '; '.join('(%d # %d)' % tuple(o) for o in r['odds_z'])))
        lines = [hdr]
        sub = []
        for ci, cse in enumerate(r['cases']):
            nz = any(cse['syn_zpart']) or any(cse['syn_xpart'])
            rep.case(('opt', json.dumps(desc, sort_keys=True), ci), nz,
                     sample=dict(desc, syndrome_z_part=cse['syn_zpart'], x_correction=cse['cx']) if (ci == 5 and len(rep.samples) < 3) else None)
            rep.count('optimality:' + r['cls'])
            et = cse.get('error_type')
            px_ = 'opt_ok %d Hxs ox %s (ofl %s) %s' % (n, bl(cse['syn_zpart']), codegen.nlist(cse['cx']), SLACK)
            pz_ = 'opt_ok %d Hzs oz %s (ofl %s) %s' % (n, bl(cse['syn_xpart']), codegen.nlist(cse['cz']), SLACK)
            if et == 'X':     # one-sector decoder: its sector optimal, nothing in the other block
                pz_ = 'N.eqb (ofl %s) 0' % codegen.nlist(cse['cz'])
            elif et == 'Z':
                px_ = 'N.eqb (ofl %s) 0' % codegen.nlist(cse['cx'])
            lines.append('Eval vm_compute in %s && %s.\n' % (px_, pz_))
            sub.append((r, desc, key, cse))
        f = os.path.join(work, 'c09_%03d.v' % si)
        open(f, 'w').write(''.join(lines))
        files.append((f, sub))
    res = coqc_many([f for f, _ in files], timeout=1500)
    from fractions import Fraction
    for f, sub in files:
        rc, o, e, dt = res[f]
        vals = eval_results(o)
        if rc != 0 or len(vals) != len(sub):
            raise RuntimeError('c09 cases did not evaluate: ' + (o + e)[-1500:])
        for (r, desc, key, cse), v in zip(sub, vals):
            ok = v.startswith('true')
            rep.oblige(1, 1 if ok else 0)
            rep.traces += 1
            if ok:
                continue
            n = r['n']
            what = None
            better = None
            et = cse.get('error_type')
            for sect, H, odds, syn, corr in (('X', r['H_x_sector'], r['odds_x'], cse['syn_zpart'], cse['cx']),
                                             ('Z', r['H_z_sector'], r['odds_z'], cse['syn_xpart'], cse['cz'])):
                if et and sect != et:
                    if corr:
                        what = "the decoder built with error_type='%s' returned %s components on qubits %s" % (et, sect, corr)
                        break
                    continue
                od = [Fraction(*o_) for o_ in odds]
                sy = lambda x: [sum(1 for j in h if (x >> j) & 1) % 2 for h in H]
                cint = sum(1 << q for q in corr)
                if sy(cint) != syn:
                    what = 'the %s-correction on qubits %s does not reproduce its sector syndrome' % (sect, corr)
                    break
                pr = lambda x: _prod(od, x, n)
                pc = pr(cint)
                best, bx_ = pc, None
                for x in range(2 ** n):
                    if sy(x) == syn:
                        px = pr(x)
                        if px > best:
                            best, bx_ = px, x
                if bx_ is not None and best > pc * Fraction(1000001, 1000000):
                    better = [q for q in range(n) if (bx_ >> q) & 1]
                    what = ('in the %s sector the decoder returned flips on %s (likelihood odds %.6g) but flips on %s have the same syndrome and '
                            'odds %.6g: not a minimum-weight correction' % (sect, corr, float(pc), better, float(best)))
                    break
            rep.violation(key, 'MatchingDecoder (%sdecoder #%d built from the same code, noise-model object and rate) on %s, error X%s Z%s: %s'
                          % (("error_type='%s', " % et) if et else '', cse.get('decoder_built', 1), desc, cse['ex'], cse['ez'], what or 'opt_ok false'),
                          {'config': desc, 'decoder_built': cse.get('decoder_built', 1), 'error': {'x': cse['ex'], 'z': cse['ez']},
                           'returned': {'x': cse['cx'], 'z': cse['cz']}, 'better': better},
                          no_input=what is None)
    for r in data['correctable']:
        desc = {'decoder': r['decoder'], 'cls': r['cls'], 'size': r['size'], 'd': r.get('d'), 't': r.get('t')}
        rep.case(('correctable', json.dumps(desc, sort_keys=True)), True, sample=dict(desc, errors=r['n_errors']) if len(rep.samples) < 6 else None)
        rep.evaluations += max(0, r['n_errors'] - 1)
        rep.count('correctable:' + r['decoder'], r['n_errors'])
        k = vkey(dict(r, deformation=None), 'correctable', 'syndrome' if r['decoder'] == 'UnionFindDecoder' else 'correctable')
        if r.get('error'):
            rep.violation(k, '%s on %s%s raised %s' % (r['decoder'], r['cls'], tuple(r['size']), r['error']), {'config': desc})
        for fl in r['fails'][:2]:
            rep.violation(k, '%s on %s%s (d=%s): the weight-%d error X%s Z%s is not corrected (correction X%s Z%s leaves a logical error or a syndrome)'
                          % (r['decoder'], r['cls'], tuple(r['size']), r.get('d'), len(set(fl['error']['x']) | set(fl['error']['z'])),
                             fl['error']['x'], fl['error']['z'], fl['correction']['x'], fl['correction']['z']), {'config': desc, 'error': fl['error']})


def _prod(od, x, n):
    from fractions import Fraction
    p = Fraction(1)
    for q in range(n):
        if (x >> q) & 1:
            p *= od[q]
    return p


def replay(path, work):
    print(open(path).read()[:3000])
    return 1
