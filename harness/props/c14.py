"""C14 - parallel runs execute exactly the requested trials per input."""
import json
import os
import subprocess

from common import PY, ROOT, driver_env, coqc_many, eval_results, CASE_HEADER


def run(rep, work, tier, seed, only=None):
    rep.rule = ('one case = one configuration (inputs I, nodes N, cores C, trials T) with N*C >= I and T >= tasks per input, all job '
                'indices 1..N run through the real run_parallel with Process/cpu_count replaced; small grid exhaustively + random '
                'large configurations. non-trivial = more than one task; distinct by (I,N,C,T)')
    rep.trusted += ['drivers/c14_parallel.py: captures (input file, result file, n_runs) of every process run-parallel would start']
    out = os.path.join(work, 'c14.json')
    r = subprocess.run([PY, os.path.join(ROOT, 'drivers', 'c14_parallel.py'), out, tier, str(seed)],
                       env=driver_env(work), capture_output=True, text=True)
    if r.returncode != 0:
        raise RuntimeError('c14 driver failed: ' + r.stderr[-3000:])
    data = json.load(open(out))
    files = []
    per = 80
    good = []
    for c in data:
        I, N, C, T = c['I'], c['N'], c['C'], c['T']
        key = {'site': 'run_parallel', 'config': 'I=%d N=%d C=%d T=%d' % (I, N, C, T)}
        rep.case((I, N, C, T), N * C > 1, sample={'inputs': I, 'nodes': N, 'cores': C, 'trials': T} if len(rep.samples) < 4 else None)
        rep.count('tasks', N * C)
        if c['error']:
            rep.violation(key, 'run_parallel raised for I=%d N=%d C=%d T=%d: %s' % (I, N, C, T, c['error']),
                          {'I': I, 'N': N, 'C': C, 'T': T, 'error': c['error']})
            continue
        de = c.get('delete_existing')
        if de:
            rep.case(('delete-existing', I, N, C, T), True)
            rep.count('delete_existing_sequences')
            if de['error'] or de['missing'] or not de['same_tasks']:
                what = ('raised %s' % de['error']) if de['error'] else \
                    ('the result files %s written by earlier nodes are gone after the later nodes started' % de['missing'][:4]) if de['missing'] \
                    else 'launches other tasks than without the flag'
                rep.violation(dict(key, option='delete-existing'),
                              'I=%d N=%d C=%d T=%d with --delete-existing, nodes 1..N started one after the other on one results directory: %s'
                              % (I, N, C, T, what), {'I': I, 'N': N, 'C': C, 'T': T, 'option': '--delete-existing', 'detail': de})
        tasks = c['tasks']
        names = [t[1] for t in tasks]
        width = len(str(N * C))
        expn = ['results_%s.json.gz' % str(i + 1).zfill(width) for i in range(N * C)]
        if names != expn:
            rep.violation(key, 'result files for I=%d N=%d C=%d are %s..., expected one distinct file per task %s...'
                          % (I, N, C, names[:3], expn[:3]), {'I': I, 'N': N, 'C': C, 'T': T, 'files': names})
            continue
        if any(t[2] < 1 for t in tasks):
            bad = [t for t in tasks if t[2] < 1][0]
            rep.violation(key, 'I=%d inputs, N=%d nodes x C=%d cores, T=%d trials: task writing %s gets %d trials'
                          % (I, N, C, T, bad[1], bad[2]), {'I': I, 'N': N, 'C': C, 'T': T, 'launched': tasks})
            continue
        good.append(c)
    for ci in range(0, len(good), per):
        sub = good[ci:ci + per]
        lines = [CASE_HEADER, 'From PQ Require Import Parallel.\nLocal Open Scope N_scope.\n']
        for c in sub:
            lines.append('Eval vm_compute in plan_eqb (plan %d %d %d) [%s].\n' % (
                c['I'], c['N'] * c['C'], c['T'], '; '.join('(%d, %d)' % (t[0], t[2]) for t in c['tasks'])))
        f = os.path.join(work, 'c14_%03d.v' % (ci // per))
        open(f, 'w').write(''.join(lines))
        files.append((f, sub))
    res = coqc_many([f for f, _ in files])
    for f, sub in files:
        rc, o, e, dt = res[f]
        vals = eval_results(o)
        if rc != 0 or len(vals) != len(sub):
            raise RuntimeError('c14 cases did not evaluate: ' + (o + e)[-1500:])
        for c, v in zip(sub, vals):
            ok = v.startswith('true')
            rep.oblige(1, 1 if ok else 0)
            rep.traces += 1
            if ok:
                continue
            I, N, C, T = c['I'], c['N'], c['C'], c['T']
            per_input = {}
            for t in c['tasks']:
                per_input[t[0]] = per_input.get(t[0], 0) + t[2]
            key = {'site': 'run_parallel', 'config': 'I=%d N=%d C=%d T=%d' % (I, N, C, T)}
            probs = []
            if sorted(per_input) != list(range(I)) or any(v != T for v in per_input.values()):
                probs.append('total trials per input are %s (requested %d each for %d inputs)' % (per_input, T, I))
            if any(t[2] < 1 for t in c['tasks']):
                probs.append('a task gets %d trials' % min(t[2] for t in c['tasks']))
            if probs:
                rep.violation(key, 'I=%d inputs, N=%d nodes x C=%d cores, T=%d trials: %s' % (I, N, C, T, '; '.join(probs)),
                              {'I': I, 'N': N, 'C': C, 'T': T, 'launched': c['tasks'], 'problems': probs})
            else:
                rep.violation(key, 'I=%d N=%d C=%d T=%d: launched plan differs from the model plan although totals are right'
                              % (I, N, C, T), {'I': I, 'N': N, 'C': C, 'T': T, 'launched': c['tasks'], 'broken': 'plan correspondence'},
                              no_input=True)


def replay(path, work):
    r = json.load(open(path))
    print(json.dumps({k: v for k, v in r.items() if k != 'launched'}, indent=1))
    code = ("import sys; sys.path.insert(0,%r)\nimport c14_parallel as d\n"
            "t,e=d.launched(%d,%d,%d,%d)\nper={}\n"
            "for a in t: per[a[0]]=per.get(a[0],0)+a[2]\nprint('error',e,'per input totals',per,'min trials',min(a[2] for a in t) if t else None)\n"
            ) % (os.path.join(ROOT, 'drivers'), r['I'], r['N'], r['C'], r['T'])
    o = subprocess.run([PY, '-c', code], env=driver_env(work), capture_output=True, text=True)
    print(o.stdout, o.stderr[-500:])
    return 1
