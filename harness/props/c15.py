"""C15 - analysis aggregates are conserved however results are split."""
import json
import math
import os
import subprocess

from common import PY, ROOT, driver_env, coqc_many, eval_results

HDR = ('From Coq Require Import Arith List Bool.\nImport ListNotations.\nFrom PQ Require Import Analysis.\nLocal Open Scope nat_scope.\n')


def tl(trials):
    b = lambda x: 'true' if x else 'false'
    return '[' + '; '.join('T [%s] %s %s' % (';'.join(b(e) for e in t['eff']), b(t['succ']), b(t['cs'])) for t in trials) + ']'


def run(rep, work, tier, seed, only=None):
    rep.rule = ('one case = one (multiset of trials for 1-4 keys, random split over 1-5 containers of kinds json/gz/zip with merged lists, '
                'repeated runs, nested directories; Analysis given the root, a list of paths in either order, or a list of directories); 3-5 '
                'different splits of the same multiset. non-trivial = more than one container or chunk')
    rep.trusted += ['drivers/c15_analysis.py fabricates results files with real recorded inputs and arbitrary effective-error / codespace '
                    'patterns; pandas groupby is exercised, not modelled']
    rep.assumptions += ['float columns compared with 1e-12 tolerance against the exact rational / closed form']
    out = os.path.join(work, 'c15.json')
    r = subprocess.run([PY, os.path.join(ROOT, 'drivers', 'c15_analysis.py'), out, tier, str(seed)],
                       env=driver_env(work), capture_output=True, text=True)
    if r.returncode != 0:
        raise RuntimeError('c15 driver failed: ' + r.stderr[-3000:])
    data = json.load(open(out))
    lines = [HDR]
    todo = []
    for a in data:
        desc = {'mode': a['mode'], 'containers': a['kinds'], 'chunks': a['n_chunks'], 'keys': len(a['pool']),
                'trials_per_key': [len(p['trials']) for p in a['pool']]}
        rep.case(('split', a['set'], a['partition']), a['n_chunks'] > 1, sample=desc if len(rep.samples) < 4 else None)
        rep.count('mode:' + a['mode'])
        for kd in a['kinds']:
            rep.count('container:' + kd)
        key = {'site': 'Analysis', 'mode': a['mode']}
        if 'error' in a:
            rep.violation(key, 'Analysis raised %s on a %s split' % (a['error'], desc), {'split': desc, 'error': a['error'], 'trace': a.get('trace')})
            continue
        rows = {rw['key']: rw for rw in a['rows']}
        if len(rows) != len(a['rows']) or set(rows) != set(p['key'] for p in a['pool']):
            rep.violation(key, 'Analysis reports %d rows for %d distinct (code, noise, decoder, rate) keys' % (len(a['rows']), len(a['pool'])),
                          {'split': desc})
            continue
        for p in a['pool']:
            rw = rows[p['key']]
            k = p['k']
            lines.append('Eval vm_compute in counts_ok %d %s %d %d %d %d %d.\n' % (
                k, tl(p['trials']), rw['n_trials'], rw['n_fail'], rw['n_cs'], rw['n_fail_X'], rw['n_fail_Z']))
            todo.append((a, p, rw, desc))
            # float columns (Python, exact expectations from the pooled multiset)
            nt = len(p['trials'])
            nf = sum(1 for t in p['trials'] if not t['succ'])
            probs = []
            pe = nf / nt
            if abs(rw['p_est'] - pe) > 1e-12:
                probs.append('p_est=%r, n_fail/n_trials=%d/%d' % (rw['p_est'], nf, nt))
            se = math.sqrt(pe * (1 - pe) / (nt + 1))
            if abs(rw['p_se'] - se) > 1e-12:
                probs.append('p_se=%r, sqrt(p(1-p)/(n+1))=%r' % (rw['p_se'], se))
            pw = 1 - (1 - pe) ** (1 / k)
            if abs(rw['p_word_est'] - pw) > 1e-12:
                probs.append('p_word_est=%r, 1-(1-p)^(1/k)=%r' % (rw['p_word_est'], pw))
            if pe < 1:
                pws = (1 / k) * (1 - pe) ** (1 / k - 1) * se
                if abs(rw['p_word_se'] - pws) > 1e-12:
                    probs.append('p_word_se=%r, expected %r' % (rw['p_word_se'], pws))
            if rw['len_success'] != nt or rw['len_eff'] != nt:
                probs.append('pooled lists have lengths %d/%d for %d trials' % (rw['len_success'], rw['len_eff'], nt))
            for i in range(k):
                for kind, nm in enumerate(['any', 'X', 'Y', 'Z']):
                    cnt = 0
                    for t in p['trials']:
                        x, z = t['eff'][i], t['eff'][k + i]
                        cnt += {0: int(bool(x or z)), 1: int(x == 1 and z == 0), 2: int(x == 1 and z == 1), 3: int(x == 0 and z == 1)}[kind]
                    est = cnt / nt
                    ses = math.sqrt(est * (1 - est) / (nt + 1))
                    if abs(rw['sq_est'][i][kind] - est) > 1e-12:
                        probs.append('single-qubit rate (logical %d, %s) = %r, expected %d/%d' % (i, nm, rw['sq_est'][i][kind], cnt, nt))
                    if abs(rw['sq_se'][i][kind] - ses) > 1e-12:
                        probs.append('single-qubit standard error (logical %d, %s) = %r, its own standard error is %r'
                                     % (i, nm, rw['sq_se'][i][kind], ses))
            rep.oblige(1, 0 if probs else 1)
            if probs:
                rep.violation(dict(key, clause='formulas'), 'split %s: %s' % (desc, '; '.join(probs[:2])),
                              {'split': desc, 'key': json.loads(p['key']), 'problems': probs, 'n_trials': nt, 'n_fail': nf})
    f = os.path.join(work, 'c15_cases.v')
    open(f, 'w').write(''.join(lines))
    rc, o, e, dt = coqc_many([f])[f]
    vals = eval_results(o)
    if rc != 0 or len(vals) != len(todo):
        raise RuntimeError('c15 cases did not evaluate: ' + (o + e)[-2000:])
    for (a, p, rw, desc), v in zip(todo, vals):
        ok = v.startswith('true')
        rep.oblige(1, 1 if ok else 0)
        rep.traces += 1
        if ok:
            continue
        k = p['k']
        tr = p['trials']
        exp = {'n_trials': len(tr), 'n_fail': sum(1 for t in tr if not t['succ']), 'n_cs': sum(1 for t in tr if t['cs']),
               'n_fail_X': sum(sum(t['eff'][:k]) for t in tr if t['cs']), 'n_fail_Z': sum(sum(t['eff'][k:]) for t in tr if t['cs'])}
        diff = {kk: (rw[kk], vv) for kk, vv in exp.items() if rw[kk] != vv}
        rep.violation({'site': 'Analysis', 'mode': a['mode'], 'clause': 'counts'},
                      'split %s: analysis reports %s, the pooled multiset of trials has %s'
                      % (desc, {kk: v_[0] for kk, v_ in diff.items()}, {kk: v_[1] for kk, v_ in diff.items()}),
                      {'split': desc, 'key': json.loads(p['key']), 'reported_vs_expected': diff, 'trials': tr}, no_input=not diff)


def replay(path, work):
    print(open(path).read()[:3000])
    return 1
