"""C19 - generated input files cover exactly the requested parameter grid."""
import json
import math
import os
import subprocess
from fractions import Fraction

from common import PY, ROOT, driver_env, coqc_many, eval_results

HDR = ('From Coq Require Import QArith ZArith List Bool.\nImport ListNotations.\nFrom PQ Require Import GenInput.\nLocal Open Scope Q_scope.\n')


def qd(s):
    f = Fraction(s)
    return '(%d # %d)' % (f.numerator, f.denominator)


def qf(x):
    f = Fraction(float(x))
    return '(%d # %d)' % (f.numerator, f.denominator)


def model_range_py(spec):
    if ':' in spec:
        parts = spec.split(':')
        mn, mx = Fraction(parts[0]), Fraction(parts[1])
        st = Fraction(parts[2]) if len(parts) == 3 else Fraction('0.005')
        n = math.floor((mx - mn) / st + Fraction(1, 10 ** 9))
        return [min(mn + st * i, mx) for i in range(n + 1)]
    if ',' in spec:
        return [Fraction(str(float(s))) if False else Fraction(float(s)) for s in spec.split(',')]
    return [Fraction(float(spec))]


def eta_values(s):
    out = []
    for t in s.split(','):
        t = t.strip()
        if t == 'inf':
            out.append(('inf', None))
        elif float(t) % 1 == 0:
            out.append((str(int(float(t))), Fraction(int(float(t)))))
        else:
            out.append((str(float(t)), Fraction(t)))
    return out


def run(rep, work, tier, seed, only=None):
    rep.rule = ('cases: (a) one per min:max:step / list / single probability spec on a decimal grid (plus an off-grid stream); (b) one per '
                'generate-input invocation (size lists 2-D/3-D, bias X/Y/Z, eta lists incl. inf, deformation names, methods, labels), run in '
                'one process in sequences that repeat (bias, eta) with and without a deformation; files are read back by read_input_json. '
                'non-trivial: (a) more than one value, (b) always')
    rep.trusted += ['drivers/c19_geninput.py (click CliRunner); decimal strings parsed exactly with fractions.Fraction']
    rep.assumptions += ['rates compared to the exact rational progression to 1e-12 (float representation of decimals)']
    out = os.path.join(work, 'c19.json')
    r = subprocess.run([PY, os.path.join(ROOT, 'drivers', 'c19_geninput.py'), out, tier, str(seed)],
                       env=driver_env(work), capture_output=True, text=True)
    if r.returncode != 0:
        raise RuntimeError('c19 driver failed: ' + r.stderr[-3000:])
    data = json.load(open(out))
    lines = [HDR]
    todo = []

    def add(expr, info):
        lines.append('Eval vm_compute in (%s).\n' % expr)
        todo.append(info)

    def range_expr(spec, vals):
        parts = spec.split(':')
        st = parts[2] if len(parts) == 3 else '0.005'
        return 'rates_ok %s %s %s [%s]' % (qd(parts[0]), qd(parts[1]), qd(st), '; '.join(qf(v) for v in vals))

    for rg in data['ranges']:
        sp = rg['spec']
        nv = len(rg.get('vals', []))
        rep.case(('range', sp), nv > 1, sample={'prob_spec': sp, 'n_values': nv} if len(rep.samples) < 2 else None)
        rep.count('range' if ':' in sp else 'list')
        if 'error' in rg:
            rep.violation({'site': 'read_range_input'}, 'read_range_input(%r) raised %s' % (sp, rg['error']), {'prob_spec': sp})
            continue
        if ':' in sp:
            add(range_expr(sp, rg['vals']), ('range', rg))
        else:
            exp = [float(x) for x in model_range_py(sp)]
            rep.oblige(1, 1 if exp == rg['vals'] else 0)
            if exp != rg['vals']:
                rep.violation({'site': 'read_range_input'}, 'read_range_input(%r) = %s' % (sp, rg['vals']), {'prob_spec': sp, 'got': rg['vals']})
    for inv in data['invocations']:
        a = inv['args']
        rep.case(('inv', json.dumps(a, sort_keys=True)), True, sample={'invocation': a} if len(rep.samples) < 4 else None)
        rep.count('invocation')
        key = {'site': 'generate-input'}
        if inv['exit'] != 0:
            rep.violation(key, 'generate-input %s exited %s: %s' % (a, inv['exit'], inv['exception']), {'args': a})
            continue
        etas = eta_values(a['eta'])
        label = a['label'] or 'experiment'
        names = sorted(('%s_eta-%s.json' % (label, e[0])) if len(etas) > 1 else ('%s.json' % label) for e in etas)
        got = sorted(f['name'] for f in inv['files'])
        if len(inv['files']) != len(etas) or len(set(got)) != len(etas):
            rep.violation(key, 'generate-input with %d bias ratios (%s) wrote %d specification files %s: each bias ratio must keep its own'
                          % (len(etas), a['eta'], len(inv['files']), got), {'args': a, 'files': got})
            continue
        sizes = []
        for s in a['sizes'].split(','):
            L = s.split('x')
            sizes.append({'L_x': int(L[0]), 'L_y': int(L[1]) if len(L) >= 2 else int(L[0]), 'L_z': int(L[2]) if len(L) == 3 else int(L[0])})
        rates = model_range_py(a['prob'])
        used = set()
        for f in inv['files']:
            rg = f['json'].get('ranges', {})
            em = rg.get('error_model', {}).get('parameters', {})
            problems = []
            # which eta is this file?  match by direction
            match = None
            for ei, (estr, ev) in enumerate(etas):
                rb = Fraction(1) if ev is None else ev / (1 + ev)
                ro = (1 - rb) / 2
                exp = {'X': (rb, ro, ro), 'Y': (ro, rb, ro), 'Z': (ro, ro, rb)}[a['bias']]
                try:
                    if all(abs(Fraction(float(em['r_' + ax])) - e_) < Fraction(1, 10 ** 12) for ax, e_ in zip('xyz', exp)) and ei not in used:
                        match = ei
                        break
                except Exception:
                    pass
            if match is None:
                problems.append('noise direction %s matches none of the requested bias ratios %s on axis %s'
                                % ({k: em.get(k) for k in ('r_x', 'r_y', 'r_z')}, a['eta'], a['bias']))
            else:
                used.add(match)
                ev = etas[match][1]
                add('direction_ok %s %s %s %s %s' % ('B' + a['bias'], 'None' if ev is None else '(Some (%d # %d))' % (ev.numerator, ev.denominator),
                                                     qf(em['r_x']), qf(em['r_y']), qf(em['r_z'])), ('direction', inv, f))
                s3 = float(em['r_x']) + float(em['r_y']) + float(em['r_z'])
                if abs(s3 - 1) > 1e-12:
                    problems.append('direction sums to %r' % s3)
            if em.get('deformation_name') != a['deformation'] and not (a['deformation'] is None and 'deformation_name' not in em):
                problems.append("noise deformation_name is %r, requested %r" % (em.get('deformation_name'), a['deformation']))
            if rg.get('code', {}).get('name') != a['code'] or rg.get('code', {}).get('parameters') != sizes:
                problems.append('code %s / sizes %s, requested %s %s' % (rg.get('code', {}).get('name'), rg.get('code', {}).get('parameters'), a['code'], sizes))
            if rg.get('decoder', {}).get('name') != a['decoder']:
                problems.append('decoder %s, requested %s' % (rg.get('decoder', {}).get('name'), a['decoder']))
            if rg.get('method', {}).get('name') != a['method']:
                problems.append('method %s' % rg.get('method'))
            er = rg.get('error_rate', [])
            if ':' in a['prob']:
                add(range_expr(a['prob'], er), ('rates', inv, f))
            elif [float(x) for x in rates] != er:
                problems.append('error rates %s, requested %s' % (er, a['prob']))
            if 'read_error' in f:
                problems.append('read_input_json failed: ' + f['read_error'])
            if 'sims' in f:
                exp_n = len(sizes) * len(er)
                sims = f['sims']
                if len(sims) != exp_n:
                    problems.append('%d simulations read back, sizes x rates = %d' % (len(sims), exp_n))
                else:
                    k = 0
                    for sz in sizes:
                        for rt in er:
                            s = sims[k]
                            k += 1
                            if s[0] != a['code'] or s[1].get('L_x') != sz['L_x'] or s[1].get('L_y') != sz['L_y'] or abs(s[4] - rt) > 0 \
                                    or s[3] != a['decoder'] or s[2].get('deformation_name') != a['deformation']:
                                problems.append('simulation %d read back as %s, expected size %s rate %s deformation %s' % (k - 1, s, sz, rt, a['deformation']))
                                break
                        else:
                            continue
                        break
            rep.oblige(1, 0 if problems else 1)
            if problems:
                rep.violation(key, 'generate-input %s -> %s: %s' % ({k: v for k, v in a.items() if v is not None}, f['name'], '; '.join(problems[:2])),
                              {'args': a, 'file': f['name'], 'problems': problems, 'json': f['json']})
    fn = os.path.join(work, 'c19_cases.v')
    open(fn, 'w').write(''.join(lines))
    rc, o, e, dt = coqc_many([fn])[fn]
    vals = eval_results(o)
    if rc != 0 or len(vals) != len(todo):
        raise RuntimeError('c19 cases did not evaluate: ' + (o + e)[-2000:])
    for info, v in zip(todo, vals):
        ok = v.startswith('true')
        rep.oblige(1, 1 if ok else 0)
        rep.traces += 1
        if ok:
            continue
        if info[0] == 'range':
            rg = info[1]
            exp = [float(x) for x in model_range_py(rg['spec'])]
            rep.violation({'site': 'read_range_input'},
                          'prob spec %r gives %d values ending at %r; the arithmetic progression from min to max inclusive has %d values '
                          'ending at %r' % (rg['spec'], len(rg['vals']), rg['vals'][-1] if rg['vals'] else None, len(exp), exp[-1]),
                          {'prob_spec': rg['spec'], 'got': rg['vals'], 'expected': exp})
        elif info[0] == 'rates':
            inv, f = info[1], info[2]
            er = f['json']['ranges']['error_rate']
            exp = [float(x) for x in model_range_py(inv['args']['prob'])]
            rep.violation({'site': 'generate-input'}, 'generate-input --prob %s wrote %d error rates ending at %r, expected %d ending at %r'
                          % (inv['args']['prob'], len(er), er[-1] if er else None, len(exp), exp[-1]), {'args': inv['args'], 'got': er, 'expected': exp})
        else:
            inv, f = info[1], info[2]
            rep.violation({'site': 'generate-input'}, 'generate-input %s: direction %s does not match the bias' %
                          (inv['args'], f['json']['ranges']['error_model']['parameters']), {'args': inv['args']})


def replay(path, work):
    print(open(path).read()[:3000])
    return 1
