"""Untrusted GF(2) helpers (Python big-int bitsets).  Used to FIND certificates and replays;
everything found here is re-checked by verified checkers inside Coq or by the property
evaluators, so a bug here can make a check fail but not pass."""


def rows_to_int(idx):
    v = 0
    for i in idx:
        v ^= (1 << i)
    return v


def bits(v):
    out = []
    i = 0
    while v:
        if v & 1:
            out.append(i)
        v >>= 1
        i += 1
    return out


def popcount(v):
    return bin(v).count('1')


def sp(a, b, n):
    """symplectic product of 2n-bit vectors [x | z] stored as x + (z << n)."""
    mask = (1 << n) - 1
    ax, az = a & mask, a >> n
    bx, bz = b & mask, b >> n
    return (popcount(ax & bz) + popcount(az & bx)) & 1


def omega(v, n):
    """swap X and Z halves: sp(a,b) = dot(a, omega(b))"""
    mask = (1 << n) - 1
    return ((v & mask) << n) | (v >> n)


def dot(a, b):
    return popcount(a & b) & 1


def independent_subset(rows):
    """Greedy: indices of a maximal independent subset, and for every row its expression as a
    set (bitmask over chosen positions) of chosen rows."""
    basis = []   # (pivot_bit, reduced_vec, combo_mask over chosen)
    chosen = []
    exprs = []
    for i, r in enumerate(rows):
        v, m = r, 0
        for (pb, bv, bm) in basis:
            if (v >> pb) & 1:
                v ^= bv
                m ^= bm
        if v:
            pb = v.bit_length() - 1
            pos = len(chosen)
            chosen.append(i)
            m ^= (1 << pos)
            # keep basis fully reduced w.r.t. new pivot for determinism
            basis.append((pb, v, m))
            exprs.append(1 << pos)
        else:
            exprs.append(m)
    return chosen, exprs


def rank(rows):
    return len(independent_subset(rows)[0])


def solve(A_rows, ncols, rhs_bits):
    """Solve A x = b over GF(2); A_rows list of ints (ncols bits), rhs list of 0/1.
    Returns x (int) or None."""
    aug = [(r | (b << ncols)) for r, b in zip(A_rows, rhs_bits)]
    piv = []
    rows = aug[:]
    r = 0
    for c in range(ncols):
        p = None
        for i in range(r, len(rows)):
            if (rows[i] >> c) & 1:
                p = i
                break
        if p is None:
            continue
        rows[r], rows[p] = rows[p], rows[r]
        for i in range(len(rows)):
            if i != r and (rows[i] >> c) & 1:
                rows[i] ^= rows[r]
        piv.append(c)
        r += 1
        if r == len(rows):
            break
    for i in range(r, len(rows)):
        if rows[i] >> ncols:
            return None
    x = 0
    for i, c in enumerate(piv):
        if rows[i] >> ncols:
            x |= (1 << c)
    return x


def solve_multi(A_rows, ncols, nrhs_identity_rows):
    """For the first `nrhs_identity_rows` rows i of A, solve A x_i = e_i simultaneously.
    Returns list of x_i or None."""
    m = len(A_rows)
    t = nrhs_identity_rows
    aug = [A_rows[i] | ((1 << (ncols + i)) if i < t else 0) for i in range(m)]
    rows = aug[:]
    piv = []
    r = 0
    for c in range(ncols):
        p = None
        for i in range(r, m):
            if (rows[i] >> c) & 1:
                p = i
                break
        if p is None:
            continue
        rows[r], rows[p] = rows[p], rows[r]
        for i in range(m):
            if i != r and (rows[i] >> c) & 1:
                rows[i] ^= rows[r]
        piv.append(c)
        r += 1
        if r == m:
            break
    for i in range(r, m):
        if rows[i] >> ncols:
            return None
    xs = []
    for j in range(t):
        x = 0
        for i, c in enumerate(piv):
            if (rows[i] >> (ncols + j)) & 1:
                x |= (1 << c)
        xs.append(x)
    return xs


def find_certificate(H, LX, LZ, n):
    """H, LX, LZ: lists of 2n-bit ints [x | z<<n].  Returns dict(gen_idx, dest) or raises
    ValueError with a reason (the reason is only a hint; Coq decides)."""
    chosen, _ = independent_subset(H)
    G = [H[i] for i in chosen]
    k = len(LX)
    if len(G) + k != n:
        raise ValueError('rank %d + k %d != n %d' % (len(G), k, n))
    B = G + LX + LZ
    A = [omega(b, n) for b in B]      # dot(omega(b), d) = sp(b, d)
    D = solve_multi(A, 2 * n, len(G))
    if D is None:
        raise ValueError('no destabilizers (generators/logicals dependent)')
    for j in range(len(D)):
        for i in range(j):
            if sp(D[i], D[j], n):
                D[j] ^= G[i]
    return {'gen_idx': chosen, 'dest': D}


def kernel_basis(rows, ncols):
    """Basis of {x : rows . x = 0}."""
    # eliminate
    rs = rows[:]
    piv = []
    r = 0
    for c in range(ncols):
        p = None
        for i in range(r, len(rs)):
            if (rs[i] >> c) & 1:
                p = i
                break
        if p is None:
            continue
        rs[r], rs[p] = rs[p], rs[r]
        for i in range(len(rs)):
            if i != r and (rs[i] >> c) & 1:
                rs[i] ^= rs[r]
        piv.append(c)
        r += 1
        if r == len(rs):
            break
    pivset = set(piv)
    basis = []
    for f in range(ncols):
        if f in pivset:
            continue
        x = 1 << f
        for i, c in enumerate(piv):
            if (rs[i] >> f) & 1:
                x |= (1 << c)
        basis.append(x)
    return basis
