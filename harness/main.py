"""CLI: ./check Cxx --tier quick|thorough [--replay file]"""
import argparse
import importlib
import os
import sys
import traceback

sys.path.insert(0, os.path.dirname(os.path.abspath(__file__)))
import common  # noqa: E402


def main():
    ap = argparse.ArgumentParser()
    ap.add_argument('pid')
    ap.add_argument('--tier', default=os.environ.get('VERIF_TIER', 'quick'), choices=['quick', 'thorough'])
    ap.add_argument('--replay', default=None)
    a = ap.parse_args()
    seed = int(os.environ.get('VERIF_SEED', '20260928'))
    mod = importlib.import_module('props.' + a.pid.lower())
    level = getattr(mod, 'LEVEL', 'proof')
    rep = common.Reporter(a.pid, a.tier, seed, level)
    work = common.mkwork(a.pid)
    try:
        if a.replay:
            rc = mod.replay(a.replay, work)
            sys.exit(rc)
        try:
            if common.standard_preamble(rep, work, a.pid):
                mod.run(rep, work, a.tier, seed)
        except Exception:
            tb = traceback.format_exc()
            common.log(tb)
            rep.violation({'site': 'harness-exception'}, 'check machinery raised: ' + tb.strip().split('\n')[-1],
                          {'broken': 'harness', 'trace': tb[-4000:]}, no_input=True)
        sys.exit(rep.finish())
    finally:
        common.rmwork(work)


if __name__ == '__main__':
    main()
