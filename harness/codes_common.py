"""Shared pipeline for the properties decided on dumped code tables (C01 C02 C04 C08 C17)."""
import json
import os
import subprocess

import codegen
import gf2
from common import PY, ROOT, coqc_many, driver_env, eval_results, log, NPROC

HDR = ('From Coq Require Import NArith ZArith List Bool.\nImport ListNotations.\n'
       'From PQ Require Import Bits Pauli Code.\nLocal Open Scope N_scope.\n')


def run_dump(workdir, tier, only=None, hashseed='0', sub='dump', extra=False):
    out = os.path.join(workdir, sub)
    cmd = [PY, os.path.join(ROOT, 'drivers', 'dump_codes.py'), out, tier, '--jobs', str(NPROC)]
    if only:
        cmd += ['--only', ','.join(only)]
    if extra:
        cmd += ['--extra', extra]
    r = subprocess.run(cmd, env=driver_env(workdir, hashseed), capture_output=True, text=True,
                       cwd=workdir)
    if r.returncode != 0:
        raise RuntimeError('dump driver failed:\n' + r.stdout[-2000:] + r.stderr[-4000:])
    idx = json.load(open(os.path.join(out, 'INDEX.json')))
    return out, idx


def load(outdir, tag):
    return json.load(open(os.path.join(outdir, tag + '.json')))


def inst_key(rec):
    return {'cls': rec['cls'], 'size': 'x'.join(map(str, rec['size'])),
            'deformation': rec['deformation'] or 'none', 'axis': rec['axis'] or 'default'}


# --------------------------------------------------------------------------------------------
# independent property evaluator for C01 (plain GF(2) arithmetic on the implementation's output)
def eval_validity(rec):
    """Returns list of (clause, detail) that fail on this table."""
    n = rec['n']
    H = [codegen.bsf_int(r, n) for r in rec['H']]
    LX = [codegen.bsf_int(r, n) for r in rec['lx']]
    LZ = [codegen.bsf_int(r, n) for r in rec['lz']]
    fails = []
    for i, r in enumerate(rec['H'] + rec['lx'] + rec['lz']):
        if r.get('nonbinary'):
            fails.append(('nonbinary', 'row %d has non-binary entries' % i))
    for i in range(len(H)):
        for j in range(i + 1, len(H)):
            if gf2.sp(H[i], H[j], n):
                fails.append(('stabilizers_commute', 'stabilizers %d and %d anticommute' % (i, j)))
                break
        if fails:
            break
    for li, L in (('X', LX), ('Z', LZ)):
        for a, l in enumerate(L):
            for i, h in enumerate(H):
                if gf2.sp(l, h, n):
                    fails.append(('logical_commutes_with_stabilizers',
                                  'logical %s_%d anticommutes with stabilizer %d' % (li, a, i)))
                    break
    if len(LX) != len(LZ):
        fails.append(('k', 'number of X logicals %d != number of Z logicals %d' % (len(LX), len(LZ))))
    for a, x in enumerate(LX):
        for b, z in enumerate(LZ):
            if gf2.sp(x, z, n) != (1 if a == b else 0):
                fails.append(('logical_pairing', 'sp(X_%d, Z_%d) = %d' % (a, b, gf2.sp(x, z, n))))
    for name, L in (('X', LX), ('Z', LZ)):
        for a in range(len(L)):
            for b in range(a + 1, len(L)):
                if gf2.sp(L[a], L[b], n):
                    fails.append(('logical_same_type_commute', '%s_%d and %s_%d anticommute' % (name, a, name, b)))
    rk = gf2.rank(H)
    if rk != n - len(LX):
        fails.append(('rank', 'GF(2) rank of generators is %d but n-k = %d-%d' % (rk, n, len(LX))))
    return fails


# --------------------------------------------------------------------------------------------
def batch(items, cost, target):
    """Group (item) into batches of total cost ~target, largest first."""
    items = sorted(items, key=cost, reverse=True)
    batches, cur, c = [], [], 0.0
    for it in items:
        w = cost(it)
        if cur and c + w > target:
            batches.append(cur)
            cur, c = [], 0.0
        cur.append(it)
        c += w
    if cur:
        batches.append(cur)
    return batches


def est_cost(rec):
    n = rec['n']
    return 0.05 + 55.0 * (n / 768.0) ** 3


def run_obligation_files(workdir, prefix, groups, body_fn, hdr=HDR, timeout=1500):
    """groups: list of lists of records.  body_fn(rec, i) -> (defs_text, [(obl_name, bool_expr)]).
    Each obligation becomes `Lemma name : expr = true. Proof. vm_cast_no_check (eq_refl true). Qed.`
    Returns dict tag -> {obl_name: True/False/None(not evaluated)}, and timing."""
    files = []
    meta = {}
    for gi, grp in enumerate(groups):
        path = os.path.join(workdir, '%s_%03d.v' % (prefix, gi))
        lines = [hdr]
        obls = []
        for ii, rec in enumerate(grp):
            defs, ob = body_fn(rec, '%d_%d' % (gi, ii))
            lines.append(defs)
            for name, expr in ob:
                lines.append('Lemma %s : %s = true. Proof. vm_cast_no_check (eq_refl true). Qed.\n' % (name, expr))
                obls.append((rec['tag'], name, expr))
        with open(path, 'w') as f:
            f.write('\n'.join(lines))
        files.append(path)
        meta[path] = (lines, obls)
    res = coqc_many(files, timeout=timeout)
    results = {}
    retry = []
    for path in files:
        rc, out, err, dt = res[path]
        lines, obls = meta[path]
        if rc == 0:
            for tag, name, expr in obls:
                results.setdefault(tag, {})[name] = True
        else:
            retry.append(path)
    # second pass for failing files: evaluate every obligation as a boolean
    if retry:
        efiles = []
        for path in retry:
            lines, obls = meta[path]
            epath = path[:-2] + '_eval.v'
            txt = []
            for ln in lines:
                if ln.startswith('Lemma '):
                    continue
                txt.append(ln)
            for tag, name, expr in obls:
                txt.append('Eval vm_compute in (%s).\n' % expr)
            with open(epath, 'w') as f:
                f.write('\n'.join(txt))
            efiles.append(epath)
        eres = coqc_many(efiles, timeout=timeout)
        for path, epath in zip(retry, efiles):
            rc, out, err, dt = eres[epath]
            lines, obls = meta[path]
            vals = eval_results(out)
            if rc != 0 or len(vals) != len(obls):
                log('[coq] could not evaluate %s: rc=%d\n%s' % (epath, rc, (out + err)[-1500:]))
                for tag, name, expr in obls:
                    results.setdefault(tag, {})[name] = None
                continue
            for (tag, name, expr), v in zip(obls, vals):
                results.setdefault(tag, {})[name] = (v.startswith('true'))
    return results


QUERY_METHODS = ('measure_syndrome', 'in_codespace', 'logical_errors', 'is_logical_error', 'is_success')


def report_hist_diff(rep, rec, key, queries=False):
    """deformed instance built from an object whose cached properties had been read (and whose query methods had been used)
    before deform() must equal the instance built from a fresh object.  queries=False: only the tables (matrix, logicals, masks,
    d, k) are this property's business; queries=True: also the answers of measure_syndrome / in_codespace / ..."""
    d = rec.get('used_then_deformed_diff') or []
    if not queries:
        d = [x for x in d if not x.startswith(QUERY_METHODS)]
    if d:
        rep.violation(dict(key, site='deform-after-use'),
                      '%s: an object whose properties were read before deform() exposes different %s than a fresh object '
                      'deformed the same way (stale cache)' % (rec['tag'], ', '.join(d)),
                      {'instance': key, 'history': 'construct; read all cached properties; deform(%s, axis=%s)'
                       % (rec['deformation'], rec['axis']), 'differs': d})


def report_cross_class(rep, outdir, fields):
    """CROSS.json of the dump: classes of one size built one after the other in one process must report what they report alone.
    fields: which differences are this property's business."""
    p = os.path.join(outdir, 'CROSS.json')
    if not os.path.exists(p):
        return
    for c in json.load(open(p)):
        d = [f for f in c['differs'] if f in fields]
        rep.case(('cross-class', c['cls'], tuple(c['size']), tuple(c['history'])), True)
        if d:
            key = {'cls': c['cls'], 'size': 'x'.join(map(str, c['size'])), 'deformation': 'none', 'axis': 'default', 'site': 'cross-class-history'}
            rep.violation(key, '%s%s built after %s in one process reports different %s (%s) than alone (%s)'
                          % (c['cls'], tuple(c['size']), ' -> '.join(c['history'][:-1]) or 'nothing', ', '.join(d), c['got'], c['alone']),
                          {'instance': key, 'history': c['history'], 'differs': d, 'got': c['got'], 'alone': c['alone']})
