"""Untrusted search for a low-weight logical operator by integer programming (scipy.optimize.milp / HiGHS).
What it returns is only a CANDIDATE witness: a Pauli operator (x|z) claimed to commute with every generator, to anticommute
with a listed logical and to have small weight.  The witness is checked in the Coq kernel (Distance.witness_below) before any
verdict is based on it; a wrong or missed witness can only make a violation go unreported, never fabricate one."""
import numpy as np


def low_weight_logical(n, H_rows, logical_rows, below, time_limit=60.0):
    """H_rows, logical_rows: lists of (xs, zs) index lists.  Looks for v of weight < below commuting with all H rows and
    anticommuting with at least one logical row.  Returns (weight, xs, zs) or None."""
    from scipy.optimize import milp, LinearConstraint, Bounds
    from scipy.sparse import lil_matrix, csr_matrix, vstack
    m = len(H_rows)
    nv = 3 * n + m + 1          # x, z, w (support), slack per generator, slack for the logical
    best = None
    A_w = lil_matrix((2 * n, nv))
    for i in range(n):
        A_w[i, i] = 1
        A_w[i, 2 * n + i] = -1
        A_w[n + i, n + i] = 1
        A_w[n + i, 2 * n + i] = -1
    A_h = lil_matrix((m, nv))
    ub = np.ones(nv)
    for r, (xs, zs) in enumerate(H_rows):
        for j in xs:           # generator has X on j: anticommutes with Z part of v
            A_h[r, n + j] = 1
        for j in zs:
            A_h[r, j] = 1
        A_h[r, 3 * n + r] = -2
        ub[3 * n + r] = len(xs) + len(zs)
    ub[-1] = 2 * n
    c = np.zeros(nv)
    c[2 * n:3 * n] = 1
    cap = lil_matrix((1, nv))
    for i in range(n):
        cap[0, 2 * n + i] = 1
    for (xs, zs) in logical_rows:
        row = lil_matrix((1, nv))
        for j in xs:
            row[0, n + j] = 1
        for j in zs:
            row[0, j] = 1
        row[0, nv - 1] = -2
        A = vstack([A_w.tocsr(), A_h.tocsr(), row.tocsr(), cap.tocsr()]).tocsr()
        lo = np.concatenate([-np.inf * np.ones(2 * n), np.zeros(m), [1], [1]])
        hi = np.concatenate([np.zeros(2 * n), np.zeros(m), [1], [below - 1]])
        try:
            res = milp(c, constraints=LinearConstraint(A, lo, hi), integrality=np.ones(nv), bounds=Bounds(np.zeros(nv), ub),
                       options={'time_limit': time_limit})
        except Exception:
            continue
        if res.x is None:
            continue
        v = np.round(res.x[:2 * n]).astype(int)
        xs_ = [i for i in range(n) if v[i]]
        zs_ = [i for i in range(n) if v[n + i]]
        w = len(set(xs_) | set(zs_))
        if w < below and (best is None or w < best[0]):
            best = (w, xs_, zs_)
    return best
