"""Turn dumped code tables (drivers/dump_codes.py) into Coq literals."""
import gf2


def nlist(xs):
    return '[' + ';'.join(str(int(x)) for x in xs) + ']'


def bsf_lit(row):
    return 'B (ofl %s) (ofl %s)' % (nlist(row['x']), nlist(row['z']))


def bsf_int(row, n):
    return gf2.rows_to_int(row['x']) | (gf2.rows_to_int(row['z']) << n)


def int_to_row(v, n):
    mask = (1 << n) - 1
    return {'x': gf2.bits(v & mask), 'z': gf2.bits(v >> n)}


def code_def(name, rec):
    n = rec['n']
    s = 'Definition %s : code := Code %d%%nat\n  [%s]\n  [%s]\n  [%s].\n' % (
        name, n,
        ';\n   '.join(bsf_lit(r) for r in rec['H']),
        '; '.join(bsf_lit(r) for r in rec['lx']),
        '; '.join(bsf_lit(r) for r in rec['lz']))
    return s


def cert_def(name, rec):
    """Find (untrusted) and print a certificate; returns (text, None) or (None, reason)."""
    n = rec['n']
    H = [bsf_int(r, n) for r in rec['H']]
    LX = [bsf_int(r, n) for r in rec['lx']]
    LZ = [bsf_int(r, n) for r in rec['lz']]
    try:
        ct = gf2.find_certificate(H, LX, LZ, n)
    except ValueError as e:
        return None, str(e)
    s = 'Definition %s : cert := Cert [%s]%%nat\n  [%s].\n' % (
        name, ';'.join(str(i) for i in ct['gen_idx']),
        ';\n   '.join(bsf_lit(int_to_row(d, n)) for d in ct['dest']))
    return s, None
