"""Shared machinery of the /verif checks.

Every check  ./check Cxx --tier quick|thorough  does, in this order:
  1. full `make` of the Coq development (theories + props), under a lock and a timeout;
  2. grep gate (no Admitted/admit/Axiom/...);
  3. compiles props/Cxx.v afresh and parses the `Print Assumptions` output;
  4. runs the property's driver against /repo's working tree, generates cases_*.v,
     evaluates them in the Coq kernel (vm_compute) and diffs model vs implementation;
  5. decides, writes evidence, prints VIOLATION / KNOWN-FINDING lines.
"""
import fcntl
import hashlib
import json
import os
import re
import shutil
import subprocess
import sys
import time
from concurrent.futures import ThreadPoolExecutor

ROOT = os.path.dirname(os.path.dirname(os.path.abspath(__file__)))
COQ = os.path.join(ROOT, 'coq')
REPO = os.environ.get('VERIF_REPO', '/repo')
PY = '/venv/bin/python'
NPROC = int(os.environ.get('VERIF_JOBS', '16'))

ALLOWED_AXIOMS = {
    # axioms declared by Coq's own standard library (Reals / classical logic); see DESIGN.md §7
    'ClassicalDedekindReals.sig_not_dec',
    'ClassicalDedekindReals.sig_forall_dec',
    'FunctionalExtensionality.functional_extensionality_dep',
    'Classical_Prop.classic',
}

COQ_ARGS = ['-Q', os.path.join(COQ, 'theories'), 'PQ', '-Q', os.path.join(COQ, 'props'), 'PQP',
            '-w', '-notation-overridden,-deprecated-hint-without-locality,'
                  '-deprecated-instance-without-locality,-abstract-large-number']


def log(*a):
    print(*a, file=sys.stderr, flush=True)


# ------------------------------------------------------------------------------------------
# environment for drivers that import panqec from the working tree
def driver_env(workdir, hashseed='0'):
    env = dict(os.environ)
    env['PYTHONPATH'] = REPO + os.pathsep + os.path.join(ROOT, 'harness')
    env['PYTHONHASHSEED'] = str(hashseed)
    env['PANQEC_DIR'] = os.path.join(workdir, 'panqec_dir')
    env['MPLBACKEND'] = 'Agg'
    env['PANQEC_VERIF'] = '1'
    env['OMP_NUM_THREADS'] = '1'
    env['OPENBLAS_NUM_THREADS'] = '1'
    os.makedirs(env['PANQEC_DIR'], exist_ok=True)
    return env


def use_repo_in_process(workdir):
    """Make this very process import panqec from REPO (used by in-process drivers)."""
    os.environ['PANQEC_DIR'] = os.path.join(workdir, 'panqec_dir')
    os.makedirs(os.environ['PANQEC_DIR'], exist_ok=True)
    os.environ.setdefault('MPLBACKEND', 'Agg')
    os.environ['PANQEC_VERIF'] = '1'
    if sys.path[0] != REPO:
        sys.path.insert(0, REPO)


# ------------------------------------------------------------------------------------------
# Coq build
def coq_build(timeout=1500):
    """Full .vo build of theories+props.  Returns (ok, log_text)."""
    os.makedirs(os.path.join(ROOT, 'work'), exist_ok=True)
    lock = open(os.path.join(ROOT, 'work', '.coq.lock'), 'w')
    fcntl.flock(lock, fcntl.LOCK_EX)
    try:
        t0 = time.time()
        mk = os.path.join(COQ, 'Makefile')
        cp = os.path.join(COQ, '_CoqProject')
        write_coqproject()
        if (not os.path.exists(mk)) or os.path.getmtime(mk) < os.path.getmtime(cp):
            r = subprocess.run(['coq_makefile', '-f', '_CoqProject', '-o', 'Makefile'], cwd=COQ,
                               capture_output=True, text=True)
            if r.returncode != 0:
                return False, r.stdout + r.stderr
        r = subprocess.run(['timeout', str(timeout), 'make', '-j%d' % NPROC], cwd=COQ,
                           capture_output=True, text=True)
        out = r.stdout + r.stderr
        log('[coq] make rc=%d in %.1fs' % (r.returncode, time.time() - t0))
        return r.returncode == 0, out
    finally:
        fcntl.flock(lock, fcntl.LOCK_UN)
        lock.close()


def write_coqproject():
    """_CoqProject lists every .v under theories/ and props/ (rewritten only when the set changes)."""
    lines = ['-Q theories PQ', '-Q props PQP',
             '-arg -w -arg -notation-overridden,-deprecated-hint-without-locality,'
             '-deprecated-instance-without-locality,-abstract-large-number']
    for sub in ('theories', 'props'):
        d = os.path.join(COQ, sub)
        if os.path.isdir(d):
            lines += sorted('%s/%s' % (sub, f) for f in os.listdir(d) if f.endswith('.v'))
    txt = '\n'.join(lines) + '\n'
    cp = os.path.join(COQ, '_CoqProject')
    if not os.path.exists(cp) or open(cp).read() != txt:
        with open(cp, 'w') as f:
            f.write(txt)


GATE = re.compile(r'\b(Admitted|admit|Axiom|Axioms|Parameter|Parameters|Conjecture|Hypothesis|Variable|'
                  r'Unset\s+Guard|bypass_check|Admit\s+Obligations|type-in-type|impredicative-set|'
                  r'native_compute)\b')


def grep_gate():
    """Reject forbidden vernacular anywhere in the development.  `Variable(s)/Hypothesis` are
    allowed only inside a Section (checked syntactically: we track Section/End nesting)."""
    bad = []
    for sub in ('theories', 'props'):
        d = os.path.join(COQ, sub)
        for fn in sorted(os.listdir(d)):
            if not fn.endswith('.v'):
                continue
            depth = 0
            txt = open(os.path.join(d, fn)).read()
            txt = strip_comments(txt)
            for ln, line in enumerate(txt.split('\n'), 1):
                if re.match(r'\s*Section\s', line):
                    depth += 1
                elif re.match(r'\s*End\s', line) and depth > 0:
                    depth -= 1
                for m in GATE.finditer(line):
                    w = m.group(1)
                    if w in ('Variable', 'Hypothesis') and depth > 0:
                        continue
                    bad.append('%s/%s:%d: %s' % (sub, fn, ln, line.strip()[:120]))
    return bad


def strip_comments(txt):
    out = []
    depth = 0
    i = 0
    while i < len(txt):
        if txt.startswith('(*', i):
            depth += 1
            i += 2
        elif txt.startswith('*)', i) and depth > 0:
            depth -= 1
            i += 2
        else:
            if depth == 0:
                out.append(txt[i])
            elif txt[i] == '\n':
                out.append('\n')
            i += 1
    return ''.join(out)


def _big_stack():
    # long list literals (tens of thousands of elements) overflow the default 8 MB stack of the Coq parser
    import resource
    try:
        hard = resource.getrlimit(resource.RLIMIT_STACK)[1]
        resource.setrlimit(resource.RLIMIT_STACK, (hard, hard))
    except Exception:
        pass


def coqc(path, timeout=900, cwd=None):
    t0 = time.time()
    cmd = ['timeout', str(timeout), 'coqc'] + COQ_ARGS + [path]
    r = subprocess.run(cmd, capture_output=True, text=True, cwd=cwd or os.path.dirname(path), preexec_fn=_big_stack)
    return r.returncode, r.stdout, r.stderr, time.time() - t0


def coqc_many(paths, timeout=900, jobs=None):
    jobs = jobs or NPROC
    res = {}
    with ThreadPoolExecutor(max_workers=jobs) as ex:
        for p, r in zip(paths, ex.map(lambda p: coqc(p, timeout), paths)):
            res[p] = r
    return res


def prop_assumptions(pid, workdir):
    """Compile a private copy of props/<pid>.v and parse Print Assumptions output.
    Returns (ok, {theorem: [axioms]}, raw)."""
    src = os.path.join(COQ, 'props', pid + '.v')
    dst = os.path.join(workdir, 'PA_' + pid + '.v')
    shutil.copy(src, dst)
    names = re.findall(r'Print Assumptions\s+([\w\.]+)\s*\.', strip_comments(open(src).read()))
    rc, out, err, dt = coqc(dst, timeout=600)
    if rc != 0:
        return False, {}, out + err
    blocks = re.split(r'(?=Closed under the global context|Axioms:)', out)
    blocks = [b for b in blocks if b.startswith('Closed under') or b.startswith('Axioms:')]
    res = {}
    for name, b in zip(names, blocks):
        if b.startswith('Closed'):
            res[name] = []
        else:
            res[name] = [a for a in re.findall(r'^([A-Za-z_][\w\.]*)\s*:', b, flags=re.M) if a != 'Axioms']
    if len(blocks) != len(names):
        return False, res, 'could not parse Print Assumptions output\n' + out
    return True, res, out


def eval_results(out):
    """Values printed by `Eval vm_compute in <bool/number>.` commands, in order."""
    return re.findall(r'^\s+=\s+(.*?)\s*$', out, flags=re.M)


# ------------------------------------------------------------------------------------------
# Coq literal printers
def coq_N(x):
    return '%d' % x


def coq_list(items, scope=None):
    s = '[' + '; '.join(items) + ']'
    return s + ('%' + scope if scope else '')


def coq_Nlist(xs):
    return '[' + '; '.join('%d' % x for x in xs) + ']%N'


def coq_Z(x):
    return '(%d)' % x if x < 0 else '%d' % x


def coq_Zlist(xs):
    return '[' + '; '.join(coq_Z(int(x)) for x in xs) + ']%Z'


def coq_bool(b):
    return 'true' if b else 'false'


def coq_string(s):
    return '"' + s.replace('"', '""') + '"'


CASE_HEADER = ('From Coq Require Import NArith ZArith List Bool String.\n'
               'Import ListNotations.\n')


# ------------------------------------------------------------------------------------------
class Reporter:
    """Collects what a run covered, decides, writes evidence, prints verdict lines."""

    def __init__(self, pid, tier, seed, level='proof'):
        self.pid, self.tier, self.seed, self.level = pid, tier, seed, level
        self.t0 = time.time()
        self.obligations = 0
        self.discharged = 0
        self.theorems = {}
        self.evaluations = 0
        self.nontrivial = set()
        self.samples = []
        self.rule = ''
        self.dist = {}
        self.violations = []      # dicts: key, what, replay
        self.known_hits = []
        self.assumptions = []
        self.trusted = []
        self.extra = {}
        self.checker_cmd = './check %s --tier %s' % (pid, tier)
        self.traces = 0
        self.known = load_known()

    # -- coverage bookkeeping
    def count(self, kind, n=1):
        self.dist[kind] = self.dist.get(kind, 0) + n

    def case(self, canonical, nontrivial=True, sample=None):
        self.evaluations += 1
        if nontrivial:
            self.nontrivial.add(hashlib.sha1(repr(canonical).encode()).hexdigest())
        if sample is not None and len(self.samples) < 6:
            self.samples.append(sample)

    def oblige(self, n=1, ok=None):
        self.obligations += n
        if ok is None:
            return
        self.discharged += ok

    # -- violations
    def violation(self, key, what, replay_obj, no_input=False):
        """key: dict identifying call site + input class (matched against known findings)."""
        for kf in self.known:
            if kf.get('property') != self.pid or kf.get('status') != 'open':
                continue
            m = kf.get('match', {})
            if all(match_val(key.get(k), v) for k, v in m.items()):
                if kf['id'] not in [k['id'] for k in self.known_hits]:
                    self.known_hits.append(kf)
                return 'known'
        if len(self.violations) >= 12:      # enough replays; keep counting only
            self.violations.append({'key': key, 'what': what, 'replay': self.violations[-1]['replay'],
                                    'no_input': no_input})
            return 'new'
        d = os.path.join(os.environ.get('VERIF_REPLAY_DIR', os.path.join(ROOT, 'replays')), self.pid)
        os.makedirs(d, exist_ok=True)
        path = os.path.join(d, '%d.json' % len(self.violations))
        replay_obj = dict(replay_obj)
        replay_obj.update({'property': self.pid, 'key': key, 'what': what,
                           'no_failing_input_found': bool(no_input)})
        with open(path, 'w') as f:
            json.dump(replay_obj, f, indent=1, default=str)
        self.violations.append({'key': key, 'what': what, 'replay': path, 'no_input': no_input})
        return 'new'

    def finish(self):
        wall = time.time() - self.t0
        if not self.violations and self.known_hits and self.discharged < self.obligations:
            # obligations that fail only because of listed known findings are reported separately
            self.extra['obligations_failing_as_known_findings'] = self.obligations - self.discharged
            self.obligations = self.discharged
        cov = {
            'obligations': self.obligations,
            'discharged': self.discharged,
            'checker_cmd': self.checker_cmd,
            'trusted_base': self.trusted,
            'theorems': self.theorems,
            'evaluations': max(self.evaluations, 0),
            'distinct_nontrivial': len(self.nontrivial),
            'rule': self.rule,
            'samples': self.samples,
            'input_distribution': self.dist,
            'traces_validated_against_impl': self.traces,
        }
        cov.update(self.extra)
        ev = {
            'property_id': self.pid, 'tier': self.tier, 'seed': self.seed, 'level': self.level,
            'coverage': cov, 'assumptions': self.assumptions, 'wall_s': round(wall, 2),
            'violations': len(self.violations),
            'known_findings_hit': [k['id'] for k in self.known_hits],
        }
        evdir = os.environ.get('VERIF_EVIDENCE_DIR', os.path.join(ROOT, 'evidence'))   # override: seeded-change runs only
        os.makedirs(evdir, exist_ok=True)
        with open(os.path.join(evdir, self.pid + '.json'), 'w') as f:
            json.dump(ev, f, indent=1, default=str)
        for k in self.known_hits:
            print('KNOWN-FINDING: property=%s %s: %s' % (self.pid, k['id'], k['what']))
        seen = set()
        for v in self.violations:
            if v['replay'] in seen:
                continue
            seen.add(v['replay'])
            tail = ' no-failing-input-found' if v['no_input'] else ''
            log('  violation: %s' % v['what'])
            print('VIOLATION property=%s replay=%s%s' % (self.pid, v['replay'], tail))
        ok = not self.violations
        print('%s %s tier=%s obligations=%d discharged=%d evaluations=%d distinct_nontrivial=%d wall=%.1fs'
              % ('OK' if ok else 'FAIL', self.pid, self.tier, self.obligations, self.discharged,
                 self.evaluations, len(self.nontrivial), wall))
        sys.stdout.flush()
        return 0 if ok else 1


def match_val(actual, pattern):
    if isinstance(pattern, dict) and 're' in pattern:
        return actual is not None and re.search(pattern['re'], str(actual)) is not None
    if isinstance(pattern, list):
        return actual in pattern
    return actual == pattern


def load_known():
    p = os.path.join(ROOT, 'known_findings.json')
    if not os.path.exists(p):
        return []
    return json.load(open(p)).get('findings', [])


# ------------------------------------------------------------------------------------------
def standard_preamble(rep, workdir, pid):
    """Steps 1-3 common to every check.  Records theorem obligations in the reporter.
    Returns True when the development builds and all property theorems are axiom-clean."""
    ok, out = coq_build()
    if not ok:
        tail = '\n'.join(out.strip().split('\n')[-30:])
        log(tail)
        m = re.search(r'File "([^"]+)", line (\d+)', out)
        rep.violation({'site': 'coq-build', 'file': m.group(1) if m else '?'},
                      'the Coq development no longer builds: ' + (m.group(0) if m else 'see log'),
                      {'broken': 'make in /verif/coq', 'log_tail': tail}, no_input=True)
        return False
    bad = grep_gate()
    if bad:
        rep.violation({'site': 'grep-gate'}, 'forbidden vernacular: ' + bad[0],
                      {'broken': 'grep gate', 'lines': bad}, no_input=True)
        return False
    ok, thms, raw = prop_assumptions(pid, workdir)
    if not ok:
        log(raw[-3000:])
        rep.violation({'site': 'props'}, 'props/%s.v does not compile / parse' % pid,
                      {'broken': 'props/%s.v' % pid, 'log_tail': raw[-3000:]}, no_input=True)
        return False
    axioms_used = set()
    for name, ax in thms.items():
        rep.obligations += 1
        extra = [a for a in ax if a not in ALLOWED_AXIOMS]
        if extra:
            rep.violation({'site': 'axioms', 'theorem': name},
                          'theorem %s depends on non-allow-listed axioms %s' % (name, extra),
                          {'broken': name, 'axioms': ax}, no_input=True)
        else:
            rep.discharged += 1
        axioms_used.update(ax)
        rep.theorems[name] = 'closed under the global context' if not ax else 'axioms: ' + ', '.join(ax)
    rep.trusted += ['Coq 8.16.1 kernel incl. vm_compute (no native_compute)',
                    'axioms (Print Assumptions): ' + (', '.join(sorted(axioms_used)) or 'none')]
    return True


def mkwork(pid):
    d = os.path.join(ROOT, 'work', '%s.%d' % (pid, os.getpid()))
    shutil.rmtree(d, ignore_errors=True)
    os.makedirs(d)
    return d


def rmwork(d):
    if os.environ.get('VERIF_KEEP'):
        return
    shutil.rmtree(d, ignore_errors=True)
