"""D13: save_json truncates the results file in place; a kill during the write destroys the last completed save
(plain: restart starts from scratch and loses trials; gzip: restart raises EOFError)."""
import os, sys, json, gzip, subprocess, tempfile
import panqec.utils as U

child = r'''
import sys, os, json
import panqec.utils as U
path, mode = sys.argv[1], sys.argv[2]
U.save_json([{"results": {"a": list(range(50))}, "inputs": {"x": 1}}], path)      # completed save
# second save is killed in the middle of the write
import builtins, gzip
class Killer:
    def __init__(self, f, limit): self.f, self.n, self.limit = f, 0, limit
    def write(self, b):
        k = max(0, min(len(b), self.limit - self.n)); self.f.write(b[:k]); self.n += k
        if self.n >= self.limit:
            self.f.flush(); os._exit(9)
        return len(b)
    def __getattr__(self, a): return getattr(self.f, a)
    def __enter__(self): return self
    def __exit__(self, *a): return self.f.__exit__(*a)
if mode == 'plain':
    real_open = builtins.open
    def fake_open(file, m='r', *a, **k):
        f = real_open(file, m, *a, **k)
        return Killer(f, 40) if 'w' in m else f
    U.open = fake_open
else:
    real_gz = gzip.open
    def fake_gz(file, m='rb', *a, **k):
        f = real_gz(file, m, *a, **k)
        if 'w' in m:
            raw = f.fileobj
            f.fileobj = Killer(raw, 30)
        return f
    U.gzip.open = fake_gz
U.save_json([{"results": {"a": list(range(60))}, "inputs": {"x": 1}}], path)
'''
for mode, name in (('plain', 'r.json'), ('gz', 'r.json.gz')):
    with tempfile.TemporaryDirectory() as d:
        path = os.path.join(d, name)
        r = subprocess.run([sys.executable, '-c', child, path, mode], capture_output=True, text=True)
        assert r.returncode == 9, (r.returncode, r.stderr[-500:])
        try:
            data = U.load_json(path)
        except Exception as e:
            raise AssertionError('D13 (%s): results file unreadable after a kill during save: %r' % (mode, e))
        assert data[0]['results']['a'] == list(range(50)), 'D13 (%s): last completed save lost' % mode
print('ok')
