"""D15: from_bsf and the sparse branch of bsf_to_pauli assumed sorted CSR indices: a row built with panqec's own
bsparse.insert_mod2 (Z bit inserted before the X bit) read back as X instead of Y."""
from panqec import bsparse
from panqec.bpauli import bsf_to_pauli
from panqec.codes import Toric2DCode
code = Toric2DCode(2, 2)
n = code.n
row = bsparse.zero_row(2*n)
bsparse.insert_mod2(n + 3, row)
bsparse.insert_mod2(3, row)
bsparse.insert_mod2(1, row)
assert bsf_to_pauli(row) == ['IXIYIIII'], 'D15: bsf_to_pauli gives %s' % bsf_to_pauli(row)
op = code.from_bsf(row)
assert op == {code.qubit_coordinates[3]: 'Y', code.qubit_coordinates[1]: 'X'}, 'D15: from_bsf gives %s' % op
assert (code.to_bsf(op) == row.toarray()[0]).all()
print('ok')
