"""D17: HollowRhombicCode lists one logical qubit but its generators have GF(2) rank n-2 (or less) on lattices whose hole
is large enough: the listed logicals are not a complete set (C01: rank n-k).  Run: PYTHONPATH=/repo python D17.py"""
import sys
import panqec.codes as pc


def rank(H):
    rows = [int(''.join(map(str, r)), 2) for r in (H.toarray() % 2)]
    piv = []
    for x in rows:
        for p in piv:
            x = min(x, x ^ p)
        if x:
            piv.append(x)
    return len(piv)


bad = 0
for s in [(4, 4, 4), (6, 6, 6), (3, 6, 6), (5, 4, 6), (6, 6, 4), (3, 7, 7)]:
    c = pc.HollowRhombicCode(*s)
    r = rank(c.stabilizer_matrix)
    ok = r == c.n - c.k
    bad += not ok
    print(s, 'n', c.n, 'k', c.k, 'rank', r, 'n-k', c.n - c.k, 'ok' if ok else 'VIOLATES rank = n-k')
sys.exit(1 if bad else 0)
