"""D18: HollowPlanar3DCode overstates its distance on long thin lattices (L_x >= 2(L_y+L_z)-3, L_y, L_z >= 3): e.g. (9,3,3)
reports d = 9 but a weight-8 Z operator (a membrane closing around the hole) commutes with every generator and anticommutes
with the listed logical X.  Run: PYTHONPATH=/repo python D18.py"""
import sys
import numpy as np
import panqec.codes as pc
from panqec.bpauli import bs_prod

c = pc.HollowPlanar3DCode(9, 3, 3)
n = c.n
e = np.zeros(2 * n, dtype='uint8')
for q in [49, 50, 51, 52, 53, 54, 55, 56]:
    e[n + q] = 1
commutes = not np.any(np.asarray(bs_prod(c.stabilizer_matrix, e)) % 2)
nontrivial = bool(np.any(np.asarray(bs_prod(c.logicals_x, e)) % 2) or np.any(np.asarray(bs_prod(c.logicals_z, e)) % 2))
print('reported d =', c.d, '; operator', c.from_bsf(e), 'weight 8, commutes with all generators:', commutes,
      ', acts non-trivially on the logical qubit:', nontrivial)
sys.exit(1 if (commutes and nontrivial and c.d > 8) else 0)
