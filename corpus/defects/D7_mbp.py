"""D7: MemoryBeliefPropagationDecoder.decode raises OverflowError ((-1)**uint8) with NumPy >= 2."""
import io, contextlib
import numpy as np
from panqec.codes import Toric2DCode
from panqec.decoders import MemoryBeliefPropagationDecoder
from panqec.error_models import PauliErrorModel
code = Toric2DCode(3, 3)
em = PauliErrorModel(1/3, 1/3, 1/3)
dec = MemoryBeliefPropagationDecoder(code, em, 0.05, max_bp_iter=3)
e = np.zeros(2*code.n, dtype='uint8'); e[2] = 1
with contextlib.redirect_stdout(io.StringIO()):
    c = dec.decode(code.measure_syndrome(e))
assert c.shape == (2*code.n,) and set(np.unique(c)) <= {0, 1}
print('ok')
