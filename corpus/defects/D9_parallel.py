"""D9: run_parallel gives the last task of an input `trials % n_runs` extra trials instead of
`trials % n_tasks_per_input`: (1 input, 1 node x 4 cores, 10 trials) ran 8 trials."""
import os, tempfile, multiprocessing, contextlib, io
import panqec.cli as cli

def launched(n_inputs, n_nodes, n_cores, trials):
    tasks = []
    class FakeProc:
        def __init__(self, target=None, args=(), kwargs=None):
            tasks.append(args)
        def start(self): pass
        def join(self): pass
    with tempfile.TemporaryDirectory() as d:
        os.makedirs(os.path.join(d, 'inputs'))
        for i in range(n_inputs):
            open(os.path.join(d, 'inputs', 'in_%02d.json' % i), 'w').write('{}')
        old = (multiprocessing.Process, multiprocessing.cpu_count)
        multiprocessing.Process, multiprocessing.cpu_count = FakeProc, (lambda: 64)
        try:
            with contextlib.redirect_stdout(io.StringIO()):
                for job in range(1, n_nodes + 1):
                    cli.run_parallel.callback(d, trials, n_nodes, job, n_cores, False, True)
        finally:
            multiprocessing.Process, multiprocessing.cpu_count = old
    return [(os.path.basename(a[0]), os.path.basename(a[1]), a[2]) for a in tasks]

for cfg in [(1, 1, 4, 10), (2, 1, 5, 7), (3, 2, 4, 11)]:
    t = launched(*cfg)
    per = {}
    for inp, res, n in t:
        per[inp] = per.get(inp, 0) + n
        assert n >= 1
    assert len(set(r for _, r, _ in t)) == len(t)
    assert all(v == cfg[3] for v in per.values()) and len(per) == cfg[0], 'D9: %s -> trials per input %s' % (cfg, per)
print('ok')
