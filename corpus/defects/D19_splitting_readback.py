"""D19: an input specification written by `generate-input -m splitting` could not be read back (ValueError in get_simulations)."""
import os, tempfile, glob
from click.testing import CliRunner
from panqec.cli import cli
from panqec.simulation import read_input_json
with tempfile.TemporaryDirectory() as d:
    r = CliRunner().invoke(cli, ['generate-input', '-d', d, '--code_class', 'Toric2DCode', '-s', '3x3,4x4', '--decoder_class', 'MatchingDecoder',
                                 '--bias', 'Z', '--eta', '10', '--prob', '0.1:0.2:0.05', '-m', 'splitting'])
    assert r.exit_code == 0, r.output
    files = sorted(glob.glob(os.path.join(d, 'inputs', '*.json')))
    assert len(files) == 1
    bs = read_input_json(files[0], os.path.join(d, 'out.json'))
    sims = bs._simulations
    assert [type(s).__name__ for s in sims] == ['SplittingSimulation'] * 2, sims
    assert [s.code.params['L_x'] for s in sims] == [3, 4]
    for s in sims:
        assert sorted(round(float(x), 9) for x in s.error_rates) == [0.1, 0.15, 0.2] and len(s.decoders) == 3
print('ok')
