"""D14: rotated picture (offered unconditionally by the GUI menu) has no stabilizer entries for the three 2-D colour
codes in gui-config.json: stabilizer_representation raised KeyError (HTTP 500 from /code-data)."""
from panqec.codes import Color666ToricCode, Color666PlanarCode, Color488Code, Toric2DCode
for cls in (Color666ToricCode, Color666PlanarCode, Color488Code, Toric2DCode):
    code = cls(2, 2)
    for rot in (False, True):
        for loc in code.stabilizer_coordinates:
            r = code.stabilizer_representation(loc, rotated_picture=rot)
            assert {'object', 'color', 'opacity', 'params', 'type', 'location'} <= set(r), r
            assert r['color']['activated'].startswith('0x')
print('ok')
