"""D16: XCubeMatchingDecoder.decode zeroes the X-stabilizer entries of the CALLER's syndrome array."""
import numpy as np
from panqec.codes import XCubeCode
from panqec.decoders import XCubeMatchingDecoder
from panqec.error_models import PauliErrorModel
code = XCubeCode(2, 2, 2)
em = PauliErrorModel(0, 0, 1)
dec = XCubeMatchingDecoder(code, em, 0.1)
e = np.zeros(2 * code.n, dtype='uint8'); e[code.n + 3] = 1; e[5] = 1
syn = code.measure_syndrome(e)
before = syn.copy()
dec.decode(syn)
assert np.array_equal(syn, before), 'D16: decode modified the caller\'s syndrome: %s -> %s' % (np.nonzero(before)[0], np.nonzero(syn)[0])
print('ok')
