"""D11: BaseErrorModel.error_probability used the mask x==z for Y, which also matches identity qubits, so
P(identity on a qubit) = p_i + p_y and the probabilities of all 4^n errors do not sum to 1 when r_y > 0."""
import itertools
import numpy as np
from panqec.codes import RotatedPlanar2DCode
from panqec.error_models import PauliErrorModel
code = RotatedPlanar2DCode(2, 2)
n = code.n
em = PauliErrorModel(0.25, 0.5, 0.25)
p = 0.25
tot = 0.0
for bits in itertools.product([0, 1], repeat=2*n):
    tot += em.error_probability(np.array(bits, dtype='uint8'), code, p)
assert abs(tot - 1.0) < 1e-12, 'D11: probabilities of all 4^%d errors sum to %r' % (n, tot)
e = np.zeros(2*n, dtype='uint8')
assert abs(em.error_probability(e, code, p) - (1-p)**n) < 1e-15
print('ok')
