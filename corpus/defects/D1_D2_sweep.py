"""D1: get_default_direction raises TypeError with NumPy>=2.  D2: SweepDecoder3D.sweep_move assigns instead of
toggling, so tracked signs != face syndrome of (error+correction) once an edge is flipped twice."""
import numpy as np
from panqec.codes import Toric3DCode
from panqec.decoders import SweepDecoder3D
from panqec.error_models import PauliErrorModel

code = Toric3DCode(3, 3, 3)
em = PauliErrorModel(0, 0, 1)
dec = SweepDecoder3D(code, em, 0.1)
d = dec.get_default_direction()          # D1: TypeError on unfixed tree
assert d in (0, 1, 2)
rng = np.random.default_rng(5)
bad = 0
n = code.n
for trial in range(200):
    e = np.zeros(2 * n, dtype='uint8')
    for q in rng.choice(n, size=5, replace=False):
        e[n + q] = 1
    signs = dec.get_initial_state(code.measure_syndrome(e))
    corr = {}
    for sweep in range(6):
        signs = dec.sweep_move(signs, corr)
        tot = (e + code.to_bsf(corr)) % 2
        true = code.measure_syndrome(tot).copy()
        true[code.z_indices] = 0
        if not np.array_equal(true, signs):
            bad += 1
            break
assert bad == 0, 'D2: tracked signs differ from residual face syndrome in %d/200 runs' % bad
print('ok')
