"""D8: every registered name must resolve to the class of that name."""
from panqec.config import CODES, DECODERS, ERROR_MODELS
for d in (CODES, DECODERS, ERROR_MODELS):
    for k, v in d.items():
        assert k == v.__name__, 'D8: %s resolves to %s' % (k, v.__name__)
print('ok')
