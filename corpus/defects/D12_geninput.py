"""D12: generate-input (a) wrote every bias ratio to the same <label>.json, (b) min:max:step overshoots max."""
import os, tempfile, json, glob
from click.testing import CliRunner
from panqec.cli import cli, read_range_input
v = read_range_input('0:0.07:0.005')
assert len(v) == 15 and abs(v[-1] - 0.07) < 1e-12 and max(v) <= 0.07, 'D12b: %s' % v[-3:]
with tempfile.TemporaryDirectory() as d:
    r = CliRunner().invoke(cli, ['generate-input', '-d', d, '--code_class', 'Toric2DCode', '-s', '3x3,4x4',
                                 '--decoder_class', 'MatchingDecoder', '--bias', 'Z', '--eta', '0.5,10,inf', '--prob', '0.1,0.2'])
    assert r.exit_code == 0, r.output
    files = sorted(glob.glob(os.path.join(d, 'inputs', '*.json')))
    assert len(files) == 3, 'D12a: %d files for 3 bias ratios' % len(files)
    rz = sorted(json.load(open(f))['ranges']['error_model']['parameters']['r_z'] for f in files)
    assert abs(rz[0] - 1/3) < 1e-12 and abs(rz[1] - 10/11) < 1e-12 and rz[2] == 1.0
print('ok')
