"""D4: BeliefPropagationOSDDecoder reads `osdw_decoding`, which ldpc 2.x only refreshes when OSD runs
(BP did not converge): the correction does not reproduce the syndrome and depends on the previous call."""
import numpy as np
from panqec.codes import Toric2DCode, XCubeCode
from panqec.decoders import BeliefPropagationOSDDecoder
from panqec.error_models import PauliErrorModel

bad = 0
for code in (Toric2DCode(3, 4), ):
    em = PauliErrorModel(1/3, 1/3, 1/3)
    dec = BeliefPropagationOSDDecoder(code, em, 0.05)
    rng = np.random.default_rng(1)
    for t in range(60):
        e = em.generate(code, 0.08, rng=rng)
        s = code.measure_syndrome(e)
        c = dec.decode(s)
        if not np.array_equal(code.measure_syndrome(c), s):
            bad += 1
assert bad == 0, 'D4: correction does not reproduce the syndrome in %d/60 decodes' % bad
print('ok')
